"""C04 — direct estimators equal exact pair frequencies.

Lean: Model/Estimators.lean (frequency of a level among non-null comparison vectors; sampling arithmetic built on the
GENERATED _rows_needed_for_n_pairs / _proportion_sample_size_link_only; prior formula and recall guard on the generated
calculate_cartesian; lower-id-to-the-left) and Properties/C04.lean.
Tie: estimate_u_using_random_sampling (full sample: exactness; small sample + seed: reproducibility),
estimate_m_from_label_column, estimate_m_from_pairwise_labels, estimate_probability_two_random_records_match on generated
data vs the compiled model; brute-force recount oracle on the real output; translation validation of the generated arithmetic.

Input families added by the generator audit (see count_families for the evidence counters): string ids, non-default id column names,
frames with shuffled columns, empty / one-row tables, table aliases reversed or left to Splink, a dedupe frame carrying a
source_dataset column, '' values and all-NULL columns, settings that must not matter, an earlier (accepted or rejected) estimator call
on the same linker, max_pairs on both sides of 1e4 and as float, unseeded small samples (oracle: the frequency of SOME sample),
label column = a comparison column, labels tables with extra / shuffled columns, absent records, passed as SplinkDataFrame, and
re-registered under the same name; deterministic rules as creators / dicts / one bare rule, duplicated, reused across dialects,
max_rows_limit, recall a hair below the boundary and outside (0, 1].
"""
from __future__ import annotations

import json
import math
import random

from harness import blockgen as bg
from harness import core
from harness.props import c02

PROP = "C04"
ALIASES = ["ta", "tb", "tc"]
NOT_OBS = "level not observed in training dataset"


# --------------------------------------------------------------------------- generation
STR_IDS = [str(j) for j in range(1, 13)] + ["i0", "i1", "A1"]  # "10" < "9" as strings
LABELS = ["e1", "e2", "e3", "e4", "e5"]
OUT_OF_RANGE_RECALLS = [0, 0.0, -0.0, -0.5, 1.0000001, 2]
ALL_PAIRS_RULE = "l.c = r.c OR l.c <> r.c OR l.c IS NULL OR r.c IS NULL"  # TRUE for every pair


def gen_case(rng: random.Random, kind=None, engine=None):
    engine = engine or rng.choice(["duckdb", "duckdb", "sqlite"])
    k = rng.choice([1, 1, 2, 3])
    link_type = "dedupe_only" if k == 1 else rng.choice(["link_only", "link_and_dedupe"])
    null_rate = rng.choice([0.0, 0.2, 0.4])
    # one column that is NULL in (nearly) every record: every pair is in the null level, no level is observed
    null_rates = {c: null_rate for c in "abc"}
    if rng.random() < 0.1:
        null_rates[rng.choice("abc")] = rng.choice([1.0, 0.9])
    empty_str = rng.random() < 0.15  # '' is a value, not NULL: '' = '' is TRUE
    str_dom_a, str_dom_b = c02.STR_DOM[:5] + ([""] if empty_str else []), c02.STR_DOM[:4] + ([""] if empty_str else [])
    lab_dom = LABELS + ([""] if rng.random() < 0.15 else [])
    tables = []
    uid = 0
    # ids unique over all tables, or restarting in every table (records of different datasets then share unique ids)
    ids = "global" if k == 1 or rng.random() < 0.5 else "per_table"
    # integer ids, or string ids (whose order is not the numeric one)
    id_type = "int" if rng.random() < 0.7 else "str"
    # several input frames, or ONE pre-concatenated frame that carries the source_dataset column itself
    layout = "tables" if k == 1 or rng.random() < 0.65 else "concat"
    sizes = [rng.randint(2 if k == 1 else 1, 7) for _ in range(k)]
    if k >= 2 and rng.random() < 0.08:
        sizes[rng.randrange(k)] = 0  # an empty input table
        if sum(1 for n in sizes if n) < 2 and link_type == "link_only":
            sizes = [max(n, 1) for n in sizes]
        if sum(sizes) < 2:
            sizes[0] = 2
    pool = list(STR_IDS)
    rng.shuffle(pool)
    for n in sizes:
        rows = []
        if ids == "per_table":
            uid = 0
            rng.shuffle(pool)
        for _ in range(n):
            uid += 1
            rows.append({
                "unique_id": uid if id_type == "int" else pool[(uid - 1) % len(pool)] + ("" if uid <= len(pool) else f"_{uid}"),
                "a": None if rng.random() < null_rates["a"] else rng.choice(str_dom_a),
                "b": None if rng.random() < null_rates["b"] else rng.choice(str_dom_b),
                "c": None if rng.random() < null_rates["c"] else rng.choice(c02.INT_DOM),
                "lab": None if rng.random() < 0.25 else rng.choice(lab_dom),
            })
        tables.append(rows)
    comps = []
    for c in rng.sample(["a", "b", "c"], rng.randint(1, 3)):
        cc = c02.gen_comparison(rng, c, engine)
        for l in cc["levels"]:
            if l.get("u") == 0.0:
                l["u"] = 0.05
            if l["kind"] != "null" and rng.random() < 0.08:
                l["fix_u"] = True
            if l["kind"] != "null" and rng.random() < 0.08:
                l["fix_m"] = True
        comps.append(cc)
    kind = kind or rng.choice(["u_full", "u_full", "u_seeded", "u_sampled", "m_label_col", "m_pairwise", "m_pairwise", "prior", "prior"])
    case = {"engine": engine, "link_type": link_type, "tables": tables, "comparisons": comps, "kind": kind, "prior": 0.1,
            "shuffle": rng.randrange(1 << 30), "tag": "random", "ids": ids, "layout": layout, "id_type": id_type}
    # non-default names of the id columns (settings unique_id_column_name / source_dataset_column_name)
    case["uid_col"] = "unique_id" if rng.random() < 0.75 else "uid"
    case["sd_col"] = "source_dataset" if k == 1 or rng.random() >= (0.35 if layout == "concat" else 0.05) else "src"
    # the names of the input tables: given in sorted order, given in another order than the alphabetical one, or left to Splink
    case["aliases"] = "sorted" if k == 1 else rng.choice(["sorted", "sorted", "reversed", "default"])
    # a single frame to dedupe that happens to carry a source_dataset column (e.g. an earlier concatenation): a plain column
    case["extra_sd_column"] = k == 1 and rng.random() < 0.15
    # every input frame lists the same columns in its own order
    case["col_order"] = "given" if rng.random() < 0.6 else "shuffled"
    # settings that must not matter to the direct estimators
    opts = {}
    if rng.random() < 0.4:
        if rng.random() < 0.5:
            opts["retain_matching_columns"] = rng.random() < 0.5
        if rng.random() < 0.5:
            opts["retain_intermediate_calculation_columns"] = rng.random() < 0.5
        if rng.random() < 0.4:
            opts["additional_columns_to_retain"] = ["lab"]
        if rng.random() < 0.5:
            opts["blocking_rules_to_generate_predictions"] = [bg.sql(bg.gen_rule(rng, depth=1, asym_ok=False)) for _ in range(rng.randint(1, 2))]
    case["opts"] = opts
    # an earlier call of ANOTHER estimator on the same linker (accepted or failed) must not change this one's result
    if rng.random() < 0.25:
        fam = kind[0]
        case["pre"] = rng.choice({"u": ["m_label", "prior_ok", "prior_rejected"], "m": ["u", "prior_ok", "prior_rejected"], "p": ["u", "m_label", "prior_rejected"]}[fam])
    n_adm = len(admissible_pairs(case))
    if kind == "u_full":
        # at / just above the number of admissible pairs, int and float, the documented large values, and both sides of the 1e4
        # switch to the salted cartesian join
        case["max_pairs"] = rng.choice([n_adm, n_adm, float(n_adm), n_adm + 1, 10 * n_adm + 5, 1e6, 2e4, 1e4, 10001, 1e9])
        if case["max_pairs"] == 0:
            case["max_pairs"] = 1
        case["seed"] = rng.choice([None, None, 1, 0])
    elif kind == "u_seeded":
        case["engine"] = "duckdb"
        case["max_pairs"] = max(1, n_adm // 2)
        case["seed"] = rng.choice([0, 1, 5, 42])
    elif kind == "u_sampled":
        # a sample below the number of admissible pairs and no seed (both engines): the estimate is some sample's frequency
        case["max_pairs"] = rng.choice([max(1, n_adm // 2), max(1, n_adm - 1), max(1, (2 * n_adm) // 3), 1, 3])
        case["seed"] = None
    elif kind == "m_label_col":
        case["label_col"] = rng.choice(["lab", "lab", "lab", "a", "c"])
    elif kind == "m_pairwise":
        recs = records(case)

        def gen_labels():
            labels = []
            for _ in range(rng.randint(1, 8)):
                x, y = rng.sample(recs, 2) if len(recs) >= 2 else (recs[0], recs[0])
                if link_type == "link_only" and x["source_dataset"] == y["source_dataset"]:
                    continue
                labels.append([[x["source_dataset"], x["unique_id"]], [y["source_dataset"], y["unique_id"]]])
                if rng.random() < 0.15:
                    labels.append(labels[-1])  # duplicate label row
                if rng.random() < 0.15:
                    labels.append([labels[-1][1], labels[-1][0]])  # same pair, other orientation
            return labels

        case["labels"] = gen_labels()
        if rng.random() < 0.2:
            # label rows about records that are not in the input (dropped by the join), at any position
            ghost = 99 if id_type == "int" else "ghost"
            for _ in range(rng.randint(1, 2)):
                x = rng.choice(recs)
                row = [[x["source_dataset"], x["unique_id"]], [rng.choice(aliases_of(case)), ghost]]
                case["labels"].insert(rng.randint(0, len(case["labels"])), row if rng.random() < 0.5 else row[::-1])
        # the labels table: extra columns, its own column order, handed over by name or as the SplinkDataFrame
        case["labels_extra_cols"] = rng.random() < 0.3
        case["labels_col_order"] = "given" if rng.random() < 0.6 else "shuffled"
        case["labels_as"] = rng.choice(["name", "name", "sdf"])
        if rng.random() < 0.25:
            # the documented idiom register_table(labels, name, overwrite=True), used a second time with new labels
            case["labels_first"] = gen_labels()
    elif kind == "prior":
        rules = []
        for _ in range(rng.randint(1, 3)):
            rules.append(bg.gen_rule(rng, depth=rng.choice([1, 1, 2]), asym_ok=False))
        if rng.random() < 0.2:
            rules.insert(rng.randint(0, len(rules)), rng.choice(rules))  # the same rule twice in the list
        case["rules"] = rules
        case["recall"] = rng.choice([1.0, 1, 0.9, 0.5, 0.1, 0.01, "boundary", "boundary", "below_boundary", "below_boundary", "out_of_range"])
        if case["recall"] == "out_of_range":
            case["recall_value"] = rng.choice(OUT_OF_RANGE_RECALLS)
        # how the rules are handed over: SQL strings, creator objects, dicts, or ONE bare rule instead of a list
        case["rule_form"] = rng.choice(["sql", "sql", "creator", "creator", "dict", "mixed"])
        if len(rules) == 1 and rng.random() < 0.5:
            case["rule_form"] = rng.choice(["single_sql", "single_creator"])
        # the same creator objects used for another dialect first
        case["reuse_creators"] = case["rule_form"] in ("creator", "mixed", "single_creator") and rng.random() < 0.3
        tot = sum(sizes)
        case["max_rows_limit"] = rng.choice([None, None, None, tot * tot + 1, int(1e12)])
    return case


def aliases_of(case):
    k = len(case["tables"])
    how = case.get("aliases", "sorted")
    if how == "default" and k > 1 and case.get("layout") != "concat":
        return [f"__splink__input_table_{i}" for i in range(k)]  # what Linker names tables given without input_table_aliases
    return ALIASES[:k][::-1] if how == "reversed" else ALIASES[:k]


def records(case):
    return bg.concat_records(case["tables"], aliases_of(case))


def admissible_pairs(case):
    recs = records(case)
    out = []
    for i, x in enumerate(recs):
        for y in recs[i + 1:]:
            if case["link_type"] == "link_only" and x["source_dataset"] == y["source_dataset"]:
                continue
            out.append((x, y))
    return out


def gamma_of(comp, x, y):
    nn = [l for l in comp["levels"] if l["kind"] != "null"]
    for l in comp["levels"]:
        if c02.guard_values(l, x[comp["col"]], y[comp["col"]]) == 1:
            return -1 if l["kind"] == "null" else len(nn) - 1 - nn.index(l)
    return None


def cvvs(comp):
    nn = [l for l in comp["levels"] if l["kind"] != "null"]
    return [len(nn) - 1 - nn.index(l) for l in nn]


# --------------------------------------------------------------------------- real code
def _frame(case, rows, with_sd, rng):
    from harness import impl

    uid_col, sd_col = case.get("uid_col", "unique_id"), case.get("sd_col", "source_dataset")
    with_sd = with_sd or bool(case.get("extra_sd_column"))
    types = {uid_col: case.get("id_type", "int")} | ({sd_col: "str"} if with_sd else {}) | {"a": "str", "b": "str", "c": "int", "lab": "str"}
    if case.get("col_order") == "shuffled":
        keys = list(types)
        rng.shuffle(keys)
        types = {c: types[c] for c in keys}
    out = []
    for r in rows:
        d = {c: r[c] for c in ("a", "b", "c", "lab")}
        d[uid_col] = r["unique_id"]
        if with_sd:
            d[sd_col] = r["source_dataset"] if "source_dataset" in r else ALIASES[len(out) % 3]
        out.append(d)
    return impl.typed_frame(out, types)


def build_linker(case, api):
    from splink import Linker

    comps = []
    for ci, c in enumerate(case["comparisons"]):
        lv = []
        for l in c["levels"]:
            d = {"sql_condition": c02.level_sql(c["col"], l), "label_for_charts": l["kind"] + str(l.get("k", ""))}
            if l["kind"] == "null":
                d["is_null_level"] = True
            else:
                d["m_probability"], d["u_probability"] = l["m"], l["u"]
                if l.get("fix_m"):
                    d["fix_m_probability"] = True
                if l.get("fix_u"):
                    d["fix_u_probability"] = True
            if "tf" in l:
                d["tf_adjustment_column"] = c["col"]
                d["tf_adjustment_weight"] = l["tf"]["weight"]
                d["tf_minimum_u_value"] = l["tf"]["minU"]
                if l["tf"].get("disable_detection"):
                    d["disable_tf_exact_match_detection"] = True
            lv.append(d)
        comps.append({"output_column_name": f"{c['col']}{ci}", "comparison_levels": lv})
    settings = {"link_type": case["link_type"], "comparisons": comps, "blocking_rules_to_generate_predictions": [],
                "probability_two_random_records_match": case["prior"]}
    settings.update(case.get("opts") or {})
    if case.get("uid_col", "unique_id") != "unique_id":
        settings["unique_id_column_name"] = case["uid_col"]
    if case.get("sd_col", "source_dataset") != "source_dataset":
        settings["source_dataset_column_name"] = case["sd_col"]
    rng = random.Random(case.get("shuffle", 0))
    frames = []
    for rows in case["tables"]:
        rows = list(rows)
        rng.shuffle(rows)
        frames.append(_frame(case, rows, False, rng))
    k = len(frames)
    if k == 1:
        return Linker(frames[0], settings, api)
    if case.get("layout") == "concat":
        rows = [dict(r, source_dataset=al) for al, t in zip(aliases_of(case), case["tables"]) for r in t]
        rng.shuffle(rows)
        return Linker(_frame(case, rows, True, rng), settings, api)
    if case.get("aliases") == "default":
        return Linker(frames, settings, api)
    return Linker(frames, settings, api, input_table_aliases=aliases_of(case))


def run_pre(case, linker):
    """An earlier estimator call on the same linker (sequence family); a rejected call is swallowed like a user would."""
    pre = case.get("pre")
    if pre == "u":
        linker.training.estimate_u_using_random_sampling(max_pairs=1e5)
    elif pre == "m_label":
        linker.training.estimate_m_from_label_column("lab")
    elif pre == "prior_ok":
        linker.training.estimate_probability_two_random_records_match(["l.a = r.a"], recall=1.0)
    elif pre == "prior_rejected":
        try:
            linker.training.estimate_probability_two_random_records_match([ALL_PAIRS_RULE], recall=0.5)
        except ValueError as e:
            if "recall" not in str(e):
                raise
    elif pre is not None:
        raise ValueError(pre)


def prepared_linker(case, api):
    linker = build_linker(case, api)
    run_pre(case, linker)
    return linker


def dump_levels(linker, which):
    out = {}
    for cc in linker._settings_obj.comparisons:
        lv = []
        for cl in cc.comparison_levels:
            if cl.is_null_level:
                continue
            trained = cl._trained_u_probabilities if which == "u" else cl._trained_m_probabilities
            lv.append({"cvv": cl.comparison_vector_value, "value": cl.u_probability if which == "u" else cl.m_probability,
                       "trained": [t["probability"] for t in trained]})
        out[cc.output_column_name] = lv
    return out


def creator_of(rule):
    """The rule as a user of the blocking rule library would build it (block_on / And / Or / Not, CustomRule otherwise)."""
    from splink import block_on
    from splink.internals.blocking_rule_library import And, CustomRule, Not, Or

    def expr(x):
        if x[0] == "eq" and x[1] == x[2]:
            return x[1]
        if x[0] == "sub":
            return f"substr({x[1]}, 1, 1)"
        return None

    k = rule[0]
    if expr(rule) is not None:
        return block_on(expr(rule))
    if k == "and" and expr(rule[1]) is not None and expr(rule[2]) is not None and expr(rule[1]) != expr(rule[2]):
        return block_on(expr(rule[1]), expr(rule[2]))
    if k == "and":
        return And(creator_of(rule[1]), creator_of(rule[2]))
    if k == "or":
        return Or(creator_of(rule[1]), creator_of(rule[2]))
    if k == "not":
        return Not(creator_of(rule[1]))
    return CustomRule(bg.sql(rule))


def rules_arg(case):
    form = case.get("rule_form", "sql")
    out = []
    for i, r in enumerate(case["rules"]):
        f = form if form != "mixed" else ["sql", "creator", "dict"][i % 3]
        if f in ("sql", "single_sql"):
            out.append(bg.sql(r) if i % 2 == 0 else bg.sql_top(r))
        elif f in ("creator", "single_creator"):
            out.append(creator_of(r))
        else:
            out.append({"blocking_rule": bg.sql(r)})
    return out[0] if form.startswith("single") else out


def recall_of(case):
    rc = case["recall"]
    if rc == "boundary":
        return boundary_recall(case)
    if rc == "below_boundary":
        b = boundary_recall(case)
        return b * (1 - 1e-6) if matched_pairs(case) else b
    if rc == "out_of_range":
        return case["recall_value"]
    return rc


def label_rows(case, labels):
    multi = len(case["tables"]) > 1
    uid_col, sd_col = case.get("uid_col", "unique_id"), case.get("sd_col", "source_dataset")
    rows = []
    for i, ((sl, ul), (sr, ur)) in enumerate(labels):
        d = {f"{uid_col}_l": ul, f"{uid_col}_r": ur}
        if multi:
            d[f"{sd_col}_l"], d[f"{sd_col}_r"] = sl, sr
        if case.get("labels_extra_cols"):
            d["clerical_match_score"], d["note"] = [1.0, 0.9, 0.2][i % 3], f"n{i}"
        rows.append(d)
    idt = case.get("id_type", "int")
    types = ({f"{sd_col}_l": "str", f"{sd_col}_r": "str"} if multi else {}) | {f"{uid_col}_l": idt, f"{uid_col}_r": idt}
    if case.get("labels_extra_cols"):
        types |= {"clerical_match_score": "float", "note": "str"}
    if case.get("labels_col_order") == "shuffled":
        keys = list(types)
        random.Random(case.get("shuffle", 0) + 1).shuffle(keys)
        types = {c: types[c] for c in keys}
    from harness import impl

    return impl.typed_frame(rows, types)


def run_impl(case: dict) -> dict:
    from harness import impl

    api = impl.make_api(case["engine"], threads=2)
    linker = prepared_linker(case, api)
    kind = case["kind"]
    if kind in ("u_full", "u_seeded", "u_sampled"):
        linker.training.estimate_u_using_random_sampling(max_pairs=case["max_pairs"], seed=case["seed"])
        out = {"levels": dump_levels(linker, "u")}
        if kind == "u_seeded":
            # reproducibility is a statement about every re-run: repeat a few times (a scheduling-dependent row order shows up in
            # a fraction of the runs only), with different thread counts, and keep the first run that differs
            for threads in (2, 4, 1, 3):
                api2 = impl.make_api(case["engine"], threads=threads)
                l2 = prepared_linker(case, api2)
                l2.training.estimate_u_using_random_sampling(max_pairs=case["max_pairs"], seed=case["seed"])
                out["levels_second_run"] = dump_levels(l2, "u")
                if out["levels_second_run"] != out["levels"]:
                    break
        return out
    if kind == "m_label_col":
        linker.training.estimate_m_from_label_column(case.get("label_col", "lab"))
        return {"levels": dump_levels(linker, "m")}
    if kind == "m_pairwise":
        for labels in ([case["labels_first"]] if "labels_first" in case else []) + [case["labels"]]:
            sdf = linker.table_management.register_table(label_rows(case, labels), "labels_tbl", overwrite=True)
            linker.training.estimate_m_from_pairwise_labels(sdf if case.get("labels_as") == "sdf" else "labels_tbl")
        return {"levels": dump_levels(linker, "m")}
    if kind == "prior":
        recall = recall_of(case)
        if case.get("reuse_creators"):
            # the very same rule objects serve a linker of the other dialect first
            rules = rules_arg(case)
            other = prepared_linker(dict(case, pre=None), impl.make_api("sqlite" if case["engine"] == "duckdb" else "duckdb", threads=2))
            other.training.estimate_probability_two_random_records_match(rules, recall=1.0)
        else:
            rules = rules_arg(case)
        kw = {} if case.get("max_rows_limit") is None else {"max_rows_limit": case["max_rows_limit"]}
        try:
            linker.training.estimate_probability_two_random_records_match(rules, recall=recall, **kw)
        except ValueError as e:
            if "recall" in str(e):
                return {"rejected": True, "prior_after": linker._settings_obj._probability_two_random_records_match, "recall": recall}
            raise
        return {"rejected": False, "prior": linker._settings_obj._probability_two_random_records_match, "recall": recall}
    raise ValueError(kind)


run_impl_safe = core.safe(run_impl)


def matched_pairs(case):
    out = 0
    for x, y in admissible_pairs(case):
        if any(bg.ev(r, x, y) is True for r in case["rules"]):
            out += 1
    return out


def cartesian(case):
    sizes = [len(t) for t in case["tables"]]
    tot = sum(sizes)
    if case["link_type"] == "link_only":
        return (tot * tot - sum(s * s for s in sizes)) / 2
    return tot * (tot - 1) / 2


def boundary_recall(case):
    """The smallest admissible recall: observed / cartesian (must be accepted); a hair below (recall "below_boundary") must be rejected."""
    obs, cart = matched_pairs(case), cartesian(case)
    if obs == 0 or cart == 0:
        return 1.0
    return obs / cart


# --------------------------------------------------------------------------- expected
def training_pairs(case):
    kind = case["kind"]
    if kind in ("u_full", "u_seeded", "u_sampled"):
        return admissible_pairs(case)
    if kind == "m_label_col":
        lc = case.get("label_col", "lab")
        return [(x, y) for x, y in admissible_pairs(case) if x[lc] is not None and x[lc] == y[lc]]
    if kind == "m_pairwise":
        return labelled_pairs(case, case["labels"])
    return []


def labelled_pairs(case, labels):
    """The record pairs of the label rows, one per row; rows naming a record that is not in the input join to nothing."""
    idx = {(r["source_dataset"], r["unique_id"]): r for r in records(case)}
    return [(idx[tuple(a)], idx[tuple(b)]) for a, b in labels if tuple(a) in idx and tuple(b) in idx]


def expected_freqs(case, pairs=None):
    pairs = training_pairs(case) if pairs is None else pairs
    out = {}
    for ci, c in enumerate(case["comparisons"]):
        gs = []
        for x, y in pairs:
            g = gamma_of(c, x, y)
            g2 = gamma_of(c, y, x)
            assert g == g2, "level conditions used here are symmetric"
            gs.append(g)
        nonnull = sum(1 for g in gs if g is not None and g != -1)
        out[f"{c['col']}{ci}"] = {v: ((sum(1 for g in gs if g == v) / nonnull) if any(g == v for g in gs) else None) for v in cvvs(c)}
    return out


def full_sample(case):
    n = len(admissible_pairs(case))
    return case["kind"] == "u_full" and case["max_pairs"] >= n and n > 0


def verdict(case, r):
    v = verdict0(case, r)
    if v is not None and "labels_first" in case:
        stale = verdict0({k: x for k, x in dict(case, labels=case["labels_first"]).items() if k != "labels_first"},
                         {"levels": {n: [dict(lv, trained=lv["trained"][-1:]) for lv in lvs] for n, lvs in r["levels"].items()}})
        why = " (it is the estimate of the labels registered FIRST under that name)" if stale is None or "after estimation" in stale else ""
        return "after register_table(new labels, same name, overwrite=True) the second estimate_m_from_pairwise_labels is not that of the new labels" + why + ": " + v
    return v


def verdict0(case, r):
    kind = case["kind"]
    if kind == "prior":
        obs, cart = matched_pairs(case), cartesian(case)
        recall = r["recall"]
        if not (0 < recall <= 1):
            if not r["rejected"]:
                return f"recall {recall} accepted although it is outside (0, 1]; prior set to {r['prior']}"
            if not core.close(r["prior_after"], case["prior"], 1e-12):
                return f"rejected call changed the prior from {case['prior']} to {r['prior_after']}"
            return None
        inconsistent = obs > cart * recall
        near = abs(obs - cart * recall) <= 1e-9 * max(1.0, obs)
        if r["rejected"]:
            if not inconsistent and not near:
                return f"recall {recall} rejected although {obs} matched pairs <= {cart} admissible pairs x recall"
            if not core.close(r["prior_after"], case["prior"], 1e-12):
                return f"rejected call changed the prior from {case['prior']} to {r['prior_after']}"
            return None
        if inconsistent and not near:
            return f"recall {recall} accepted although {obs} matched pairs > {cart} admissible pairs x recall = {cart * recall}"
        want = obs / recall / cart if cart else None
        if want is not None and not core.close(r["prior"], want, 1e-9):
            return f"prior {r['prior']} but (distinct pairs matched by any rule = {obs}) / (recall {recall} x admissible pairs {cart}) = {want}"
        return None
    which = "u" if kind.startswith("u") else "m"
    if kind == "u_seeded":
        if r["levels"] != r["levels_second_run"]:
            return f"seed {case['seed']}: two runs on identical inputs gave different u estimates"
        return sample_verdict(case, r["levels"]) or sample_verdict(case, r["levels_second_run"])
    if kind == "u_sampled" or (kind == "u_full" and not full_sample(case)):
        return sample_verdict(case, r["levels"])
    exp = expected_freqs(case)
    pairs = training_pairs(case)
    first = expected_freqs(case, labelled_pairs(case, case["labels_first"])) if "labels_first" in case else None
    for ci, c in enumerate(case["comparisons"]):
        name = f"{c['col']}{ci}"
        nn = [l for l in c["levels"] if l["kind"] != "null"]
        for lv, l in zip(r["levels"][name], nn):
            want = exp[name][lv["cvv"]]
            fixed = l.get("fix_" + which)
            last = lv["trained"][-1] if lv["trained"] else None
            if kind == "m_pairwise" and fixed:
                if lv["trained"]:
                    return f"{which} of {name} level {lv['cvv']} is fixed but received an estimate"
                continue
            if not pairs:
                continue
            if want is None:
                if last != NOT_OBS:
                    return f"{name} level {lv['cvv']} never observed among {len(pairs)} training pairs but received the estimate {last}"
                if first is not None and first[name][lv["cvv"]] is not None and not fixed:
                    if not core.close(lv["value"], first[name][lv["cvv"]], 1e-9):
                        return f"model {which} of {name} level {lv['cvv']} is {lv['value']} after estimation, expected the only estimate it received, {first[name][lv['cvv']]}"
                elif not core.close(lv["value"], l[which], 1e-12):
                    return f"{name} level {lv['cvv']} never observed, yet its {which} moved from {l[which]} to {lv['value']}"
                continue
            if last == NOT_OBS or last is None or not core.close(last, want, 1e-9):
                return f"{which} estimate of {name} level {lv['cvv']} is {last}, the exact fraction of training pairs in that level is {want}"
            if fixed:
                if not core.close(lv["value"], l[which], 1e-12):
                    return f"{which} of {name} level {lv['cvv']} is fixed but moved from {l[which]} to {lv['value']}"
            elif first is not None and first[name][lv["cvv"]] is not None and labelled_pairs(case, case["labels_first"]):
                # two estimates of the same parameter: the model takes their median (of two numbers: the mean)
                if not core.close(lv["value"], (want + first[name][lv["cvv"]]) / 2, 1e-9):
                    return f"model {which} of {name} level {lv['cvv']} is {lv['value']} after estimation, expected the median of {first[name][lv['cvv']]} and {want}"
            elif not core.close(lv["value"], want, 1e-9):
                return f"model {which} of {name} level {lv['cvv']} is {lv['value']} after estimation, expected {want}"
    return None


def sample_verdict(case, levels):
    """What every sampled estimate satisfies whatever the sample was: it is the level frequency of SOME set of admissible pairs, so
    a level that no admissible pair falls into receives no estimate, the estimates are fractions in (0, 1], and those of one
    comparison add up to 1."""
    exp = expected_freqs(case, admissible_pairs(case))
    for ci, c in enumerate(case["comparisons"]):
        name = f"{c['col']}{ci}"
        nums = []
        for lv in levels[name]:
            last = lv["trained"][-1] if lv["trained"] else None
            if last is None or last == NOT_OBS:
                continue
            if exp[name][lv["cvv"]] is None:
                return f"{name} level {lv['cvv']} never observed among all {len(admissible_pairs(case))} admissible pairs but a sample of them gave the estimate {last}"
            if not (0 < last <= 1):
                return f"sampled u estimate of {name} level {lv['cvv']} is {last}, not a fraction in (0, 1]"
            nums.append(last)
        if nums and not core.close(sum(nums), 1.0, 1e-9):
            return f"sampled u estimates of {name} add up to {sum(nums)}, not 1"
    return None


# --------------------------------------------------------------------------- model
def model_request(case):
    kind = case["kind"]
    req = {"op": "estim", "gammas": [], "levels": [], "sample": None, "prior": None}
    if kind == "prior":
        recall = recall_of(case)
        req["prior"] = {"observed": core.f2b(float(matched_pairs(case))), "cartesian": core.f2b(float(cartesian(case))), "recall": core.f2b(float(recall))}
        return req
    pairs = training_pairs(case)
    for c in case["comparisons"]:
        req["gammas"].append([gamma_of(c, x, y) for x, y in pairs])
        req["levels"].append(cvvs(c))
    if kind.startswith("u"):
        sizes = [len(t) for t in case["tables"]]
        if case["link_type"] == "link_only":
            req["sample"] = {"kind": "link_only", "maxPairs": core.f2b(float(case["max_pairs"])), "counts": [core.f2b(float(s)) for s in sizes], "total": core.f2b(float(sum(sizes)))}
        else:
            req["sample"] = {"kind": "dedupe", "maxPairs": core.f2b(float(case["max_pairs"])), "total": core.f2b(float(sum(sizes)))}
    return req


def compare(ctx, cases, drv):
    reqs = [model_request(c) for c in cases]
    res = core.pmap(run_impl_safe, cases, chunksize=2)
    mres = drv.pbatch(reqs)
    problems = []
    for c, req, r, m in zip(cases, reqs, res, mres):
        n_adm = len(admissible_pairs(c))
        ctx.case({k: c[k] for k in c if k not in ("shuffle", "tag")}, len(training_pairs(c)) >= 2 or c["kind"] == "prior",
                 sample={"case": {k: c[k] for k in c if k not in ("shuffle",)}, "impl": r if isinstance(r, dict) else None} if sum(len(t) for t in c["tables"]) <= 4 else None)
        ctx.count("kind", c["kind"]); ctx.count("engine", c["engine"]); ctx.count("link_type", c["link_type"]); ctx.count("n_tables", len(c["tables"])); ctx.count("ids", c.get("ids", "global")); ctx.count("layout", c.get("layout", "tables"))
        count_families(ctx, c, n_adm)
        if core.impl_error(r):
            ctx.count("impl_error", r["__error__"])
            problems.append((c, f"real code raised {r['__error__']}: {r['text'][:300]}", True))
            continue
        if "error" in m:
            raise core.HarnessError("model driver error: " + m["error"])
        v = verdict(c, r)
        if v is not None:
            problems.append((c, v, True))
            continue
        bad = None
        if c["kind"] == "prior" and not (0 < r["recall"] <= 1):
            pass  # the range check of the argument is outside the model (decided by the oracle alone)
        elif c["kind"] == "prior":
            near = abs(matched_pairs(c) - cartesian(c) * r["recall"]) <= 1e-9 * max(1.0, matched_pairs(c))
            if not near and bool(m["prior"].get("rejected")) != r["rejected"]:
                bad = f"recall guard: impl rejected={r['rejected']} model rejected={bool(m['prior'].get('rejected'))}"
            elif not r["rejected"] and "value" in m["prior"] and not core.close(core.b2f(m["prior"]["value"]), r["prior"], 1e-12):
                bad = f"prior impl {r['prior']} model {core.b2f(m['prior']['value'])}"
        elif c["kind"] in ("u_seeded", "u_sampled"):
            pass
        elif c["kind"] != "u_full" or full_sample(c):
            if c["kind"] == "u_full" and m["sample"] is not None and core.b2f(m["sample"][0]) != 1.0:
                bad = f"model sampling proportion {core.b2f(m['sample'][0])} != 1 although max_pairs {c['max_pairs']} >= {n_adm} admissible pairs"
            for ci, cc in enumerate(c["comparisons"]):
                name = f"{cc['col']}{ci}"
                for lv, fr in zip(r["levels"][name], m["freqs"][ci]):
                    last = lv["trained"][-1] if lv["trained"] else None
                    if not training_pairs(c):
                        continue
                    nn = [l for l in cc["levels"] if l["kind"] != "null"]
                    if c["kind"] == "m_pairwise" and nn[[x["cvv"] for x in r["levels"][name]].index(lv["cvv"])].get("fix_m"):
                        continue
                    if fr is None:
                        if last != NOT_OBS:
                            bad = f"{name} level {lv['cvv']}: model gives no estimate, impl {last}"
                    elif last == NOT_OBS or last is None or not core.close(last, fr[0] / fr[1], 1e-12):
                        bad = f"{name} level {lv['cvv']}: impl {last} model {fr[0]}/{fr[1]}"
        if bad:
            problems.append((c, "estimates differ from Lean model Estimators: " + bad, False))
            continue
        ctx.traces_validated += 1
    return problems


def count_families(ctx, c, n_adm):
    kind = c["kind"]
    ctx.count("id_type", c.get("id_type", "int"))
    ctx.count("id_column_names", f"{c.get('uid_col', 'unique_id')}/{c.get('sd_col', 'source_dataset')}")
    ctx.count("frame_column_order", c.get("col_order", "given"))
    ctx.count("input_table_aliases", c.get("aliases", "sorted") if len(c["tables"]) > 1 and c.get("layout") != "concat" else "n/a")
    ctx.count("dedupe_frame_with_source_dataset_column", bool(c.get("extra_sd_column")))
    sizes = [len(t) for t in c["tables"]]
    ctx.count("has_empty_table", 0 in sizes); ctx.count("has_one_row_table", 1 in sizes)
    recs = records(c)
    ctx.count("has_empty_string_value", any(r[x] == "" for r in recs for x in ("a", "b", "lab")))
    ctx.count("has_all_null_column", any(all(r[x] is None for r in recs) for x in {cc["col"] for cc in c["comparisons"]}))
    opts = c.get("opts") or {}
    ctx.count("settings_options", "+".join(sorted(opts)) if opts else "defaults")
    ctx.count("earlier_call_on_same_linker", c.get("pre"))
    if kind.startswith("u"):
        ctx.count("sample_covers_all_pairs", full_sample(c) if kind == "u_full" else False); ctx.count("seed", c["seed"])
        mp = c["max_pairs"]
        cls = "= #pairs" if mp == n_adm else "#pairs + 1" if mp == n_adm + 1 else "< #pairs" if mp < n_adm else "= 1e4" if mp == 1e4 else "> 1e4 (salted join)" if mp > 1e4 else "> #pairs"
        ctx.count("max_pairs", cls + (" (float)" if isinstance(mp, float) and mp == n_adm else ""))
    if kind == "m_label_col":
        ctx.count("label_column", c.get("label_col", "lab"))
    if kind == "m_pairwise":
        ctx.count("labels_table_reregistered", "labels_first" in c)
        ctx.count("labels_extra_columns", bool(c.get("labels_extra_cols"))); ctx.count("labels_column_order", c.get("labels_col_order", "given"))
        ctx.count("labels_passed_as", c.get("labels_as", "name"))
        ctx.count("labels_rows_without_record", len(c["labels"]) - len(labelled_pairs(c, c["labels"])) > 0)
    if kind == "prior":
        ctx.count("recall", c["recall"] if c["recall"] != "out_of_range" else f"out of range: {c['recall_value']!r}")
        ctx.count("rule_form", c.get("rule_form", "sql")); ctx.count("creators_reused_across_dialects", bool(c.get("reuse_creators")))
        ctx.count("same_rule_twice", len({json.dumps(x) for x in c["rules"]}) < len(c["rules"]))
        ctx.count("max_rows_limit", "default" if c.get("max_rows_limit") is None else "given")
        ctx.count("rule_depth", max(_depth(x) for x in c["rules"]))


def _depth(rule):
    return 0 if rule[0] not in ("and", "or", "not") else 1 + max(_depth(x) for x in rule[1:])


def translation_validation(ctx, drv):
    from splink.internals.estimate_u import _proportion_sample_size_link_only, _rows_needed_for_n_pairs

    rng = random.Random(ctx.seed + 11)
    reqs, want = [], []
    for _ in range(200):
        p = rng.choice([0, 1, 3, 10, 1e4, 1e6, rng.uniform(0, 1e5)])
        reqs.append({"op": "arith", "fn": "_rows_needed_for_n_pairs", "args": [core.f2b(float(p))]})
        want.append(("_rows_needed_for_n_pairs", p, [_rows_needed_for_n_pairs(p)]))
        counts = [rng.randint(1, 50) for _ in range(rng.choice([2, 3, 4]))]
        mp = rng.choice([1, 10, 1e3, 1e6])
        reqs.append({"op": "arith", "fn": "_proportion_sample_size_link_only", "args": [[core.f2b(float(c)) for c in counts], core.f2b(float(mp))]})
        want.append(("_proportion_sample_size_link_only", (counts, mp), list(_proportion_sample_size_link_only(counts, mp))))
    bad = []
    for (fn, args, w), m in zip(want, drv.batch(reqs)):
        got = m.get("value")
        got = [core.b2f(got)] if not isinstance(got, list) else [core.b2f(x) for x in got]
        if m.get("raised") or any(not core.close(a, b, 1e-15) for a, b in zip(got, w)):
            bad.append((fn, args, w, got))
    ctx.extra_cov["translation_validation"] = {"functions": ["_rows_needed_for_n_pairs", "_proportion_sample_size_link_only"], "inputs": len(reqs), "disagreements": len(bad)}
    return bad


def impl_fails(case):
    r = run_impl_safe(case)
    return "__error__" in r or verdict(case, r) is not None


def shrink(case):
    cur = json.loads(json.dumps(case))
    budget = 30
    changed = True
    while changed and budget > 0:
        changed = False
        for k in range(len(cur["comparisons"]) - 1, -1, -1):
            if budget <= 0 or len(cur["comparisons"]) <= 1:
                break
            cand = json.loads(json.dumps(cur))
            del cand["comparisons"][k]
            budget -= 1
            if impl_fails(cand):
                cur, changed = cand, True
        if cur["kind"] in ("m_pairwise",):
            continue
        for ti in range(len(cur["tables"])):
            for ri in range(len(cur["tables"][ti]) - 1, -1, -1):
                if budget <= 0 or len(cur["tables"][ti]) <= 1:
                    break
                cand = json.loads(json.dumps(cur))
                del cand["tables"][ti][ri]
                budget -= 1
                if impl_fails(cand):
                    cur, changed = cand, True
    return cur


def classify(what, case=None):
    if case is not None and "real code raised" in what and case.get("sd_col", "source_dataset") != "source_dataset":
        how = "one pre-concatenated frame" if case.get("layout") == "concat" else "several input frames"
        return f"real code raised with settings source_dataset_column_name ({how})"
    for pat, cls in [("after register_table(new labels", "estimate after re-registering the labels table is not that of the new labels"),
                     ("a sample of them gave", "sampled estimate impossible for any sample"), ("not a fraction in", "sampled estimate impossible for any sample"),
                     ("add up to", "sampled estimate impossible for any sample"), ("outside (0, 1]", "out-of-range recall accepted"),
                     ("two runs on identical inputs", "seeded estimate not reproducible"), ("never observed", "unobserved level handling"), ("is fixed but", "fixed parameter moved"),
                     ("exact fraction", "estimate differs from exact pair frequency"), ("after estimation", "model value differs from estimate"),
                     ("rejected although", "consistent recall rejected"), ("accepted although", "inconsistent recall accepted"), ("prior ", "prior differs from formula"),
                     ("rejected call changed", "rejected call changed the model"), ("real code raised", "real code raised")]:
        if pat in what:
            return cls
    return what[:60]


def run(ctx: core.Ctx):
    from harness.translate import tarith

    ctx.rule = (
        "cases = 1-3 tables x 1-7 records (NULL rate 0-40%, 10%: one column (nearly) all NULL; 15%: '' among the values; label column with NULLs, singleton and '' labels; "
        "8%: an empty table), integer or string ids (global / restarting per table), several frames (aliases sorted / reversed / left to Splink) or ONE pre-concatenated frame, "
        "frame columns in given or shuffled order, non-default unique_id / source_dataset column names, dedupe frame carrying a source_dataset column, all link types, "
        "1-3 comparisons (exact/levenshtein/numeric, with and without null level, level fix flags 8%), 40%: settings that must not matter (retain_*, additional_columns_to_retain, "
        "prediction blocking rules), 25%: an earlier accepted/rejected call of another estimator on the same linker; one estimator per case: estimate_u with max_pairs >= #admissible "
        "pairs (exactness; = #pairs int/float, +1, 1e4, 10001, 2e4, 1e6, 1e9 incl. the salted path), estimate_u with a small sample and a seed run repeatedly (reproducibility; seeds "
        "incl. 0) or without a seed on both engines (estimate must be the frequency of SOME sample), estimate_m_from_label_column (label column lab / a / c), "
        "estimate_m_from_pairwise_labels (either orientation, duplicate rows, rows about absent records, extra columns, shuffled columns, table name or SplinkDataFrame, 25%: labels "
        "re-registered under the same name and estimated again), estimate_probability_two_random_records_match (1-4 overlapping rules of depth <= 2 incl. the same rule twice, as SQL / "
        "creators / dicts / one bare rule, creators reused across dialects, max_rows_limit given, recall in {1.0, 1, .9,.5,.1,.01, exactly observed/cartesian, a hair below it, out of "
        "(0,1]: 0, -0.0, <0, >1}); duckdb+sqlite. "
        "+ 400 translation-validation inputs for the generated sampling arithmetic. non-trivial = >= 2 training pairs (or a prior case); distinct = hash of the case."
    )
    ctx.assumptions = [
        "level conditions used are symmetric in l/r and evaluated by the harness; unique ids distinct",
        "sampled (max_pairs < total) estimates are only required to be reproducible under a seed, not exact",
    ]
    errs = tarith.write({"_rows_needed_for_n_pairs", "_proportion_sample_size_link_only"})
    from harness.translate import tsql

    sql_errs = tsql.run_isolated("em")  # Generated/EMSql.lean: the counts / proportions SQL the estimators share with EM, as Rel terms (T-sql)
    ctx.lean = core.lean_check(PROP, ctx.thorough)
    if errs or sql_errs:
        ctx.lean.ok = False
        ctx.lean.problems += ["T-arith: " + e for e in errs] + ["T-sql: " + e for e in sql_errs]
    drv = core.Driver()
    tv_bad = translation_validation(ctx, drv)
    if ctx.replay:
        cases = [json.loads(open(ctx.replay).read())["replay"]["case"]]
    else:
        from harness import graphs

        cases = graphs.load_corpus(PROP) + [gen_case(ctx.rng) for _ in range(ctx.budget(160, 2500))]
    problems = compare(ctx, cases, drv)
    if (not ctx.lean.ok or tv_bad or any(not conc for _, _, conc in problems)) and not ctx.replay:
        ctx.notes.append("proof, translation or correspondence broke: ran the widened failing-input search")
        rng2 = random.Random(ctx.seed + 7919)
        problems += compare(ctx, [gen_case(rng2) for _ in range(1000)], drv)
    concrete = [(c, w) for c, w, conc in problems if conc]
    broken = [(c, w) for c, w, conc in problems if not conc]
    reported = set()
    for c, w in concrete:
        cls = classify(w, c)
        if cls in reported or len(reported) >= 4:
            continue
        reported.add(cls)
        small = shrink(c) if not c.get("tag", "").startswith("corpus") else c
        rr = run_impl_safe(small)
        what = (verdict(small, rr) if "__error__" not in rr else f"real code raised {rr['__error__']}: {rr['text'][:300]}") or w
        ctx.violation("real output violates C04: " + classify(what, small), {"case": small, "observed": rr, "detail": what}, kind="concrete",
                      match_info={"failure": classify(what, small), "kind": small["kind"], "seed": small.get("seed")})
    if not ctx.violations:  # no NEW concrete violation (none at all, or only ones a registered known finding describes)
        if broken:
            c, w = broken[0]
            ctx.violation("correspondence Estimators model <-> estimators no longer checks",
                          {"correspondence": "harness/props/c04.py compare(): " + w, "case": c, "disagreeing_cases": len(broken), "searched_cases": ctx.evaluations, "lean": ctx.lean.as_dict()}, kind="unproved")
        elif tv_bad:
            ctx.violation("translation validation of Generated/Arith.lean (sampling arithmetic) no longer checks",
                          {"correspondence": "generated Lean definitions vs estimate_u helpers", "disagreements": [str(x) for x in tv_bad[:5]], "searched_cases": ctx.evaluations}, kind="unproved")
        elif not ctx.lean.ok:
            ctx.violation("Lean obligations for C04 no longer check",
                          {"theorems": ctx.lean.as_dict()["undischarged"], "problems": ctx.lean.problems, "build_log_tail": ctx.lean.build_log[-1500:], "searched_cases": ctx.evaluations}, kind="unproved")
