"""C13 — results are invariant under re-presentation of the same problem.

Lean: Properties/C13.lean proves, about the models that C01/C03/C05 tie to the real code, that blocking is
equivariant under row permutation, invariant under rule reordering (pair set), salting, order-preserving id
relabelling (identical rows) and arbitrary id relabelling (unordered pairs, symmetric rules), that two tables ==
one table with a source column, that the EM step is invariant under row permutation (over the reals) and that
cluster partitions are invariant under node relabelling.  Column names, materialise_* flags, debug mode and the
thread count do not occur in any model (design fact `names_irrelevant`): for those the check is the
correspondence alone.
Tie / oracle: for every base scenario the REAL pipeline (predict with every retained column, clustering at a
threshold, estimate_u on the full sample + one EM session) is run once in canonical form and once per
re-presentation; the re-presented output is mapped back to canonical names/ids and compared with the base
output (the oracle IS the invariance: real output vs real output).  The compiled Lean model (`block`, `score`)
is run on the base and on the transported inputs as well: model(base) == model(presented) must hold by the
theorems (a mismatch is a harness error), and model == real on every run is the correspondence.
"""
from __future__ import annotations

import json
import math
import random

from harness import blockgen as bg
from harness import core
from harness.props import c02, c03

PROP = "C13"
ALIASES = ["ta", "tb"]
CANON = {"a": "a", "b": "b", "c": "c", "uid": "unique_id"}
NAMESETS = {
    "lower": {"a": "a", "b": "b", "c": "c"},
    "mixed": {"a": "Surname", "b": "FirstName", "c": "Age"},          # F4: case-sensitive name comparison
    "upper": {"a": "SURNAME", "b": "FIRST_NAME", "c": "AGE"},
    "space": {"a": "sur name", "b": "first name", "c": "age yrs"},      # F1: names that need quoting
    "keyword": {"a": "date", "b": "type", "c": "order"},               # SQL keywords (reserved one on the column without TF adjustment)
    "reserved": {"a": "group", "b": "order", "c": "select"},           # reserved words everywhere: defects D2/D3 (excluded, corpus cases)
    "mixture": {"a": "Surname", "b": "first name", "c": "order"},
}
UIDNAMES = ["unique_id", "Id", "record id"]
NOT_OBS = c03.NOT_OBS
EM_ITER = 4


# --------------------------------------------------------------------------- scenario generation
def gen_rule_sym(rng):
    return bg.gen_rule(rng, depth=rng.choice([0, 1, 1, 2]), asym_ok=False, arr=False)


def gen_scenario(rng: random.Random, engine=None):
    engine = engine or rng.choice(["duckdb", "duckdb", "duckdb", "sqlite"])
    k = rng.choice([1, 2, 2])
    link_type = "dedupe_only" if k == 1 else rng.choice(["link_only", "link_and_dedupe"])
    null_rate = rng.choice([0.0, 0.1, 0.25])
    tables = []
    for _ in range(k):
        n = rng.randint(4, 9) if k == 1 else rng.randint(2, 6)
        ids = rng.sample(range(1, 14), n)  # overlapping across tables; 9 vs 10: string order differs from int order
        tables.append([{"uid": u,
                        "a": None if rng.random() < null_rate else rng.choice(c02.STR_DOM[:5]),
                        "b": None if rng.random() < null_rate else rng.choice(c02.STR_DOM[:4]),
                        "c": None if rng.random() < null_rate else rng.choice(c02.INT_DOM)} for u in ids])
    rules = [gen_rule_sym(rng) for _ in range(rng.choice([0, 1, 2, 2, 3]))]
    cols = rng.sample(["a", "b", "c"], rng.randint(2, 3))
    comps = []
    for c in cols:
        cc = c02.gen_comparison(rng, c, engine)
        for l in cc["levels"]:
            if l.get("u") == 0.0:
                l["u"] = 0.05  # infinite Bayes factors are C02's business
        comps.append(cc)
    em_col = rng.choice([c for c in ["a", "b", "c"]])
    return {"engine": engine, "link_type": link_type, "tables": tables, "rules": rules, "comparisons": comps,
            "prior": rng.choice([0.01, 0.1, 0.3, round(rng.uniform(0.01, 0.6), 3)]), "em_col": em_col, "tag": "random"}


BASE_PRES = {"names": "lower", "uidname": "unique_id", "outnames": "canonical"}


def pres_kinds(scn):
    duck = scn["engine"] == "duckdb"
    two = len(scn["tables"]) == 2
    kinds = ["row_perm", "names:mixed", "names:upper", "names:space", "names:keyword", "names:reserved", "names:mixture", "uidname:Id", "uidname:record id",
             "outnames", "ids:monotone", "ids:bijection", "ids:retype", "ids:bijection+retype",
             "flags:blocked", "flags:both", "debug"]
    kinds.append("flags:tf" if duck else "flags:tf@nonduck")
    if two:
        kinds += ["table_order", "source_column", "col_order"]
    if len(scn["rules"]) >= 2:
        kinds += ["rule_order"]
    if duck:
        kinds += ["threads:1", "threads:4", "threads:16"]
        if scn["rules"]:
            kinds += ["salting", "salting"]  # twice: salts are random
    return kinds


# Re-presentations excluded from the generator because of a confirmed defect of the real code (each keeps one
# corpus case under corpus/C13/):
#  D1 predict(materialise_after_computing_term_frequencies=False) with the default materialise_blocked_pairs=True raises
#     UnboundLocalError on every backend but DuckDB (corpus D1_*.json)
#  D2 a TF-adjusted column whose name sqlglot treats as reserved in the dialect (`order`, `select`, ...): the TF table is
#     named __splink__df_tf_"order" -> parser error (corpus D2_*.json)
#  D3 a column named `group` or `index`: InputColumn.input_name is '"group"' but the training rule's columns are parsed
#     as 'group', so the EM session does not deactivate the comparison on the blocked column (corpus D3_*.json)
EXCLUDED_KINDS: set[str] = set()  # D1-D3 repaired (F25-F27): nothing excluded


def apply_kind(rng: random.Random, scn, pres: dict, kind: str):
    k, _, arg = kind.partition(":")
    if k == "row_perm":
        pres["row_seed"] = rng.randrange(1, 1 << 30)
    elif k == "names":
        pres["names"] = arg
    elif k == "uidname":
        pres["uidname"] = arg
    elif k == "outnames":
        pres["outnames"] = "renamed"
        if pres.get("names", "lower") == "lower":
            pres["names"] = rng.choice(["mixed", "upper"])
    elif k == "ids":
        allids = sorted({r["uid"] for t in scn["tables"] for r in t})
        if "monotone" in arg:
            a, b = rng.randint(1, 5), rng.randint(0, 50)
            pres["idmap"] = {str(u): a * u + b for u in allids}
        elif "bijection" in arg:
            new = rng.sample(range(0, 60), len(allids))
            pres["idmap"] = {str(u): v for u, v in zip(allids, new)}
        if "retype" in arg:
            pres["idtype"] = "str"
    elif k == "flags":
        arg = arg.partition("@")[0]
        pres["flags"] = {"tf": {"materialise_after_computing_term_frequencies": False},
                         "blocked": {"materialise_blocked_pairs": False},
                         "both": {"materialise_after_computing_term_frequencies": False, "materialise_blocked_pairs": False}}[arg]
    elif k == "debug":
        pres["debug"] = True
    elif k == "table_order":
        pres["table_order"] = [1, 0]
    elif k == "col_order":
        pres["col_order"] = rng.randrange(1, 1 << 30)  # the later tables list the same columns in another order
    elif k == "source_column":
        pres["source_column"] = True
    elif k == "rule_order":
        order = list(range(len(scn["rules"])))
        while order == list(range(len(scn["rules"]))):
            rng.shuffle(order)
        pres["rule_order"] = order
    elif k == "threads":
        pres["threads"] = int(arg)
    elif k == "salting":
        pres["salting"] = [rng.randint(1, 8) for _ in scn["rules"]]
        pres["salt_seed"] = rng.randrange(1 << 30)
    else:
        raise ValueError(kind)


def gen_presentations(rng, scn, n_single, n_combo, start=0):
    kinds = [k for k in pres_kinds(scn) if k not in EXCLUDED_KINDS]
    out = []
    # round-robin start so that every kind is covered across scenarios
    order = kinds[start % len(kinds):] + kinds[:start % len(kinds)]
    for kind in order[:n_single]:
        p = {"kinds": [kind]}
        apply_kind(rng, scn, p, kind)
        out.append(p)
    for _ in range(n_combo):
        ks, seen = [], set()
        for kind in rng.sample(kinds, min(len(kinds), rng.randint(2, 5))):
            fam = kind.partition(":")[0]
            if fam in seen or (fam == "source_column" and "table_order" in seen) or (fam == "table_order" and "source_column" in seen):
                continue
            seen.add(fam)
            ks.append(kind)
        p = {"kinds": ks}
        for kind in ks:
            apply_kind(rng, scn, p, kind)
        out.append(p)
    return out


# --------------------------------------------------------------------------- presenting a scenario
def names_of(pres):
    nm = dict(NAMESETS[pres.get("names", "lower")])
    nm["uid"] = pres.get("uidname", "unique_id")
    return nm


def present_id(pres, u):
    v = pres["idmap"][str(u)] if pres.get("idmap") else u
    return f"{v:05d}" if pres.get("idtype") == "str" else v


def presented_tables(scn, pres):
    """[(alias, rows in presented order with CANONICAL column keys and presented ids)], in presented table order."""
    order = pres.get("table_order") or list(range(len(scn["tables"])))
    out = []
    for ti in order:
        rows = [dict(r, uid=present_id(pres, r["uid"]), canon_uid=r["uid"]) for r in scn["tables"][ti]]
        if pres.get("row_seed"):
            random.Random(pres["row_seed"] + ti).shuffle(rows)
        out.append((ALIASES[ti], rows))
    return out


def q(name):
    return '"' + name + '"'


def comp_out_name(scn, pres, ci):
    col = scn["comparisons"][ci]["col"]
    return f"{names_of(pres)[col]}{ci}" if pres.get("outnames") == "renamed" else f"{col}{ci}"


def settings_dict(scn, pres):
    nm = names_of(pres)
    comps = []
    for ci, c in enumerate(scn["comparisons"]):
        lv = []
        for l in c["levels"]:
            d = {"sql_condition": c02.level_sql(nm[c["col"]], l), "label_for_charts": l["kind"] + str(l.get("k", ""))}
            if l["kind"] == "null":
                d["is_null_level"] = True
            else:
                d["m_probability"], d["u_probability"] = l["m"], l["u"]
            if "tf" in l:
                d["tf_adjustment_column"] = nm[c["col"]]
                d["tf_adjustment_weight"] = l["tf"]["weight"]
                d["tf_minimum_u_value"] = l["tf"]["minU"]
                if l["tf"].get("disable_detection"):
                    d["disable_tf_exact_match_detection"] = True
            lv.append(d)
        comps.append({"output_column_name": comp_out_name(scn, pres, ci), "comparison_levels": lv})
    order = pres.get("rule_order") or list(range(len(scn["rules"])))
    brs = []
    for pos, ri in enumerate(order):
        text = bg.sql(scn["rules"][ri], lambda c: q(nm[c]))
        if pres.get("salting") and pres["salting"][pos] > 1:  # 1 partition = the plain rule (Splink rejects salting_partitions=1)
            brs.append({"blocking_rule": text, "salting_partitions": pres["salting"][pos]})
        else:
            brs.append(text)
    return {"link_type": scn["link_type"], "comparisons": comps, "blocking_rules_to_generate_predictions": brs,
            "probability_two_random_records_match": scn["prior"], "unique_id_column_name": nm["uid"],
            "retain_matching_columns": True, "retain_intermediate_calculation_columns": True,
            "max_iterations": EM_ITER, "em_convergence": 1e-12}


def column_back_map(scn, pres):
    """presented output column name -> canonical output column name."""
    nm = names_of(pres)
    m = {}
    for side in ("_l", "_r"):
        m[nm["uid"] + side] = "unique_id" + side
        m["source_dataset" + side] = "source_dataset" + side
        for col in ("a", "b", "c"):
            m[nm[col] + side] = col + side
            m["tf_" + nm[col] + side] = "tf_" + col + side
    for ci, c in enumerate(scn["comparisons"]):
        # Splink replaces blanks of an output_column_name in the derived gamma_/bf_ column names
        on, cn = comp_out_name(scn, pres, ci).replace(" ", "_"), f"{c['col']}{ci}"
        for pre in ("gamma_", "bf_", "bf_tf_adj_"):
            m[pre + on] = pre + cn
    for x in ("match_weight", "match_probability", "match_key"):
        m[x] = x
    return m


def choose_threshold(probs):
    """A clustering threshold that no score is within rounding of: midpoint of the widest gap around the median."""
    ps = sorted(set(round(p, 12) for p in probs))
    if len(ps) < 2:
        return 0.5 if not ps or abs(ps[0] - 0.5) > 1e-3 else 0.25
    gaps = [(ps[i + 1] - ps[i], i) for i in range(len(ps) - 1)]
    mid = len(ps) // 2
    cand = sorted(gaps, key=lambda g: (-(g[0] > 1e-4), abs(g[1] - mid)))[0]
    return (ps[cand[1]] + ps[cand[1] + 1]) / 2


def run_impl(job: dict) -> dict:
    """One real run of the whole pipeline under a presentation; everything mapped back to canonical names / ids."""
    from splink import Linker

    from harness import impl

    scn, pres = job["scn"], job["pres"]
    nm = names_of(pres)
    api = impl.make_api(scn["engine"], threads=pres.get("threads", 2))
    idt = "str" if pres.get("idtype") == "str" else "int"
    types = {nm["uid"]: idt, nm["a"]: "str", nm["b"]: "str", nm["c"]: "int"}
    pt = presented_tables(scn, pres)
    multi = len(pt) > 1
    back_id = {}
    for al, rows in pt:
        for r in rows:
            back_id[(al, str(r["uid"]))] = (al, r["canon_uid"])

    def frame(rows, with_sd=None):
        recs = [{nm["uid"]: r["uid"], nm["a"]: r["a"], nm["b"]: r["b"], nm["c"]: r["c"]} | ({"source_dataset": with_sd[i]} if with_sd else {}) for i, r in enumerate(rows)]
        return impl.typed_frame(recs, ({"source_dataset": "str"} if with_sd else {}) | types)

    settings = settings_dict(scn, pres)
    if not multi:
        linker = Linker(frame(pt[0][1]), settings, api)
    elif pres.get("source_column"):
        allrows = [(al, r) for al, rows in pt for r in rows]
        if pres.get("row_seed"):
            random.Random(pres["row_seed"] + 99).shuffle(allrows)
        linker = Linker(frame([r for _, r in allrows], with_sd=[al for al, _ in allrows]), settings, api)
    else:
        frames_ = [frame(rows) for _, rows in pt]
        if pres.get("col_order"):
            crng = random.Random(pres["col_order"])
            for i in range(1, len(frames_)):
                cols = list(frames_[i].columns)
                perm = list(cols)
                while perm == cols:
                    crng.shuffle(perm)
                frames_[i] = frames_[i][perm]
        linker = Linker(frames_, settings, api, input_table_aliases=[al for al, _ in pt])
    if pres.get("debug"):
        linker._db_api.debug_mode = True
    out = {}
    if pres.get("debug"):
        # debug mode prints every intermediate table
        import contextlib
        import io

        with contextlib.redirect_stdout(io.StringIO()):
            return _pipeline(linker, scn, pres, job, nm, multi, back_id, out)
    return _pipeline(linker, scn, pres, job, nm, multi, back_id, out)


def _pipeline(linker, scn, pres, job, nm, multi, back_id, out):
    from harness import impl

    back = column_back_map(scn, pres)

    def rid(row, side):
        al = row["source_dataset" + side] if multi else ALIASES[0]
        key = (al, str(row[nm["uid"] + side]))
        return back_id.get(key, ("?not-an-input-record", repr(key)))  # an id the inputs do not contain is a result to compare, not a harness error

    # 1. predict with the model's initial parameters: every column
    df_predict = linker.inference.predict(**(pres.get("flags") or {}))
    rows = df_predict.as_record_dict()
    pred = []
    for r in rows:
        vals = {}
        for k, v in r.items():
            ck = back.get(k, "?" + k)
            if ck.startswith(("unique_id", "source_dataset")):
                continue
            vals[ck] = v
        pred.append({"l": rid(r, "_l"), "r": rid(r, "_r"), "vals": vals})
    out["predict"] = pred
    # 2. clusters at a threshold no score is near
    thr = job.get("thr")
    if thr is None:
        thr = choose_threshold([r["match_probability"] for r in rows])
    out["thr"] = thr
    cc = linker.clustering.cluster_pairwise_predictions_at_threshold(df_predict, threshold_match_probability=thr).as_record_dict()
    clus = []
    for r in cc:
        al = r["source_dataset"] if multi else ALIASES[0]
        node = back_id.get((al, str(r[nm["uid"]])), ("?not-an-input-record", repr((al, str(r[nm["uid"]])))))
        cid = str(r["cluster_id"])
        if multi:
            a, _, u = cid.partition(impl.SEP)
            cidc = back_id.get((a, u))
        else:
            cidc = back_id.get((ALIASES[0], cid))
        clus.append((node, cidc))
    out["clusters"] = clus
    # 3. training: u from the full sample, then one EM session blocked on one column
    linker.training.estimate_u_using_random_sampling(max_pairs=1e4)
    from splink.internals.exceptions import EMTrainingException

    try:
        linker.training.estimate_parameters_using_expectation_maximisation(f'l.{q(nm[scn["em_col"]])} = r.{q(nm[scn["em_col"]])}')
        out["em"] = "ok"
    except EMTrainingException:
        out["em"] = "no_pairs"
    cms = c03.dump_cms(linker._settings_obj.core_model_settings)
    params = {"prior": cms["prior"], "comparisons": {}}
    for ci, c in enumerate(scn["comparisons"]):
        params["comparisons"][f"{c['col']}{ci}"] = cms["comparisons"][comp_out_name(scn, pres, ci)]
    out["params"] = params
    return out


run_impl_safe = core.safe(run_impl)


# --------------------------------------------------------------------------- effective key order (is orientation preserved?)
def effective_keys(scn, pres):
    """canonical record id -> the value the engine orders records by under this presentation."""
    multi = len(scn["tables"]) > 1
    out = {}
    for ti, t in enumerate(scn["tables"]):
        for r in t:
            u = present_id(pres, r["uid"])
            out[(ALIASES[ti], r["uid"])] = f"{ALIASES[ti]}-__-{u}" if multi else u
    return out


def order_preserved(scn, pres) -> bool:
    kb, kp = effective_keys(scn, BASE_PRES), effective_keys(scn, pres)
    ids = list(kb)
    return sorted(ids, key=lambda i: kb[i]) == sorted(ids, key=lambda i: kp[i])


# --------------------------------------------------------------------------- the invariance oracle (real vs real)
def tup(x):
    return tuple(tup(y) for y in x) if isinstance(x, list) else x


def swap_lr(vals):
    out = {}
    for k, v in vals.items():
        if k.endswith("_l"):
            out[k[:-2] + "_r"] = v
        elif k.endswith("_r"):
            out[k[:-2] + "_l"] = v
        else:
            out[k] = v
    return out


def val_close(k, a, b):
    if isinstance(a, float) or isinstance(b, float):
        if a is None or b is None:
            return a is None and b is None
        return core.close(float(a), float(b), 1e-9, 1e-12)
    return a == b


def partition_of(clus):
    groups = {}
    for node, cid in clus:
        groups.setdefault(tup(cid) if cid is not None else ("?", tup(node)), set()).add(tup(node))
    return {frozenset(g) for g in groups.values()}


def compare_outputs(scn, pres, base, got) -> str | None:
    """None iff `got` (already in canonical names/ids) equals `base` up to what the property allows."""
    oriented = order_preserved(scn, pres)
    with_mk = not pres.get("rule_order")
    bp = {(tup(r["l"]), tup(r["r"])): r["vals"] for r in base["predict"]}
    gp = {}
    for r in got["predict"]:
        key = (tup(r["l"]), tup(r["r"]))
        vals = r["vals"]
        if key not in bp and not oriented and (key[1], key[0]) in bp:
            key, vals = (key[1], key[0]), swap_lr(vals)
        if key in gp:
            return f"pair {key} scored twice under the re-presentation"
        gp[key] = vals
    if len(got["predict"]) != len(base["predict"]) or set(gp) != set(bp):
        extra = sorted(set(gp) - set(bp))[:3]
        missing = sorted(set(bp) - set(gp))[:3]
        return f"scored pair set differs: {len(bp)} pairs in canonical form, {len(gp)} re-presented; only re-presented {extra}, only canonical {missing}"
    for key, bv in bp.items():
        gv = gp[key]
        cols = set(bv) | set(gv)
        for k in sorted(cols):
            if k == "match_key" and not with_mk:
                continue
            if k not in bv or k not in gv:
                return f"pair {key}: column {k} present only in the {'canonical' if k in bv else 're-presented'} output"
            if not val_close(k, bv[k], gv[k]):
                return f"pair {key}: column {k} = {bv[k]!r} in canonical form, {gv[k]!r} re-presented"
    # clusters
    if partition_of(base["clusters"]) != partition_of(got["clusters"]):
        return f"cluster partition differs at threshold {base['thr']}: canonical {sorted(map(sorted, partition_of(base['clusters'])))} re-presented {sorted(map(sorted, partition_of(got['clusters'])))}"
    if oriented and sorted((tup(n), tup(c) if c else None) for n, c in base["clusters"]) != sorted((tup(n), tup(c) if c else None) for n, c in got["clusters"]):
        return "cluster ids differ although the order of ids is preserved"
    # trained parameters
    if base["em"] != got["em"]:
        return f"EM session: {base['em']} in canonical form, {got['em']} re-presented"
    d = c03.theta_close(base["params"], got["params"], 1e-7)
    if d:
        return f"trained parameters differ: {d} (canonical vs re-presented)"
    return None


# --------------------------------------------------------------------------- Lean model on base and transported inputs
def model_records(scn, pres):
    """Records of the concatenated table in presented order, canonical column keys, presented ids and aliases."""
    recs = []
    for al, rows in presented_tables(scn, pres):
        for r in rows:
            recs.append({"source_dataset": al, "unique_id": r["uid"], "a": r["a"], "b": r["b"], "c": r["c"], "canon": (al, r["canon_uid"])})
    return recs


def block_request(scn, pres):
    recs = model_records(scn, pres)
    multi = len(scn["tables"]) > 1
    keys = bg.ranks([bg.composite_key(r, multi) for r in recs])
    sds = bg.ranks([r["source_dataset"] for r in recs])
    rng = random.Random(pres.get("salt_seed", 0) + 1)
    salts = [core.f2b(rng.random()) for _ in recs]
    code = {True: 1, False: 0, None: 2}
    order = pres.get("rule_order") or list(range(len(scn["rules"])))
    rules = []
    for pos, ri in enumerate(order):
        ast = scn["rules"][ri]
        mat = [[code[bg.ev(ast, recs[l], recs[r])] for r in range(len(recs))] for l in range(len(recs))]
        if pres.get("salting") and pres["salting"][pos] > 1:
            rules.append({"kind": "salted", "n": pres["salting"][pos], "eval": mat})
        else:
            rules.append({"kind": "plain", "n": 0, "eval": mat})
    lt = scn["link_type"]
    if lt == "link_only" and multi and not pres.get("source_column"):
        lt = "two_dataset_link_only"
    return {"op": "block", "lt": lt, "m": len(recs), "key": keys, "sd": sds, "salt": salts, "rules": rules}, recs


def tf_tables(scn):
    out = {}
    for col in ("a", "b"):
        vals = [r[col] for t in scn["tables"] for r in t if r[col] is not None]
        out[col] = {v: vals.count(v) / len(vals) for v in set(vals)} if vals else {}
    return out


def score_request(scn, pairs):
    """pairs: list of (canonical l id, canonical r id) in the emitted orientation."""
    rec = {(ALIASES[ti], r["uid"]): r for ti, t in enumerate(scn["tables"]) for r in t}
    tfs = tf_tables(scn)
    ps = []
    for l, r in pairs:
        # an id that is not an input record (a real run can return one when it mangles its inputs) gets an all-NULL stand-in here;
        # the comparison of the real outputs reports it
        blank = {"a": None, "b": None, "c": None}
        x, y = rec.get(tup(l), blank), rec.get(tup(r), blank)
        guards = [[c02.guard_values(lv, x[c["col"]], y[c["col"]]) for lv in c["levels"]] for c in scn["comparisons"]]

        def tfv(rr, col):
            t = tfs[col].get(rr[col]) if rr[col] is not None else None
            return None if t is None else core.f2b(t)

        ps.append({"guards": guards, "tfl": [tfv(x, "a"), tfv(x, "b")], "tfr": [tfv(y, "a"), tfv(y, "b")]})
    return {"op": "score", "prior": core.f2b(scn["prior"]), "comparisons": c02.model_levels(scn), "pairs": ps, "thr": None}


def model_vs_real(scn, pres, real, mblock, recs, mscore) -> str | None:
    mrows = sorted((mk, recs[l]["canon"], recs[r]["canon"]) for mk, l, r in mblock["rows"])
    irows = sorted((int(p["vals"].get("match_key", 0)), tup(p["l"]), tup(p["r"])) for p in real["predict"])
    if mrows != irows:
        return f"blocked rows differ from Lean model Blocking.block: impl-only {[x for x in irows if x not in mrows][:3]} model-only {[x for x in mrows if x not in irows][:3]}"
    for p, mr in zip(real["predict"], mscore["rows"]):
        gm = [p["vals"].get(f"gamma_{c['col']}{ci}") for ci, c in enumerate(scn["comparisons"])]
        if gm != mr["gammas"]:
            return f"pair {p['l']},{p['r']}: gammas impl {gm} model {mr['gammas']}"
        if not core.close(p["vals"]["match_weight"], c02.fac(mr["weight"]), 1e-9, 1e-9) or not core.close(p["vals"]["match_probability"], core.b2f(mr["prob"]), 1e-9, 1e-12):
            return f"pair {p['l']},{p['r']}: weight/prob impl ({p['vals']['match_weight']}, {p['vals']['match_probability']}) model ({c02.fac(mr['weight'])}, {core.b2f(mr['prob'])})"
    return None


def model_invariance(scn, pres, mb_base, recs_base, mb, recs) -> str | None:
    """model(base) vs model(presented): must hold by the C13 theorems."""
    oriented = order_preserved(scn, pres)
    with_mk = not pres.get("rule_order")

    def canon(rows, rr):
        out = set()
        for mk, l, r in rows:
            a, b = rr[l]["canon"], rr[r]["canon"]
            if not oriented and b < a:
                a, b = b, a
            out.add(((mk if with_mk else 0), a, b))
        return out

    base_rows = mb_base["rows"]
    if canon(base_rows, recs_base) != canon(mb["rows"], recs) or len(base_rows) != len(mb["rows"]):
        return f"Lean model output differs between base and transported input ({len(base_rows)} vs {len(mb['rows'])} rows)"
    return None


# --------------------------------------------------------------------------- driver
def kinds_label(pres):
    return "+".join(sorted(k.partition(":")[0] for k in pres["kinds"])) if len(pres["kinds"]) > 1 else pres["kinds"][0]


def failure_info(scn, pres, what):
    fams = sorted({k.partition(":")[0] for k in pres["kinds"]})
    cls = what.split(":")[0][:60]
    for pat, c in [("real code raised", "real code raised"), ("scored pair set differs", "scored pair set differs"), ("scored twice", "pair scored twice"),
                   ("present only in", "predict column missing or extra"), ("in canonical form,", "predict column value differs"), ("cluster partition differs", "cluster partition differs"),
                   ("cluster ids differ", "cluster ids differ"), ("EM session", "EM session outcome differs"), ("trained parameters differ", "trained parameters differ")]:
        if pat in what:
            cls = c
            break
    info = {"failure": cls, "representation": "+".join(fams), "engine": scn["engine"]}
    if cls == "real code raised":
        info["error"] = what.split("real code raised ", 1)[1].split(" ", 1)[0].rstrip(":")
    return info


def minimise(scn, pres, thr):
    """Shrink a failing (scenario, presentation): fewer presentation kinds, then fewer records / rules / comparisons."""

    def fails(s, p):
        b = run_impl_safe({"scn": s, "pres": dict(BASE_PRES, kinds=[]), "thr": None})
        if "__error__" in b:
            return None
        g = run_impl_safe({"scn": s, "pres": p, "thr": b["thr"]})
        if "__error__" in g:
            core.impl_error(g)
            return f"real code raised {g['__error__']}: {g['text'][:300]}"
        return compare_outputs(s, p, b, g)

    cur_s, cur_p = json.loads(json.dumps(scn)), json.loads(json.dumps(pres))
    cur_s["rules"] = [tup(r) for r in cur_s["rules"]]
    budget = 40
    # presentation kinds
    field_of = {"row_perm": ["row_seed"], "names": ["names"], "uidname": ["uidname"], "outnames": ["outnames"], "ids": ["idmap", "idtype"], "flags": ["flags"],
                "debug": ["debug"], "table_order": ["table_order"], "col_order": ["col_order"], "source_column": ["source_column"], "rule_order": ["rule_order"], "threads": ["threads"], "salting": ["salting", "salt_seed"]}
    if len(cur_p["kinds"]) > 1:
        for kind in list(cur_p["kinds"]):
            cand = dict(cur_p)
            for f in field_of[kind.partition(":")[0]]:
                cand.pop(f, None)
            cand["kinds"] = [k for k in cur_p["kinds"] if k != kind]
            if not cand["kinds"]:
                continue
            budget -= 1
            if fails(cur_s, cand):
                cur_p = cand
    changed = True
    while changed and budget > 0:
        changed = False
        for ti in range(len(cur_s["tables"])):
            for ri in range(len(cur_s["tables"][ti]) - 1, -1, -1):
                if budget <= 0 or len(cur_s["tables"][ti]) <= 1:
                    break
                cand = json.loads(json.dumps(cur_s))
                cand["rules"] = [tup(r) for r in cand["rules"]]
                del cand["tables"][ti][ri]
                budget -= 1
                if fails(cand, cur_p):
                    cur_s, changed = cand, True
        if not cur_p.get("rule_order") and not cur_p.get("salting"):
            for k in range(len(cur_s["rules"]) - 1, -1, -1):
                if budget <= 0:
                    break
                cand = dict(cur_s, rules=cur_s["rules"][:k] + cur_s["rules"][k + 1:])
                budget -= 1
                if fails(cand, cur_p):
                    cur_s, changed = cand, True
    return cur_s, cur_p, fails(cur_s, cur_p)


def normalise(scn):
    s = dict(scn)
    s["rules"] = [tup(r) for r in scn["rules"]]
    return s


def evaluate(ctx, work, drv):
    """work: list of (scenario, [presentations]).  Returns problems [(scn, pres, what, concrete)]."""
    base_jobs = [{"scn": s, "pres": dict(BASE_PRES, kinds=[]), "thr": None} for s, _ in work]
    bases = core.pmap(run_impl_safe, base_jobs, chunksize=1)
    problems = []
    jobs, owner = [], []
    for si, ((scn, press), b) in enumerate(zip(work, bases)):
        if core.impl_error(b):
            ctx.count("base_impl_error", b["__error__"])
            problems.append((scn, {"kinds": ["(canonical form)"]}, f"real code raised {b['__error__']} on the canonical form: {b['text'][:300]}", True))
            continue
        for p in press:
            jobs.append({"scn": scn, "pres": p, "thr": b["thr"]})
            owner.append(si)
    res = core.pmap(run_impl_safe, jobs, chunksize=1)
    # model requests: base + each presentation
    reqs, slots = [], []
    for si, ((scn, _), b) in enumerate(zip(work, bases)):
        if "__error__" in b:
            continue
        rb, recs_b = block_request(scn, BASE_PRES)
        reqs += [rb, score_request(scn, [(p["l"], p["r"]) for p in b["predict"]])]
        slots.append(("base", si, recs_b))
    for j, (job, r) in enumerate(zip(jobs, res)):
        if "__error__" in r:
            continue
        rb, recs = block_request(job["scn"], job["pres"])
        reqs += [rb, score_request(job["scn"], [(p["l"], p["r"]) for p in r["predict"]])]
        slots.append(("pres", j, recs))
    mres = drv.pbatch(reqs)
    for m in mres:
        if "error" in m:
            raise core.HarnessError("model driver error: " + m["error"])
    mbase = {}
    k = 0
    pres_model = {}
    for kind, idx, recs in slots:
        if kind == "base":
            mbase[idx] = (mres[k], recs, mres[k + 1])
        else:
            pres_model[idx] = (mres[k], recs, mres[k + 1])
        k += 2
    # base: model vs real (correspondence on the canonical form)
    for si, ((scn, _), b) in enumerate(zip(work, bases)):
        if "__error__" in b:
            continue
        mb, recs_b, ms = mbase[si]
        d = model_vs_real(scn, BASE_PRES, b, mb, recs_b, ms)
        if d:
            problems.append((scn, {"kinds": ["(canonical form)"]}, "canonical form: " + d, False))
    for j, (job, r) in enumerate(zip(jobs, res)):
        scn, pres = job["scn"], job["pres"]
        si = owner[j]
        b = bases[si]
        lab = kinds_label(pres)
        nontrivial = len(b["predict"]) >= 1
        ctx.case({"scn": scn, "pres": pres}, nontrivial,
                 sample={"scenario": scn, "presentation": pres, "n_pairs": len(b["predict"])} if sum(len(t) for t in scn["tables"]) <= 5 else None)
        for kd in pres["kinds"]:
            ctx.count("representation", kd)
        ctx.count("combination_size", len(pres["kinds"])); ctx.count("engine", scn["engine"]); ctx.count("link_type", scn["link_type"])
        ctx.count("n_rules", len(scn["rules"])); ctx.count("n_scored_pairs", len(b["predict"]) if len(b["predict"]) < 4 else "4-15" if len(b["predict"]) <= 15 else ">15")
        ctx.count("orientation_preserved", order_preserved(scn, pres)); ctx.count("em", b["em"])
        ctx.count("has_tf", any("tf" in l for c in scn["comparisons"] for l in c["levels"]))
        if core.impl_error(r):
            ctx.count("impl_error", f"{lab}: {r['__error__']}")
            problems.append((scn, pres, f"real code raised {r['__error__']} under the re-presentation (canonical form runs): {r['text'][:300]}", True))
            continue
        d = compare_outputs(scn, pres, b, r)
        if d:
            problems.append((scn, pres, d, True))
            continue
        mb, recs, ms = pres_model[j]
        mb0, recs0, _ = mbase[si]
        d = model_invariance(scn, pres, mb0, recs0, mb, recs)
        if d:
            raise core.HarnessError(f"transport of inputs is wrong (the C13 theorems exclude this): {d}; presentation {pres}")
        d = model_vs_real(scn, pres, r, mb, recs, ms)
        if d:
            problems.append((scn, pres, d, False))
            continue
        ctx.traces_validated += 1
    return problems


def gen_work(ctx, rng, n_scn, n_single, n_combo):
    work = []
    for i in range(n_scn):
        scn = gen_scenario(rng)
        work.append((scn, gen_presentations(rng, scn, n_single, n_combo, start=i * n_single)))
    return work


def run(ctx: core.Ctx):
    ctx.rule = (
        "base scenarios = 1 table (dedupe_only, 4-9 records) or 2 tables (link_only / link_and_dedupe, 2-6 records each, overlapping int ids), tiny string/int domains, NULL rate 0-25%, "
        "0-3 blocking rules symmetric in l/r over eq/substr/AND/OR/NOT, 2-3 comparisons (exact / levenshtein / abs-diff, null level 85%, TF adjustments 60%), duckdb 75% / sqlite 25%; "
        "each scenario is run once canonically (lower-case names, int ids, explicit aliases) and once per re-presentation: row permutation, table order (aliases attached), column names "
        "(Mixed, UPPER, with spaces, SQL keywords, mixture; unique-id column renamed; output_column_name renamed), ids relabelled (order preserving / arbitrary bijection) and retyped "
        "(int -> zero-padded str), two tables vs one table with a source_dataset column, rule order, salting 1-8 partitions per rule (twice), materialise_* flags of predict, debug mode, "
        "duckdb threads 1/4/16; singles (round-robin over scenarios) + random combinations of 2-5. Compared: scored pair set with match_key, every predict column, cluster partition "
        "(and cluster ids when id order is preserved) at a threshold away from every score, parameters after estimate_u(full sample) + one EM session (4 iterations). "
        "non-trivial = at least one scored pair; distinct = hash of (scenario, presentation)."
    )
    ctx.assumptions = [
        "the oracle is the invariance itself: real output under a re-presentation, mapped back to canonical names/ids, vs real output in canonical form (floats: 1e-9 relative for predict columns, 1e-7 for trained parameters)",
        "blocking rules are symmetric in l/r (for asymmetric rules the property only gives the C01 bounds); comparison levels used are symmetric, so a flipped orientation (id relabelling that changes the id order) must give the same scores",
        "when the order of the effective ids changes (arbitrary bijection; retyping under composite string ids) unordered pairs and cluster partitions are compared, not orientation or cluster_id values",
        "rule reordering: pair sets compared without match_key; EM: convergence threshold 1e-12 and 4 iterations so that rounding cannot change the iteration count",
        "thread count, materialisation flags and debug mode are runtime behaviour outside the models: covered by repetition only (level partial for scheduling)",
        "debug mode is compared on outputs only (its table-name clobbering is K3 / C18)",
    ]
    ctx.lean = core.lean_check(PROP, ctx.thorough)
    drv = core.Driver()
    from harness import graphs

    if ctx.replay:
        rep = json.loads(open(ctx.replay).read())["replay"]
        work = [(normalise(rep["scenario"]), [rep["presentation"]])]
    else:
        work = [(normalise(c["scenario"]), [c["presentation"]]) for c in graphs.load_corpus(PROP)]
        work += gen_work(ctx, ctx.rng, ctx.budget(60, 400), 9 if not ctx.thorough else 24, 3 if not ctx.thorough else 8)
    problems = evaluate(ctx, work, drv)
    if (not ctx.lean.ok or any(not conc for *_, conc in problems)) and not ctx.replay:
        ctx.notes.append("proof or correspondence broke: ran the widened failing-input search")
        problems += evaluate(ctx, gen_work(ctx, random.Random(ctx.seed + 7919), 120, 9, 3), drv)
    concrete = [(s, p, w) for s, p, w, conc in problems if conc]
    broken = [(s, p, w) for s, p, w, conc in problems if not conc]
    reported = set()
    for s, p, w in concrete:
        mi = failure_info(s, p, w)
        key = json.dumps(mi, sort_keys=True)
        if key in reported or len(reported) >= 5:
            continue
        reported.add(key)
        if p["kinds"] == ["(canonical form)"]:
            ctx.violation("real code fails on the canonical form of a C13 scenario: " + mi["failure"], {"scenario": s, "presentation": dict(BASE_PRES, kinds=[]), "detail": w}, kind="concrete", match_info=mi)
            continue
        s2, p2, w2 = minimise(s, p, None) if not ctx.replay and not str(s.get("tag", "")).startswith("corpus") else (s, p, w)
        if not w2:
            s2, p2, w2 = s, p, w
        b = run_impl_safe({"scn": s2, "pres": dict(BASE_PRES, kinds=[]), "thr": None})
        g = run_impl_safe({"scn": s2, "pres": p2, "thr": b.get("thr")})
        mi2 = failure_info(s2, p2, w2)
        ctx.violation(f"real output violates C13: not invariant under [{mi2['representation']}]: {mi2['failure']}",
                      {"scenario": s2, "presentation": p2, "settings_canonical": settings_dict(s2, BASE_PRES), "settings_represented": settings_dict(s2, p2),
                       "detail": w2, "output_canonical": b, "output_represented": g}, kind="concrete", match_info=mi2)
    if not concrete:
        if broken:
            s, p, w = broken[0]
            ctx.violation("correspondence Blocking/Score models <-> predict() no longer checks under re-presentation",
                          {"correspondence": "harness/props/c13.py model_vs_real(): " + w, "scenario": s, "presentation": p, "disagreeing_cases": len(broken), "searched_cases": ctx.evaluations, "lean": ctx.lean.as_dict()}, kind="unproved")
        elif not ctx.lean.ok:
            ctx.violation("Lean obligations for C13 no longer check",
                          {"theorems": ctx.lean.as_dict()["undischarged"], "problems": ctx.lean.problems, "build_log_tail": ctx.lean.build_log[-1500:], "searched_cases": ctx.evaluations}, kind="unproved")
