"""C13 — results are invariant under re-presentation of the same problem.

Lean: Properties/C13.lean proves, about the models that C01/C03/C05 tie to the real code, that blocking is
equivariant under row permutation, invariant under rule reordering (pair set), salting, order-preserving id
relabelling (identical rows) and arbitrary id relabelling (unordered pairs, symmetric rules), that two tables ==
one table with a source column, that the EM step is invariant under row permutation (over the reals) and that
cluster partitions are invariant under node relabelling.  Column names, materialise_* flags, debug mode and the
thread count do not occur in any model (design fact `names_irrelevant`): for those the check is the
correspondence alone.
Tie / oracle: for every base scenario the REAL pipeline (predict with every retained column, clustering at a
threshold, estimate_u on the full sample + one EM session) is run once in canonical form and once per
re-presentation; the re-presented output is mapped back to canonical names/ids and compared with the base
output (the oracle IS the invariance: real output vs real output).  The compiled Lean model (`block`, `score`)
is run on the base and on the transported inputs as well: model(base) == model(presented) must hold by the
theorems (a mismatch is a harness error), and model == real on every run is the correspondence.
"""
from __future__ import annotations

import json
import math
import random

from harness import blockgen as bg
from harness import core
from harness.props import c02, c03

PROP = "C13"
ALIASES = ["ta", "tb", "tc"]
# source dataset names other than the canonical ones: same order as ta < tb < tc / the opposite order (orientation of every
# cross-dataset pair flips); "default" = no input_table_aliases (Splink names the tables by their POSITION in the input list)
SDNAMES = {"renamed": ["alpha", "beta", "gamma"], "swapped": ["zc", "zb", "za"]}
SDCOLS = ["Src", "src dataset"]  # source_dataset_column_name: upper-case letters / needs quoting
CANON = {"a": "a", "b": "b", "c": "c", "uid": "unique_id"}
# "d": a column the model does not use, kept in the output through additional_columns_to_retain (scenarios with "extra")
NAMESETS = {
    "lower": {"a": "a", "b": "b", "c": "c", "d": "d"},
    "mixed": {"a": "Surname", "b": "FirstName", "c": "Age", "d": "NoteText"},          # F4: case-sensitive name comparison
    "upper": {"a": "SURNAME", "b": "FIRST_NAME", "c": "AGE", "d": "NOTE"},
    "space": {"a": "sur name", "b": "first name", "c": "age yrs", "d": "note text"},      # F1: names that need quoting
    "keyword": {"a": "date", "b": "type", "c": "order", "d": "comment"},               # SQL keywords (reserved one on the column without TF adjustment)
    "reserved": {"a": "group", "b": "order", "c": "select", "d": "table"},           # reserved words everywhere: defects D2/D3 (excluded, corpus cases)
    "mixture": {"a": "Surname", "b": "first name", "c": "order", "d": "Note text"},
}
UIDNAMES = ["unique_id", "Id", "record id"]
NOT_OBS = c03.NOT_OBS
EM_ITER = 4


# --------------------------------------------------------------------------- scenario generation
def gen_rule_sym(rng):
    return bg.gen_rule(rng, depth=rng.choice([0, 1, 1, 2]), asym_ok=False, arr=False)


def gen_scenario(rng: random.Random, engine=None):
    engine = engine or rng.choice(["duckdb", "duckdb", "duckdb", "sqlite"])
    k = rng.choice([1, 1, 2, 2, 2, 3])  # 3 tables: link_only takes the general self-join path, not the two-table split
    link_type = "dedupe_only" if k == 1 else rng.choice(["link_only", "link_and_dedupe"])
    null_rate = rng.choice([0.0, 0.1, 0.25])
    tables = []
    for _ in range(k):
        n = rng.randint(4, 9) if k == 1 else rng.randint(2, 6) if k == 2 else rng.randint(2, 4)
        ids = rng.sample(range(1, 14), n)  # overlapping across tables; 9 vs 10: string order differs from int order
        tables.append([{"uid": u,
                        "a": None if rng.random() < null_rate else rng.choice(c02.STR_DOM[:5]),
                        "b": None if rng.random() < null_rate else rng.choice(c02.STR_DOM[:4]),
                        "c": None if rng.random() < null_rate else rng.choice(c02.INT_DOM)} for u in ids])
    rules = [gen_rule_sym(rng) for _ in range(rng.choice([0, 1, 2, 2, 3]))]
    cols = rng.sample(["a", "b", "c"], rng.randint(2, 3))
    comps = []
    for c in cols:
        cc = c02.gen_comparison(rng, c, engine)
        for l in cc["levels"]:
            if l.get("u") == 0.0:
                l["u"] = 0.05  # infinite Bayes factors are C02's business
        comps.append(cc)
    em_col = rng.choice([c for c in ["a", "b", "c"]])
    return add_extra_column(rng, {"engine": engine, "link_type": link_type, "tables": tables, "rules": rules, "comparisons": comps,
                                  "prior": rng.choice([0.01, 0.1, 0.3, round(rng.uniform(0.01, 0.6), 3)]), "em_col": em_col, "tag": "random"})


def add_extra_column(rng, scn, rate=0.4):
    """A column outside the model that identifies the record, retained through additional_columns_to_retain (NULL for some records)."""
    if rng.random() < rate:
        scn["extra"] = True
        for ti, t in enumerate(scn["tables"]):
            for r in t:
                r["d"] = None if rng.random() < 0.15 else f"rec {ALIASES[ti]}{r['uid']}"
    return scn


# ---- family "lr_features": model features that read the l and the r record SEPARATELY, on data where the two sides differ
# A term-frequency adjustment on a level that is not an exact match divides by the greater of tf_l and tf_r (and
# tf_minimum_u_value): the two values of a pair in such a level are different, so are their term frequencies when the value
# frequencies are skewed.  Every re-presentation that turns a scored pair round must leave its Bayes factors alone.
LR_DOM = {"a": ["ann", "anne", "an", "bob", "bobb", "cy", ""], "b": ["ann", "anne", "bob", "bobb", "an"]}


def gen_lr_comparison(rng, col):
    shape = rng.choice(["eq+lev", "eq+lev", "eq+lev+lev2", "eq+lev+lev2", "lev_only"])
    levels = [{"kind": "null"}] if rng.random() < 0.85 else []
    if shape != "lev_only":
        levels.append({"kind": "eq"})
    levels.append({"kind": "lev", "k": 1})
    if shape == "eq+lev+lev2":
        levels.append({"kind": "lev", "k": 2})
    levels.append({"kind": "else"})
    nn = [l for l in levels if l["kind"] != "null"]
    for l, m, u in zip(nn, c02.gen_probs(rng, len(nn)), c02.gen_probs(rng, len(nn))):
        l["m"], l["u"] = m, u
    for l in nn[:-1]:
        if rng.random() < (0.7 if l["kind"] == "eq" else 0.9):
            # with / without a tf_minimum_u_value, weights 1 / fractional / 0; "omit_defaults": default-valued keys are left out of the settings
            l["tf"] = {"weight": rng.choice([1.0, 1.0, 0.5, 0.3, 0.0]), "minU": rng.choice([0.0, 0.0, 0.0, 0.01, 0.2])}
            if rng.random() < 0.35:
                l["tf"]["omit_defaults"] = True
            if l["kind"] == "lev" and (shape == "lev_only" or rng.random() < 0.25):
                l["tf"]["disable_detection"] = True  # no exact-match level on the column: the level must name its own u
    return {"col": col, "levels": levels}


def gen_scenario_lr(rng: random.Random, engine=None):
    engine = engine or rng.choice(["duckdb", "duckdb", "duckdb", "sqlite"])
    k = rng.choice([1, 2, 2, 3])
    link_type = "dedupe_only" if k == 1 else rng.choice(["link_only", "link_only", "link_and_dedupe"])
    null_rate = rng.choice([0.0, 0.0, 0.1])
    weights = {c: [rng.choice([1, 1, 2, 3, 6]) for _ in LR_DOM[c]] for c in ("a", "b")}  # skewed value frequencies
    tables = []
    for _ in range(k):
        n = rng.randint(6, 10) if k == 1 else rng.randint(3, 6) if k == 2 else rng.randint(2, 4)
        ids = rng.sample(range(1, 14), n)
        tables.append([{"uid": u,
                        "a": None if rng.random() < null_rate else rng.choices(LR_DOM["a"], weights["a"])[0],
                        "b": None if rng.random() < null_rate else rng.choices(LR_DOM["b"], weights["b"])[0],
                        "c": None if rng.random() < null_rate else rng.choice(c02.INT_DOM)} for u in ids])
    rules = [gen_rule_sym(rng) for _ in range(rng.choice([0, 0, 1, 1, 2]))]
    comps = [gen_lr_comparison(rng, "a"), gen_lr_comparison(rng, "b")]
    if rng.random() < 0.5:
        comps.append(c02.gen_comparison(rng, "c", engine))
    rng.shuffle(comps)
    for cc in comps:
        for l in cc["levels"]:
            if l.get("u") == 0.0:
                l["u"] = 0.05
    return add_extra_column(rng, {"engine": engine, "link_type": link_type, "tables": tables, "rules": rules, "comparisons": comps,
                                  "prior": rng.choice([0.01, 0.1, 0.3, round(rng.uniform(0.01, 0.6), 3)]), "em_col": rng.choice(["a", "b", "c", "c"]), "tag": "lr_features"})


BASE_PRES = {"names": "lower", "uidname": "unique_id", "outnames": "canonical"}


def pres_kinds(scn):
    """Re-presentation kinds applicable to a scenario.  `k1&k2` is one re-presentation made of two components."""
    duck = scn["engine"] == "duckdb"
    multi = len(scn["tables"]) > 1
    kinds = ["row_perm", "names:mixed", "names:upper", "names:space", "names:keyword", "names:reserved", "names:mixture", "uidname:Id", "uidname:record id",
             "outnames", "ids:monotone", "ids:bijection", "ids:retype", "ids:bijection+retype",
             # order-REVERSING relabelling (every pair turns round), int -> unpadded str ('10' < '9'), both
             "ids:reverse", "ids:retype_unpadded", "ids:reverse+retype", "ids:bijection+retype_unpadded",
             "flags:blocked", "flags:both", "debug",
             # input FORM: the same tables registered in the database first, the Linker given their names (with / without aliases)
             "input_form:names"]
    kinds.append("flags:tf" if duck else "flags:tf@nonduck")
    if multi:
        kinds += ["table_order", "source_column", "col_order",
                  # source dataset renaming: same order / opposite order / Splink's positional default names (then the table order decides l and r)
                  "sdnames:renamed", "sdnames:swapped", "sdnames:default", "table_order&sdnames:default", "source_column&sdnames:swapped",
                  "input_form:names&sdnames:default", "input_form:names&sdnames:swapped"]
        kinds += [f"sdcol:{c}" for c in SDCOLS]
    else:
        kinds += ["sdnames:renamed", "input_form:names&sdnames:renamed"]  # a single table given an alias
    if len(scn["rules"]) >= 2:
        kinds += ["rule_order"]
    if duck:
        kinds += ["threads:1", "threads:4", "threads:16"]
        if scn["rules"]:
            kinds += ["salting", "salting"]  # twice: salts are random
    return kinds


# Kinds whose purpose is to change which record of a pair is l and which is r
FLIP_FAMILIES = ("ids", "sdnames", "table_order", "source_column", "input_form")

# Re-presentations excluded from the generator because of a confirmed defect of the real code (each keeps one
# corpus case under corpus/C13/):
#  D1 predict(materialise_after_computing_term_frequencies=False) with the default materialise_blocked_pairs=True raises
#     UnboundLocalError on every backend but DuckDB (corpus D1_*.json)
#  D2 a TF-adjusted column whose name sqlglot treats as reserved in the dialect (`order`, `select`, ...): the TF table is
#     named __splink__df_tf_"order" -> parser error (corpus D2_*.json)
#  D3 a column named `group` or `index`: InputColumn.input_name is '"group"' but the training rule's columns are parsed
#     as 'group', so the EM session does not deactivate the comparison on the blocked column (corpus D3_*.json)
EXCLUDED_KINDS: set[str] = set()  # D1-D3 repaired (F25-F27): nothing excluded


def apply_kind(rng: random.Random, scn, pres: dict, kind: str):
    k, _, arg = kind.partition(":")
    if k == "row_perm":
        pres["row_seed"] = rng.randrange(1, 1 << 30)
    elif k == "names":
        pres["names"] = arg
    elif k == "uidname":
        pres["uidname"] = arg
    elif k == "outnames":
        pres["outnames"] = "renamed"
        if pres.get("names", "lower") == "lower":
            pres["names"] = rng.choice(["mixed", "upper"])
    elif k == "ids":
        allids = sorted({r["uid"] for t in scn["tables"] for r in t})
        for part in arg.split("+"):
            if part == "monotone":
                a, b = rng.randint(1, 5), rng.randint(0, 50)
                pres["idmap"] = {str(u): a * u + b for u in allids}
            elif part == "bijection":
                new = rng.sample(range(0, 60), len(allids))
                pres["idmap"] = {str(u): v for u, v in zip(allids, new)}
            elif part == "reverse":
                top = max(allids) + rng.choice([0, 0, 1, 7])  # top - u: 0 is an id when the shift is 0
                pres["idmap"] = {str(u): top - u for u in allids}
            elif part == "retype":
                pres["idtype"] = "str"
            elif part == "retype_unpadded":
                pres["idtype"] = "str_unpadded"
            else:
                raise ValueError(kind)
    elif k == "flags":
        arg = arg.partition("@")[0]
        pres["flags"] = {"tf": {"materialise_after_computing_term_frequencies": False},
                         "blocked": {"materialise_blocked_pairs": False},
                         "both": {"materialise_after_computing_term_frequencies": False, "materialise_blocked_pairs": False}}[arg]
    elif k == "debug":
        pres["debug"] = True
    elif k == "table_order":
        order = list(range(len(scn["tables"])))
        while order == list(range(len(scn["tables"]))):
            rng.shuffle(order)
        pres["table_order"] = order
    elif k == "col_order":
        pres["col_order"] = rng.randrange(1, 1 << 30)  # the later tables list the same columns in another order
    elif k == "source_column":
        pres["source_column"] = True
    elif k == "sdnames":
        pres["sdnames"] = arg
    elif k == "sdcol":
        pres["sdcol"] = arg
    elif k == "input_form":
        pres["input_form"] = arg
    elif k == "rule_order":
        order = list(range(len(scn["rules"])))
        while order == list(range(len(scn["rules"]))):
            rng.shuffle(order)
        pres["rule_order"] = order
    elif k == "threads":
        pres["threads"] = int(arg)
    elif k == "salting":
        pres["salting"] = [rng.randint(1, 8) for _ in scn["rules"]]
        pres["salt_seed"] = rng.randrange(1 << 30)
    else:
        raise ValueError(kind)


def family_of(kind):
    return kind.partition(":")[0]


def build_presentation(rng, scn, kinds):
    """One presentation from a list of (possibly compound) kinds; at most one component per family, source_column XOR table_order."""
    ks, seen = [], set()
    for kind in kinds:
        comps = kind.split("&")
        fams = [family_of(c) for c in comps]
        if any(f in seen for f in fams) or ("source_column" in fams and "table_order" in seen) or ("table_order" in fams and "source_column" in seen):
            continue
        seen.update(fams)
        ks += comps
    p = {"kinds": ks}
    for kind in ks:
        apply_kind(rng, scn, p, kind)
    return p


def gen_presentations(rng, scn, n_single, n_combo, start=0):
    kinds = [k for k in pres_kinds(scn) if k not in EXCLUDED_KINDS]
    out = []
    # round-robin start so that every kind is covered across scenarios
    order = kinds[start % len(kinds):] + kinds[:start % len(kinds)]
    for kind in order[:n_single]:
        out.append(build_presentation(rng, scn, [kind]))
    for _ in range(n_combo):
        out.append(build_presentation(rng, scn, rng.sample(kinds, min(len(kinds), rng.randint(2, 5)))))
    return out


def gen_flip_presentations(rng, scn, n_flip, n_combo, start=0):
    """Re-presentations under which at least one pair of records changes its l/r order (decided on the presented keys), alone
    and combined with 1-3 kinds of other families."""
    kinds = [k for k in pres_kinds(scn) if k not in EXCLUDED_KINDS]
    flips = [k for k in kinds if all(family_of(c) in FLIP_FAMILIES for c in k.split("&"))]
    others = [k for k in kinds if not any(family_of(c) in FLIP_FAMILIES for c in k.split("&"))]
    flips = flips[start % len(flips):] + flips[:start % len(flips)]
    out, found = [], []
    for kind in flips * 2:
        if len(found) >= n_flip:
            break
        p = build_presentation(rng, scn, [kind])
        if not order_preserved(scn, p):
            found.append(kind)
            out.append(p)
    for _ in range(n_combo if found else 0):
        for _try in range(4):
            p = build_presentation(rng, scn, [rng.choice(found)] + rng.sample(others, min(len(others), rng.randint(1, 3))))
            if not order_preserved(scn, p):
                out.append(p)
                break
    return out


# --------------------------------------------------------------------------- presenting a scenario
def names_of(pres):
    nm = dict(NAMESETS[pres.get("names", "lower")])
    nm["uid"] = pres.get("uidname", "unique_id")
    return nm


def present_id(pres, u):
    v = pres["idmap"][str(u)] if pres.get("idmap") else u
    if pres.get("idtype") == "str":
        return f"{v:05d}"
    if pres.get("idtype") == "str_unpadded":
        return str(v)  # '10' < '9'
    return v


def presented_alias(scn, pres, ti, pos):
    """Source dataset name of canonical table `ti` given at position `pos` of the input list."""
    sd = pres.get("sdnames")
    if sd == "default":
        # no aliases: Splink names the inputs by position (one table with a source column carries the canonical names)
        return ALIASES[ti] if pres.get("source_column") else f"__splink__input_table_{pos}"
    return SDNAMES[sd][ti] if sd else ALIASES[ti]


def presented_tables(scn, pres):
    """[(canonical alias, presented source dataset name, rows in presented order with CANONICAL column keys and presented ids)],
    in presented table order."""
    order = pres.get("table_order") or list(range(len(scn["tables"])))
    out = []
    for pos, ti in enumerate(order):
        rows = [dict(r, uid=present_id(pres, r["uid"]), canon_uid=r["uid"]) for r in scn["tables"][ti]]
        if pres.get("row_seed"):
            random.Random(pres["row_seed"] + ti).shuffle(rows)
        out.append((ALIASES[ti], presented_alias(scn, pres, ti, pos), rows))
    return out


def sd_column(pres):
    return pres.get("sdcol") or "source_dataset"


def q(name):
    return '"' + name + '"'


def comp_out_name(scn, pres, ci):
    col = scn["comparisons"][ci]["col"]
    return f"{names_of(pres)[col]}{ci}" if pres.get("outnames") == "renamed" else f"{col}{ci}"


def settings_dict(scn, pres):
    nm = names_of(pres)
    comps = []
    for ci, c in enumerate(scn["comparisons"]):
        lv = []
        for l in c["levels"]:
            d = {"sql_condition": c02.level_sql(nm[c["col"]], l), "label_for_charts": l["kind"] + str(l.get("k", ""))}
            if l["kind"] == "null":
                d["is_null_level"] = True
            else:
                d["m_probability"], d["u_probability"] = l["m"], l["u"]
            if "tf" in l:
                d["tf_adjustment_column"] = nm[c["col"]]
                d["tf_adjustment_weight"] = l["tf"]["weight"]
                d["tf_minimum_u_value"] = l["tf"]["minU"]
                if l["tf"].get("omit_defaults"):  # the documented defaults, by omission
                    if d["tf_adjustment_weight"] == 1.0:
                        del d["tf_adjustment_weight"]
                    if d["tf_minimum_u_value"] == 0.0:
                        del d["tf_minimum_u_value"]
                if l["tf"].get("disable_detection"):
                    d["disable_tf_exact_match_detection"] = True
            lv.append(d)
        comps.append({"output_column_name": comp_out_name(scn, pres, ci), "comparison_levels": lv})
    order = pres.get("rule_order") or list(range(len(scn["rules"])))
    brs = []
    for pos, ri in enumerate(order):
        text = bg.sql(scn["rules"][ri], lambda c: q(nm[c]))
        if pres.get("salting") and pres["salting"][pos] > 1:  # 1 partition = the plain rule (Splink rejects salting_partitions=1)
            brs.append({"blocking_rule": text, "salting_partitions": pres["salting"][pos]})
        else:
            brs.append(text)
    out = {"link_type": scn["link_type"], "comparisons": comps, "blocking_rules_to_generate_predictions": brs,
           "probability_two_random_records_match": scn["prior"], "unique_id_column_name": nm["uid"],
           "retain_matching_columns": True, "retain_intermediate_calculation_columns": True,
           "max_iterations": EM_ITER, "em_convergence": 1e-12}
    if pres.get("sdcol"):
        out["source_dataset_column_name"] = pres["sdcol"]
    if scn.get("extra"):
        out["additional_columns_to_retain"] = [nm["d"]]
    return out


def column_back_map(scn, pres):
    """presented output column name -> canonical output column name."""
    nm = names_of(pres)
    m = {}
    for side in ("_l", "_r"):
        m[nm["uid"] + side] = "unique_id" + side
        m[sd_column(pres) + side] = "source_dataset" + side
        for col in ("a", "b", "c", "d"):
            m[nm[col] + side] = col + side
            m["tf_" + nm[col] + side] = "tf_" + col + side
    for ci, c in enumerate(scn["comparisons"]):
        # Splink replaces blanks of an output_column_name in the derived gamma_/bf_ column names
        on, cn = comp_out_name(scn, pres, ci).replace(" ", "_"), f"{c['col']}{ci}"
        for pre in ("gamma_", "bf_", "bf_tf_adj_"):
            m[pre + on] = pre + cn
    for x in ("match_weight", "match_probability", "match_key"):
        m[x] = x
    return m


def choose_threshold(probs):
    """A clustering threshold that no score is within rounding of: midpoint of the widest gap around the median."""
    ps = sorted(set(round(p, 12) for p in probs))
    if len(ps) < 2:
        return 0.5 if not ps or abs(ps[0] - 0.5) > 1e-3 else 0.25
    gaps = [(ps[i + 1] - ps[i], i) for i in range(len(ps) - 1)]
    mid = len(ps) // 2
    cand = sorted(gaps, key=lambda g: (-(g[0] > 1e-4), abs(g[1] - mid)))[0]
    return (ps[cand[1]] + ps[cand[1] + 1]) / 2


def run_impl(job: dict) -> dict:
    """One real run of the whole pipeline under a presentation; everything mapped back to canonical names / ids."""
    from splink import Linker

    from harness import impl

    scn, pres = job["scn"], job["pres"]
    nm = names_of(pres)
    api = impl.make_api(scn["engine"], threads=pres.get("threads", 2))
    idt = "str" if pres.get("idtype") in ("str", "str_unpadded") else "int"
    types = {nm["uid"]: idt, nm["a"]: "str", nm["b"]: "str", nm["c"]: "int"} | ({nm["d"]: "str"} if scn.get("extra") else {})
    pt = presented_tables(scn, pres)
    multi = len(pt) > 1
    sdc = sd_column(pres)
    back_id = {}
    for al, pal, rows in pt:
        for r in rows:
            back_id[(pal if multi else al, str(r["uid"]))] = (al, r["canon_uid"])

    def frame(rows, with_sd=None):
        recs = [{nm["uid"]: r["uid"], nm["a"]: r["a"], nm["b"]: r["b"], nm["c"]: r["c"]} | ({nm["d"]: r["d"]} if scn.get("extra") else {}) | ({sdc: with_sd[i]} if with_sd else {})
                for i, r in enumerate(rows)]
        return impl.typed_frame(recs, ({sdc: "str"} if with_sd else {}) | types)

    def given(frames_):
        """The input FORM: the frames themselves, or the names of tables registered in the database beforehand."""
        if pres.get("input_form") != "names":
            return frames_
        names = [f"c13_registered_input_{i}" for i in range(len(frames_))]
        for f, n in zip(frames_, names):
            api.register_table(f, n)
        return names

    settings = settings_dict(scn, pres)
    if not multi:
        # the canonical form gives a single table no alias
        kw = {"input_table_aliases": SDNAMES[pres["sdnames"]][0]} if pres.get("sdnames") in SDNAMES else {}
        linker = Linker(given([frame(pt[0][2])])[0], settings, api, **kw)
    elif pres.get("source_column"):
        allrows = [(pal, r) for _, pal, rows in pt for r in rows]
        if pres.get("row_seed"):
            random.Random(pres["row_seed"] + 99).shuffle(allrows)
        linker = Linker(given([frame([r for _, r in allrows], with_sd=[pal for pal, _ in allrows])])[0], settings, api)
    else:
        frames_ = [frame(rows) for _, _, rows in pt]
        if pres.get("col_order"):
            crng = random.Random(pres["col_order"])
            for i in range(1, len(frames_)):
                cols = list(frames_[i].columns)
                perm = list(cols)
                while perm == cols:
                    crng.shuffle(perm)
                frames_[i] = frames_[i][perm]
        kw = {} if pres.get("sdnames") == "default" else {"input_table_aliases": [pal for _, pal, _ in pt]}
        linker = Linker(given(frames_), settings, api, **kw)
    if pres.get("debug"):
        linker._db_api.debug_mode = True
    out = {}
    if pres.get("debug"):
        # debug mode prints every intermediate table
        import contextlib
        import io

        with contextlib.redirect_stdout(io.StringIO()):
            return _pipeline(linker, scn, pres, job, nm, multi, back_id, out)
    return _pipeline(linker, scn, pres, job, nm, multi, back_id, out)


def _pipeline(linker, scn, pres, job, nm, multi, back_id, out):
    from harness import impl

    back = column_back_map(scn, pres)
    sdc = sd_column(pres)

    def rid(row, side):
        al = row[sdc + side] if multi else ALIASES[0]
        key = (al, str(row[nm["uid"] + side]))
        return back_id.get(key, ("?not-an-input-record", repr(key)))  # an id the inputs do not contain is a result to compare, not a harness error

    # 1. predict with the model's initial parameters: every column
    df_predict = linker.inference.predict(**(pres.get("flags") or {}))
    rows = df_predict.as_record_dict()
    pred = []
    for r in rows:
        vals = {}
        for k, v in r.items():
            ck = back.get(k, "?" + k)
            if ck.startswith(("unique_id", "source_dataset")):
                continue
            vals[ck] = v
        pred.append({"l": rid(r, "_l"), "r": rid(r, "_r"), "vals": vals})
    out["predict"] = pred
    # 2. clusters at a threshold no score is near
    thr = job.get("thr")
    if thr is None:
        thr = choose_threshold([r["match_probability"] for r in rows])
    out["thr"] = thr
    cc = linker.clustering.cluster_pairwise_predictions_at_threshold(df_predict, threshold_match_probability=thr).as_record_dict()
    clus = []
    for r in cc:
        al = r[sdc] if multi else ALIASES[0]
        node = back_id.get((al, str(r[nm["uid"]])), ("?not-an-input-record", repr((al, str(r[nm["uid"]])))))
        cid = str(r["cluster_id"])
        if multi:
            a, _, u = cid.partition(impl.SEP)
            cidc = back_id.get((a, u))
        else:
            cidc = back_id.get((ALIASES[0], cid))
        clus.append((node, cidc))
    out["clusters"] = clus
    # 3. training: u from the full sample, then one EM session blocked on one column
    linker.training.estimate_u_using_random_sampling(max_pairs=1e4)
    from splink.internals.exceptions import EMTrainingException

    try:
        linker.training.estimate_parameters_using_expectation_maximisation(f'l.{q(nm[scn["em_col"]])} = r.{q(nm[scn["em_col"]])}')
        out["em"] = "ok"
    except EMTrainingException:
        out["em"] = "no_pairs"
    cms = c03.dump_cms(linker._settings_obj.core_model_settings)
    params = {"prior": cms["prior"], "comparisons": {}}
    for ci, c in enumerate(scn["comparisons"]):
        params["comparisons"][f"{c['col']}{ci}"] = cms["comparisons"][comp_out_name(scn, pres, ci)]
    out["params"] = params
    return out


run_impl_safe = core.safe(run_impl)


# --------------------------------------------------------------------------- effective key order (is orientation preserved?)
def effective_keys(scn, pres):
    """canonical record id -> the value the engine orders records by under this presentation."""
    multi = len(scn["tables"]) > 1
    out = {}
    for al, pal, rows in presented_tables(scn, pres):
        for r in rows:
            out[(al, r["canon_uid"])] = f"{pal}-__-{r['uid']}" if multi else r["uid"]
    return out


def order_preserved(scn, pres) -> bool:
    kb, kp = effective_keys(scn, BASE_PRES), effective_keys(scn, pres)
    ids = list(kb)
    return sorted(ids, key=lambda i: kb[i]) == sorted(ids, key=lambda i: kp[i])


# --------------------------------------------------------------------------- the invariance oracle (real vs real)
def tup(x):
    return tuple(tup(y) for y in x) if isinstance(x, list) else x


def swap_lr(vals):
    out = {}
    for k, v in vals.items():
        if k.endswith("_l"):
            out[k[:-2] + "_r"] = v
        elif k.endswith("_r"):
            out[k[:-2] + "_l"] = v
        else:
            out[k] = v
    return out


def val_close(k, a, b):
    if isinstance(a, float) or isinstance(b, float):
        if a is None or b is None:
            return a is None and b is None
        return core.close(float(a), float(b), 1e-9, 1e-12)
    return a == b


def partition_of(clus):
    groups = {}
    for node, cid in clus:
        groups.setdefault(tup(cid) if cid is not None else ("?", tup(node)), set()).add(tup(node))
    return {frozenset(g) for g in groups.values()}


def compare_outputs(scn, pres, base, got) -> str | None:
    """None iff `got` (already in canonical names/ids) equals `base` up to what the property allows."""
    oriented = order_preserved(scn, pres)
    with_mk = not pres.get("rule_order")
    bp = {(tup(r["l"]), tup(r["r"])): r["vals"] for r in base["predict"]}
    gp = {}
    for r in got["predict"]:
        key = (tup(r["l"]), tup(r["r"]))
        vals = r["vals"]
        if key not in bp and not oriented and (key[1], key[0]) in bp:
            key, vals = (key[1], key[0]), swap_lr(vals)
        if key in gp:
            return f"pair {key} scored twice under the re-presentation"
        gp[key] = vals
    if len(got["predict"]) != len(base["predict"]) or set(gp) != set(bp):
        extra = sorted(set(gp) - set(bp))[:3]
        missing = sorted(set(bp) - set(gp))[:3]
        return f"scored pair set differs: {len(bp)} pairs in canonical form, {len(gp)} re-presented; only re-presented {extra}, only canonical {missing}"
    for key, bv in bp.items():
        gv = gp[key]
        cols = set(bv) | set(gv)
        for k in sorted(cols):
            if k == "match_key" and not with_mk:
                continue
            if k not in bv or k not in gv:
                return f"pair {key}: column {k} present only in the {'canonical' if k in bv else 're-presented'} output"
            if not val_close(k, bv[k], gv[k]):
                return f"pair {key}: column {k} = {bv[k]!r} in canonical form, {gv[k]!r} re-presented"
    # clusters
    if partition_of(base["clusters"]) != partition_of(got["clusters"]):
        return f"cluster partition differs at threshold {base['thr']}: canonical {sorted(map(sorted, partition_of(base['clusters'])))} re-presented {sorted(map(sorted, partition_of(got['clusters'])))}"
    if oriented and sorted((tup(n), tup(c) if c else None) for n, c in base["clusters"]) != sorted((tup(n), tup(c) if c else None) for n, c in got["clusters"]):
        return "cluster ids differ although the order of ids is preserved"
    # trained parameters
    if base["em"] != got["em"]:
        return f"EM session: {base['em']} in canonical form, {got['em']} re-presented"
    d = c03.theta_close(base["params"], got["params"], 1e-7)
    if d:
        return f"trained parameters differ: {d} (canonical vs re-presented)"
    return None


# --------------------------------------------------------------------------- Lean model on base and transported inputs
def model_records(scn, pres):
    """Records of the concatenated table in presented order, canonical column keys, presented ids and aliases."""
    recs = []
    for al, pal, rows in presented_tables(scn, pres):
        for r in rows:
            recs.append({"source_dataset": pal, "unique_id": r["uid"], "a": r["a"], "b": r["b"], "c": r["c"], "canon": (al, r["canon_uid"])})
    return recs


def block_request(scn, pres):
    recs = model_records(scn, pres)
    multi = len(scn["tables"]) > 1
    keys = bg.ranks([bg.composite_key(r, multi) for r in recs])
    sds = bg.ranks([r["source_dataset"] for r in recs])
    rng = random.Random(pres.get("salt_seed", 0) + 1)
    salts = [core.f2b(rng.random()) for _ in recs]
    code = {True: 1, False: 0, None: 2}
    order = pres.get("rule_order") or list(range(len(scn["rules"])))
    rules = []
    for pos, ri in enumerate(order):
        ast = scn["rules"][ri]
        mat = [[code[bg.ev(ast, recs[l], recs[r])] for r in range(len(recs))] for l in range(len(recs))]
        if pres.get("salting") and pres["salting"][pos] > 1:
            rules.append({"kind": "salted", "n": pres["salting"][pos], "eval": mat})
        else:
            rules.append({"kind": "plain", "n": 0, "eval": mat})
    lt = scn["link_type"]
    if lt == "link_only" and len(scn["tables"]) == 2 and not pres.get("source_column"):
        lt = "two_dataset_link_only"  # the two-table split; three tables / one table with a source column: the general self-join
    return {"op": "block", "lt": lt, "m": len(recs), "key": keys, "sd": sds, "salt": salts, "rules": rules}, recs


def tf_tables(scn):
    out = {}
    for col in ("a", "b"):
        vals = [r[col] for t in scn["tables"] for r in t if r[col] is not None]
        out[col] = {v: vals.count(v) / len(vals) for v in set(vals)} if vals else {}
    return out


def score_request(scn, pairs):
    """pairs: list of (canonical l id, canonical r id) in the emitted orientation."""
    rec = {(ALIASES[ti], r["uid"]): r for ti, t in enumerate(scn["tables"]) for r in t}
    tfs = tf_tables(scn)
    ps = []
    for l, r in pairs:
        # an id that is not an input record (a real run can return one when it mangles its inputs) gets an all-NULL stand-in here;
        # the comparison of the real outputs reports it
        blank = {"a": None, "b": None, "c": None}
        x, y = rec.get(tup(l), blank), rec.get(tup(r), blank)
        guards = [[c02.guard_values(lv, x[c["col"]], y[c["col"]]) for lv in c["levels"]] for c in scn["comparisons"]]

        def tfv(rr, col):
            t = tfs[col].get(rr[col]) if rr[col] is not None else None
            return None if t is None else core.f2b(t)

        ps.append({"guards": guards, "tfl": [tfv(x, "a"), tfv(x, "b")], "tfr": [tfv(y, "a"), tfv(y, "b")]})
    return {"op": "score", "prior": core.f2b(scn["prior"]), "comparisons": c02.model_levels(scn), "pairs": ps, "thr": None}


def model_vs_real(scn, pres, real, mblock, recs, mscore) -> str | None:
    mrows = sorted((mk, recs[l]["canon"], recs[r]["canon"]) for mk, l, r in mblock["rows"])
    irows = sorted((int(p["vals"].get("match_key", 0)), tup(p["l"]), tup(p["r"])) for p in real["predict"])
    if mrows != irows:
        return f"blocked rows differ from Lean model Blocking.block: impl-only {[x for x in irows if x not in mrows][:3]} model-only {[x for x in mrows if x not in irows][:3]}"
    for p, mr in zip(real["predict"], mscore["rows"]):
        gm = [p["vals"].get(f"gamma_{c['col']}{ci}") for ci, c in enumerate(scn["comparisons"])]
        if gm != mr["gammas"]:
            return f"pair {p['l']},{p['r']}: gammas impl {gm} model {mr['gammas']}"
        if not core.close(p["vals"]["match_weight"], c02.fac(mr["weight"]), 1e-9, 1e-9) or not core.close(p["vals"]["match_probability"], core.b2f(mr["prob"]), 1e-9, 1e-12):
            return f"pair {p['l']},{p['r']}: weight/prob impl ({p['vals']['match_weight']}, {p['vals']['match_probability']}) model ({c02.fac(mr['weight'])}, {core.b2f(mr['prob'])})"
    return None


def model_invariance(scn, pres, mb_base, recs_base, mb, recs) -> str | None:
    """model(base) vs model(presented): must hold by the C13 theorems."""
    oriented = order_preserved(scn, pres)
    with_mk = not pres.get("rule_order")

    def canon(rows, rr):
        out = set()
        for mk, l, r in rows:
            a, b = rr[l]["canon"], rr[r]["canon"]
            if not oriented and b < a:
                a, b = b, a
            out.add(((mk if with_mk else 0), a, b))
        return out

    base_rows = mb_base["rows"]
    if canon(base_rows, recs_base) != canon(mb["rows"], recs) or len(base_rows) != len(mb["rows"]):
        return f"Lean model output differs between base and transported input ({len(base_rows)} vs {len(mb['rows'])} rows)"
    return None


def lr_witness(scn, base, got):
    """What the case exercises of 'the score of a pair does not depend on which record is l' (evidence only, decides nothing):
    (scored pairs emitted in the opposite orientation, those of them assigned a TF-adjusted level that is not the exact match
    whose two records have different term frequencies, those of them where tf_minimum_u_value is below both)."""
    bkeys = {(tup(r["l"]), tup(r["r"])) for r in base["predict"]}
    flipped = tf_fuzzy = tf_active = 0
    for r in got["predict"]:
        l, rr = tup(r["l"]), tup(r["r"])
        if (l, rr) in bkeys or (rr, l) not in bkeys:
            continue
        flipped += 1
        hit = act = False
        for ci, c in enumerate(scn["comparisons"]):
            g = r["vals"].get(f"gamma_{c['col']}{ci}")
            nn = [lv for lv in c["levels"] if lv["kind"] != "null"]
            if g is None or g < 0 or g >= len(nn):
                continue
            lv = nn[len(nn) - 1 - g]
            tl, tr = r["vals"].get(f"tf_{c['col']}_l"), r["vals"].get(f"tf_{c['col']}_r")
            if "tf" in lv and lv["kind"] != "eq" and tl is not None and tr is not None and tl != tr:
                hit = True
                if lv["tf"]["weight"] != 0 and lv["tf"]["minU"] < max(tl, tr):
                    act = True
        tf_fuzzy += hit
        tf_active += act
    return flipped, tf_fuzzy, tf_active


# --------------------------------------------------------------------------- driver
def kinds_label(pres):
    return "+".join(sorted(k.partition(":")[0] for k in pres["kinds"])) if len(pres["kinds"]) > 1 else pres["kinds"][0]


def failure_info(scn, pres, what):
    fams = sorted({k.partition(":")[0] for k in pres["kinds"]})
    cls = what.split(":")[0][:60]
    for pat, c in [("real code raised", "real code raised"), ("scored pair set differs", "scored pair set differs"), ("scored twice", "pair scored twice"),
                   ("present only in", "predict column missing or extra"), ("in canonical form,", "predict column value differs"), ("cluster partition differs", "cluster partition differs"),
                   ("cluster ids differ", "cluster ids differ"), ("EM session", "EM session outcome differs"), ("trained parameters differ", "trained parameters differ")]:
        if pat in what:
            cls = c
            break
    info = {"failure": cls, "representation": "+".join(fams), "engine": scn["engine"]}
    if pres.get("sdcol"):  # stable keys for a failure that follows the renamed source dataset column through every combination
        info["source_dataset_column"] = "needs quoting" if not pres["sdcol"].isidentifier() else "plain identifier"
        info["two_table_link_only_split"] = scn["link_type"] == "link_only" and len(scn["tables"]) == 2 and not pres.get("source_column")
    if cls == "real code raised":
        info["error"] = what.split("real code raised ", 1)[1].split(" ", 1)[0].rstrip(":")
    return info


def minimise(scn, pres, thr):
    """Shrink a failing (scenario, presentation): fewer presentation kinds, then fewer records / rules / comparisons."""

    def fails(s, p):
        b = run_impl_safe({"scn": s, "pres": dict(BASE_PRES, kinds=[]), "thr": None})
        if "__error__" in b:
            return None
        g = run_impl_safe({"scn": s, "pres": p, "thr": b["thr"]})
        if "__error__" in g:
            core.impl_error(g)
            return f"real code raised {g['__error__']}: {g['text'][:300]}"
        return compare_outputs(s, p, b, g)

    cur_s, cur_p = json.loads(json.dumps(scn)), json.loads(json.dumps(pres))
    cur_s["rules"] = [tup(r) for r in cur_s["rules"]]
    budget = 40
    # presentation kinds
    field_of = {"row_perm": ["row_seed"], "names": ["names"], "uidname": ["uidname"], "outnames": ["outnames"], "ids": ["idmap", "idtype"], "flags": ["flags"],
                "debug": ["debug"], "table_order": ["table_order"], "col_order": ["col_order"], "source_column": ["source_column"], "rule_order": ["rule_order"], "threads": ["threads"], "salting": ["salting", "salt_seed"],
                "sdnames": ["sdnames"], "sdcol": ["sdcol"], "input_form": ["input_form"]}
    if len(cur_p["kinds"]) > 1:
        for kind in list(cur_p["kinds"]):
            cand = dict(cur_p)
            for f in field_of[kind.partition(":")[0]]:
                cand.pop(f, None)
            cand["kinds"] = [k for k in cur_p["kinds"] if k != kind]
            if not cand["kinds"]:
                continue
            if kind == "outnames" and not any(k.startswith("names:") for k in cand["kinds"]):
                cand.pop("names", None)  # the column names `outnames` brought along
            budget -= 1
            if fails(cur_s, cand):
                cur_p = cand
    changed = True
    while changed and budget > 0:
        changed = False
        for ti in range(len(cur_s["tables"])):
            for ri in range(len(cur_s["tables"][ti]) - 1, -1, -1):
                if budget <= 0 or len(cur_s["tables"][ti]) <= 1:
                    break
                cand = json.loads(json.dumps(cur_s))
                cand["rules"] = [tup(r) for r in cand["rules"]]
                del cand["tables"][ti][ri]
                budget -= 1
                if fails(cand, cur_p):
                    cur_s, changed = cand, True
        if not cur_p.get("rule_order") and not cur_p.get("salting"):
            for k in range(len(cur_s["rules"]) - 1, -1, -1):
                if budget <= 0:
                    break
                cand = dict(cur_s, rules=cur_s["rules"][:k] + cur_s["rules"][k + 1:])
                budget -= 1
                if fails(cand, cur_p):
                    cur_s, changed = cand, True
    return cur_s, cur_p, fails(cur_s, cur_p)


def normalise(scn):
    s = dict(scn)
    s["rules"] = [tup(r) for r in scn["rules"]]
    return s


def evaluate(ctx, work, drv):
    """work: list of (scenario, [presentations]).  Returns problems [(scn, pres, what, concrete)]."""
    base_jobs = [{"scn": s, "pres": dict(BASE_PRES, kinds=[]), "thr": None} for s, _ in work]
    bases = core.pmap(run_impl_safe, base_jobs, chunksize=1)
    problems = []
    jobs, owner = [], []
    for si, ((scn, press), b) in enumerate(zip(work, bases)):
        if core.impl_error(b):
            ctx.count("base_impl_error", b["__error__"])
            problems.append((scn, {"kinds": ["(canonical form)"]}, f"real code raised {b['__error__']} on the canonical form: {b['text'][:300]}", True))
            continue
        for p in press:
            jobs.append({"scn": scn, "pres": p, "thr": b["thr"]})
            owner.append(si)
    res = core.pmap(run_impl_safe, jobs, chunksize=1)
    # model requests: base + each presentation
    reqs, slots = [], []
    for si, ((scn, _), b) in enumerate(zip(work, bases)):
        if "__error__" in b:
            continue
        rb, recs_b = block_request(scn, BASE_PRES)
        reqs += [rb, score_request(scn, [(p["l"], p["r"]) for p in b["predict"]])]
        slots.append(("base", si, recs_b))
    for j, (job, r) in enumerate(zip(jobs, res)):
        if "__error__" in r:
            continue
        rb, recs = block_request(job["scn"], job["pres"])
        reqs += [rb, score_request(job["scn"], [(p["l"], p["r"]) for p in r["predict"]])]
        slots.append(("pres", j, recs))
    mres = drv.pbatch(reqs)
    for m in mres:
        if "error" in m:
            raise core.HarnessError("model driver error: " + m["error"])
    mbase = {}
    k = 0
    pres_model = {}
    for kind, idx, recs in slots:
        if kind == "base":
            mbase[idx] = (mres[k], recs, mres[k + 1])
        else:
            pres_model[idx] = (mres[k], recs, mres[k + 1])
        k += 2
    # base: model vs real (correspondence on the canonical form)
    for si, ((scn, _), b) in enumerate(zip(work, bases)):
        if "__error__" in b:
            continue
        mb, recs_b, ms = mbase[si]
        d = model_vs_real(scn, BASE_PRES, b, mb, recs_b, ms)
        if d:
            problems.append((scn, {"kinds": ["(canonical form)"]}, "canonical form: " + d, False))
    for j, (job, r) in enumerate(zip(jobs, res)):
        scn, pres = job["scn"], job["pres"]
        si = owner[j]
        b = bases[si]
        lab = kinds_label(pres)
        nontrivial = len(b["predict"]) >= 1
        ctx.case({"scn": scn, "pres": pres}, nontrivial,
                 sample={"scenario": scn, "presentation": pres, "n_pairs": len(b["predict"])} if sum(len(t) for t in scn["tables"]) <= 5 else None)
        for kd in pres["kinds"]:
            ctx.count("representation", kd)
        ctx.count("combination_size", len(pres["kinds"])); ctx.count("engine", scn["engine"]); ctx.count("link_type", scn["link_type"])
        ctx.count("n_rules", len(scn["rules"])); ctx.count("n_scored_pairs", len(b["predict"]) if len(b["predict"]) < 4 else "4-15" if len(b["predict"]) <= 15 else ">15")
        ctx.count("orientation_preserved", order_preserved(scn, pres)); ctx.count("em", b["em"])
        ctx.count("has_tf", any("tf" in l for c in scn["comparisons"] for l in c["levels"]))
        tfl = [l for c in scn["comparisons"] for l in c["levels"] if "tf" in l and l["kind"] != "eq"]
        ctx.count("tf_on_non_exact_level", "none" if not tfl else "+".join(sorted({"min_u=0" if l["tf"]["minU"] == 0 else "min_u>0" for l in tfl})))
        ctx.count("family", scn.get("tag", "random")); ctx.count("n_tables", len(scn["tables"])); ctx.count("additional_columns_to_retain", bool(scn.get("extra")))
        ctx.count("input_form", pres.get("input_form", "frames") + ("+source_column" if pres.get("source_column") else ""))
        ctx.count("id_type", pres.get("idtype", "int"))
        if len(scn["tables"]) > 1:
            ctx.count("source_dataset_names", pres.get("sdnames", "canonical") + ("" if not pres.get("sdcol") else "+column renamed"))
        if "__error__" not in r:
            nf, ntf, nact = lr_witness(scn, b, r)
            ctx.count("scored_pairs_with_l_r_swapped", 0 if nf == 0 else "1-3" if nf <= 3 else ">3")
            ctx.count("swapped_pair_in_tf_adjusted_non_exact_level_with_tf_l!=tf_r", "no" if ntf == 0 else "yes, adjustment inactive (weight 0 / min_u above both)" if nact == 0 else "yes, adjustment active")
        if core.impl_error(r):
            ctx.count("impl_error", f"{lab}: {r['__error__']}")
            problems.append((scn, pres, f"real code raised {r['__error__']} under the re-presentation (canonical form runs): {r['text'][:300]}", True))
            continue
        d = compare_outputs(scn, pres, b, r)
        if d:
            problems.append((scn, pres, d, True))
            continue
        mb, recs, ms = pres_model[j]
        mb0, recs0, _ = mbase[si]
        d = model_invariance(scn, pres, mb0, recs0, mb, recs)
        if d:
            raise core.HarnessError(f"transport of inputs is wrong (the C13 theorems exclude this): {d}; presentation {pres}")
        d = model_vs_real(scn, pres, r, mb, recs, ms)
        if d:
            problems.append((scn, pres, d, False))
            continue
        ctx.traces_validated += 1
    return problems


def gen_work(ctx, rng, n_scn, n_single, n_combo, n_lr=None):
    work = []
    for i in range(n_scn):
        scn = gen_scenario(rng)
        work.append((scn, gen_presentations(rng, scn, n_single, n_combo, start=i * n_single)))
    # family lr_features x orientation-changing re-presentations
    for i in range(n_scn // 3 if n_lr is None else n_lr):
        scn = gen_scenario_lr(rng)
        work.append((scn, gen_flip_presentations(rng, scn, n_single - 2, n_combo, start=i * (n_single - 2))))
    return work


def run(ctx: core.Ctx):
    ctx.rule = (
        "base scenarios = 1 table (dedupe_only, 4-9 records), 2 tables (link_only / link_and_dedupe, 2-6 records each) or 3 tables (2-4 records each), overlapping int ids, tiny string/int domains, NULL rate 0-25%, "
        "0-3 blocking rules symmetric in l/r over eq/substr/AND/OR/NOT, 2-3 comparisons (exact / levenshtein / abs-diff, null level 85%, TF adjustments 60%), duckdb 75% / sqlite 25%; "
        "each scenario is run once canonically (lower-case names, int ids, frames with explicit aliases ta/tb/tc) and once per re-presentation: row permutation, table order (aliases attached), column names "
        "(Mixed, UPPER, with spaces, SQL keywords, mixture; unique-id column renamed; output_column_name renamed; source_dataset_column_name renamed), ids relabelled (order preserving / order reversing / arbitrary bijection) and retyped "
        "(int -> zero-padded str, int -> unpadded str where '10' < '9'), source datasets renamed (same order / opposite order / no aliases = Splink's positional names, alone and with the table order swapped), "
        "input form (frames vs names of tables registered in the database beforehand, with / without aliases), two-three tables vs one table with a source dataset column (its values renamed too), rule order, "
        "salting 1-8 partitions per rule (twice), materialise_* flags of predict, debug mode, duckdb threads 1/4/16; singles (round-robin over scenarios) + random combinations of 2-5. "
        "Family lr_features (1/4 of the scenarios): every string column carries a levenshtein ladder (exact + lev<=1 [+ lev<=2], or lev<=1 alone) with TF adjustments on the NON-exact levels (weight 1/fractional/0, "
        "tf_minimum_u_value absent/0/0.01/0.2, exact-match detection on/off), value frequencies skewed so that the two records of a fuzzy pair have different term frequencies, strings incl. '' and distance-2 neighbours; "
        "it is re-presented only in ways under which at least one pair of records changes its l/r order (decided on the presented keys), alone and combined with 1-3 other kinds. "
        "Compared: scored pair set with match_key, every predict column (a pair emitted the other way round: with _l/_r columns exchanged), cluster partition "
        "(and cluster ids when id order is preserved) at a threshold away from every score, parameters after estimate_u(full sample) + one EM session (4 iterations). "
        "non-trivial = at least one scored pair; distinct = hash of (scenario, presentation)."
    )
    ctx.assumptions = [
        "the oracle is the invariance itself: real output under a re-presentation, mapped back to canonical names/ids, vs real output in canonical form (floats: 1e-9 relative for predict columns, 1e-7 for trained parameters)",
        "blocking rules are symmetric in l/r (for asymmetric rules the property only gives the C01 bounds); comparison levels used are symmetric (asymmetric custom levels are out of scope), so a flipped orientation (id relabelling / retyping, source dataset renaming, table order without aliases) must give the same gammas, Bayes factors (incl. bf_tf_adj_*) and scores, with the _l/_r columns exchanged",
        "when the order of the effective ids changes (arbitrary bijection; retyping under composite string ids; renamed source datasets) unordered pairs and cluster partitions are compared, not orientation or cluster_id values; the orientation itself is checked against the Lean blocking model run on the presented keys",
        "rule reordering: pair sets compared without match_key; EM: convergence threshold 1e-12 and 4 iterations so that rounding cannot change the iteration count",
        "thread count, materialisation flags, debug mode and the input form (frames vs registered table names) are runtime behaviour outside the models: covered by repetition only (level partial for scheduling)",
        "debug mode is compared on outputs only (its table-name clobbering is K3 / C18)",
        "source dataset names are plain identifiers of equal length class (no name is a prefix of another), so that the order of composite ids is the order of (source dataset, id)",
    ]
    ctx.lean = core.lean_check(PROP, ctx.thorough)
    drv = core.Driver()
    from harness import graphs

    if ctx.replay:
        rep = json.loads(open(ctx.replay).read())["replay"]
        work = [(normalise(rep["scenario"]), [rep["presentation"]])]
    else:
        work = [(normalise(c["scenario"]), [c["presentation"]]) for c in graphs.load_corpus(PROP)]
        work += gen_work(ctx, ctx.rng, ctx.budget(60, 400), 9 if not ctx.thorough else 24, 3 if not ctx.thorough else 8)
    problems = evaluate(ctx, work, drv)
    if (not ctx.lean.ok or any(not conc for *_, conc in problems)) and not ctx.replay:
        ctx.notes.append("proof or correspondence broke: ran the widened failing-input search")
        problems += evaluate(ctx, gen_work(ctx, random.Random(ctx.seed + 7919), 120, 9, 3), drv)
    concrete = [(s, p, w) for s, p, w, conc in problems if conc]
    broken = [(s, p, w) for s, p, w, conc in problems if not conc]
    reported = set()
    # at most 5 reports; one per failure class first, so that many variants of one failure cannot crowd out another failure
    first_of_class, rest, classes = [], [], set()
    for item in concrete:
        mi = failure_info(*item)
        cls = (mi["failure"], mi.get("error"))
        (rest if cls in classes else first_of_class).append(item)
        classes.add(cls)
    for s, p, w in first_of_class + rest:
        mi = failure_info(s, p, w)
        key = json.dumps(mi, sort_keys=True)
        if key in reported or len(reported) >= 5:
            continue
        reported.add(key)
        if p["kinds"] == ["(canonical form)"]:
            ctx.violation("real code fails on the canonical form of a C13 scenario: " + mi["failure"], {"scenario": s, "presentation": dict(BASE_PRES, kinds=[]), "detail": w}, kind="concrete", match_info=mi)
            continue
        s2, p2, w2 = minimise(s, p, None) if not ctx.replay and not str(s.get("tag", "")).startswith("corpus") else (s, p, w)
        if not w2:
            s2, p2, w2 = s, p, w
        b = run_impl_safe({"scn": s2, "pres": dict(BASE_PRES, kinds=[]), "thr": None})
        g = run_impl_safe({"scn": s2, "pres": p2, "thr": b.get("thr")})
        mi2 = failure_info(s2, p2, w2)
        ctx.violation(f"real output violates C13: not invariant under [{mi2['representation']}]: {mi2['failure']}",
                      {"scenario": s2, "presentation": p2, "settings_canonical": settings_dict(s2, BASE_PRES), "settings_represented": settings_dict(s2, p2),
                       "detail": w2, "output_canonical": b, "output_represented": g}, kind="concrete", match_info=mi2)
    if not ctx.violations:  # no NEW concrete violation (none at all, or only ones a registered known finding describes)
        if broken:
            s, p, w = broken[0]
            ctx.violation("correspondence Blocking/Score models <-> predict() no longer checks under re-presentation",
                          {"correspondence": "harness/props/c13.py model_vs_real(): " + w, "scenario": s, "presentation": p, "disagreeing_cases": len(broken), "searched_cases": ctx.evaluations, "lean": ctx.lean.as_dict()}, kind="unproved")
        elif not ctx.lean.ok:
            ctx.violation("Lean obligations for C13 no longer check",
                          {"theorems": ctx.lean.as_dict()["undischarged"], "problems": ctx.lean.problems, "build_log_tail": ctx.lean.build_log[-1500:], "searched_cases": ctx.evaluations}, kind="unproved")
