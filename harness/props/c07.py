"""C07 — results never depend on what ran before (cache soundness).

Lean: Model/Cache.lean (the table-cache state machine and the realtime SQL cache); Properties/C07.lean proves cache
transparency for every history under hash injectivity, the naming discipline and no silent data change, that
invalidate_cache() makes results reflect new data, and the soundness condition of the realtime cache key.
Tie: (a) random operation histories on a real linker; after every step predict() must equal the predict() of a fresh
linker built from the saved model on the current data (oracle = the property itself); (b) the ordered
request / named-store / drop / invalidate events observed in the real DatabaseAPI are replayed through the compiled Lean
state machine, which must predict every cache hit and miss; (c) realtime compare_records: every call sequence of
length <= 3 over settings objects/dicts x include_found_by_blocking_rules x cache mode, with vs without cache.
"""
from __future__ import annotations

import itertools
import json
import random

from harness import core, histories as H
from harness.props import c02

PROP = "C07"


# --------------------------------------------------------------------------- (a)+(b) histories
def run_history(case: dict) -> dict:
    from harness import impl

    world, hist = case["world"], case["history"]
    api = impl.make_api(world["engine"], threads=2)
    log = H.instrument(api)
    linker = H.make_linker(world, api)
    state: dict = {}
    steps = []
    for si, step in enumerate(hist):
        rec = {"op": step["op"]}
        try:
            rec["result"] = H.apply_op(linker, world, step, state)
        except Exception as e:  # noqa: BLE001
            import traceback

            tb = traceback.format_exc()
            if f'File "{core.REPO}/' not in tb:
                raise
            rec["raised"] = f"{type(e).__name__}: {str(e)[:200]}"
            steps.append(rec)
            # a raising call is C08's business; this history ends here
            break
        prior = linker._settings_obj._probability_two_random_records_match
        if prior in (0, 0.0, 1, 1.0):
            # estimate_probability_two_random_records_match found no (or only) matches: predict() then raises loudly
            # (log2 of zero) - outside C02/C07's quantifier (0 < prior < 1); the history ends here
            rec["excluded"] = "degenerate prior"
            steps.append(rec)
            break
        mine = H.predict_rows(linker)
        ref = H.fresh_reference(linker, world, state)
        rec["n_pairs"] = len(mine)
        d = diff_predict(mine, ref)
        if d:
            rec["diff"] = d
            steps.append(rec)
            break
        steps.append(rec)
    events = [dict(e) for e in log["events"]]
    return {"steps": steps, "events": events, "phys": {k: list(v) for k, v in log["phys"].items()}}


run_history_safe = core.safe(run_history)


def diff_predict(a, b):
    if set(a) != set(b):
        return f"pair sets differ: only with history {sorted(set(a) - set(b))[:3]}, only fresh {sorted(set(b) - set(a))[:3]}"
    for k in a:
        for col in a[k]:
            x, y = a[k][col], b[k].get(col)
            if isinstance(x, float) or isinstance(y, float):
                if not core.close(x, y, 1e-9, 1e-12):
                    return f"pair {k} column {col}: {x} (after the history) vs {y} (fresh linker)"
            elif x != y:
                return f"pair {k} column {col}: {x} (after the history) vs {y} (fresh linker)"
    return None


def trace_request(events, phys):
    """Encode the observed cache events for the Lean state machine; returns (request, observed hits)."""
    codes: dict = {}

    def code(x):
        return codes.setdefault(x, len(codes))

    # the DatabaseAPI's uid never changes (model uid = 0); tables the caller registered get a foreign uid
    api_uids = {e["uid"] for e in events if e["k"] == "req"}
    if len(api_uids) > 1:
        raise core.HarnessError(f"the DatabaseAPI cache uid changed during a history: {api_uids}")
    uid_codes: dict = {u: 0 for u in api_uids}
    uid_codes["user"] = 1
    out, hits = [], []
    known = dict(phys)
    for e in events:
        k = e["k"]
        if k == "req":
            if e.get("debug"):
                return None, None  # debug mode bypasses the cache protocol
            uid_codes.setdefault(e["uid"], len(uid_codes))
            out.append({"k": "req", "templ": code("T:" + e["templ"]), "text": code("S:" + e["text"]), "use_cache": bool(e["use_cache"])})
            hits.append(bool(e["hit"]))
        elif k == "set_named":
            ph = known.get(e["phys"])
            if ph is None:
                # a table the caller registered (not produced by a request): give it a private identity
                ph = (e["phys"], "user:" + e["phys"], "user")
            out.append({"k": "set_named", "templ": code("T:" + e["templ"]), "ptempl": code("T:" + ph[0]), "ptext": code("S:" + ph[1]),
                        "puid": uid_codes.setdefault(ph[2], len(uid_codes))})
        elif k == "drop":
            ph = known.get(e["phys"])
            if ph is None:
                continue
            out.append({"k": "drop", "templ": code("T:" + ph[0]), "text": code("S:" + ph[1]), "uid": uid_codes.setdefault(ph[2], len(uid_codes))})
        elif k == "forget_named":
            out.append({"k": "forget_named", "templ": code("T:" + e["templ"])})
        elif k == "invalidate":
            out.append({"k": "invalidate"})
    # the model's uid is a counter starting at 0 and incremented by invalidate: uid codes were assigned in order of first use
    return {"op": "cache_trace", "events": out}, hits


def gen_history_case(rng, ops=None, length=None):
    world = H.gen_world(rng)
    return {"world": world, "history": H.gen_history(rng, world, length=length or rng.randint(2, 7), ops=ops), "tag": "history"}


# --------------------------------------------------------------------------- (c) realtime
def realtime_case(rng):
    world = H.gen_world(rng, engine=rng.choice(["duckdb", "sqlite"]), tf=False)
    world["rules"] = ["l.d = r.d"]
    r1 = {"unique_id": 1, "a": rng.choice(c02.STR_DOM[:4]), "b": "ann", "c": 1, "d": "p", "lab": None}
    r2 = {"unique_id": 2, "a": rng.choice(c02.STR_DOM[:4]), "b": "anne", "c": 2, "d": rng.choice(["p", "q"]), "lab": None}
    # mix*: settings DICTS that hold library creator objects (not JSON-serialisable: the cache key takes its fall-back path);
    # same creator classes in the same positions, differing only in their arguments (column / thresholds / m probabilities)
    kinds = ["creatorA", "creatorB", "dictA", "dictB", "mixA", "mixB", "mixC"]
    seqs = []
    for n in (1, 2, 3):
        for combo in itertools.product(range(len(kinds) * 2), repeat=n):
            seqs.append([(kinds[c // 2], bool(c % 2)) for c in combo])
    rng.shuffle(seqs)
    return {"world": world, "r1": r1, "r2": r2, "seqs": seqs[:40], "tag": "realtime"}


def run_realtime(case):
    from splink import SettingsCreator
    from splink.internals import realtime

    from harness import impl

    world = case["world"]
    sdA = H.settings_dict(world)
    wB = json.loads(json.dumps(world))
    for c in wB["comparisons"]:
        for l in c["levels"]:
            if "m" in l:
                l["m"] = round(min(0.99, l["m"] * 0.7 + 0.01), 6)
    sdB = H.settings_dict(wB)
    for d in (sdA, sdB):
        d.pop("max_iterations", None); d.pop("em_convergence", None)
    out = []
    for seq in case["seqs"]:
        realtime._sql_cache = realtime.SQLCache()
        import splink.comparison_library as cl

        def mix(c1, c2, thr, ms):
            return {"link_type": "dedupe_only", "blocking_rules_to_generate_predictions": list(world["rules"]), "probability_two_random_records_match": world["prior"],
                    "retain_matching_columns": True, "retain_intermediate_calculation_columns": True,
                    "comparisons": [cl.ExactMatch(c1).configure(m_probabilities=ms, u_probabilities=[0.2, 0.8]), cl.LevenshteinAtThresholds(c2, thr)]}

        objs = {"creatorA": SettingsCreator(**json.loads(json.dumps(sdA))), "creatorB": SettingsCreator(**json.loads(json.dumps(sdB))),
                "dictA": json.loads(json.dumps(sdA)), "dictB": json.loads(json.dumps(sdB)),
                "mixA": mix("a", "b", [1], [0.9, 0.1]), "mixB": mix("b", "a", [2], [0.9, 0.1]), "mixC": mix("a", "b", [1], [0.6, 0.4])}
        api = impl.make_api(world["engine"], threads=1)
        res = []
        for kind, flag in seq:
            with_cache = realtime.compare_records(case["r1"], case["r2"], objs[kind], api, use_sql_from_cache=True, include_found_by_blocking_rules=flag).as_record_dict()
            without = realtime.compare_records(case["r1"], case["r2"], objs[kind], impl.make_api(world["engine"], threads=1), use_sql_from_cache=False, include_found_by_blocking_rules=flag).as_record_dict()
            res.append({"call": [kind, flag], "cached": canon_row(with_cache), "uncached": canon_row(without)})
        out.append(res)
    return {"runs": out}


def canon_row(rows):
    if not rows:
        return None
    r = rows[0]
    return {k: (round(v, 12) if isinstance(v, float) else v) for k, v in sorted(r.items())}


run_realtime_safe = core.safe(run_realtime)


def realtime_verdict(r):
    for run in r["runs"]:
        for i, call in enumerate(run):
            if call["cached"] != call["uncached"]:
                missing = sorted(set(call["uncached"] or {}) - set(call["cached"] or {}))
                extra = sorted(set(call["cached"] or {}) - set(call["uncached"] or {}))
                return (f"compare_records call #{i + 1} {call['call']} of the sequence {[c['call'] for c in run]} differs with the SQL cache: "
                        f"columns missing {missing} extra {extra}" if (missing or extra) else
                        f"compare_records call #{i + 1} {call['call']} of {[c['call'] for c in run]}: values differ with the SQL cache")
    return None


# --------------------------------------------------------------------------- driver
def classify(what):
    for pat, cls in [("with the SQL cache", "realtime compare_records differs with its SQL cache"), ("(after the history)", "predict() after a history differs from a fresh linker"),
                     ("pair sets differ", "predict() after a history differs from a fresh linker"), ("raised", "operation raised")]:
        if pat in what:
            return cls
    return what[:60]


def run(ctx: core.Ctx):
    ctx.rule = (
        "cases = (a,b) random histories of 2-7 operations (thorough: up to 12) over {estimate_u, estimate_m_from_label_column, EM(rule), estimate_prior, predict(threshold?), deterministic_link, cluster, "
        "compute_tf_table, register_term_frequency_lookup, find_matches_to_new_records, compare_two_records, compute_graph_metrics, invalidate_cache, mutate-input+invalidate_cache, "
        "delete_tables_created_by_splink_from_db} on one linker over a real table (6-12 records, 2-3 comparisons, TF on exact levels), duckdb+sqlite; after EVERY step predict() is compared with a fresh linker "
        "(new database, current data, saved model, same registered lookups) and the observed cache events are replayed through the Lean state machine; "
        "(c) realtime compare_records: sampled call sequences of length 1-3 over 2 SettingsCreator objects + 2 plain dicts + 3 dicts holding library creator objects (same classes, different arguments) x both flag values, cached vs uncached. "
        "non-trivial = history with >= 3 steps that reuses a cached table (at least one hit) / any realtime case; distinct = hash of the case."
    )
    ctx.assumptions = [
        "one linker per DatabaseAPI; input data change only together with invalidate_cache(); registered TF lookups are part of the linker's inputs and are given to the fresh reference linker too",
        "sha256-based physical names are collision free on a run (HashInj)",
        "a history ends at the first raising call (failure atomicity is C08)",
    ]
    ctx.lean = core.lean_check(PROP, ctx.thorough)
    drv = core.Driver()
    rng = ctx.rng
    if ctx.replay:
        body = json.loads(open(ctx.replay).read())["replay"]["case"]
        cases = [body]
    else:
        from harness import graphs

        n_hist = ctx.budget(70, 1200)
        cases = graphs.load_corpus(PROP) + [gen_history_case(rng, length=rng.randint(2, 12 if ctx.thorough else 7)) for _ in range(n_hist)]
        cases += [realtime_case(rng) for _ in range(ctx.budget(6, 60))]
    hist_cases = [c for c in cases if "seqs" not in c]
    rt_cases = [c for c in cases if "seqs" in c]
    res = core.pmap(run_history_safe, hist_cases, chunksize=1)
    rt_res = core.pmap(run_realtime_safe, rt_cases, chunksize=1)
    concrete, broken = [], []
    reqs, owners = [], []
    for c, r in zip(hist_cases, res):
        if core.impl_error(r):
            concrete.append((c, f"real code raised outside an operation: {r['__error__']}: {r['text'][:200]}", r))
            continue
        hits = sum(1 for e in r["events"] if e["k"] == "req" and e["hit"])
        ctx.case({"world": c["world"], "history": c["history"]}, len(r["steps"]) >= 3 and hits >= 1,
                 sample={"history": [s["op"] for s in c["history"]], "engine": c["world"]["engine"], "steps": r["steps"], "n_cache_events": len(r["events"])} if len(c["history"]) <= 4 else None)
        ctx.count("engine", c["world"]["engine"]); ctx.count("history_length", len(c["history"]))
        for s in r["steps"]:
            ctx.count("op", s["op"])
            if "raised" in s:
                ctx.count("op_raised", s["op"] + ": " + s["raised"][:60])
            if "excluded" in s:
                ctx.count("excluded", s["excluded"])
        ctx.count("cache_hits_in_history", hits if hits < 5 else "5-20" if hits <= 20 else ">20")
        bad = next((s for s in r["steps"] if "diff" in s), None)
        if bad:
            idx = r["steps"].index(bad)
            concrete.append((c, f"after step {idx + 1} ({bad['op']}) of {[s['op'] for s in c['history'][: idx + 1]]}: {bad['diff']}", r))
            continue
        req, obs = trace_request(r["events"], {k: tuple(v) for k, v in r["phys"].items()})
        if req is not None:
            reqs.append(req); owners.append((c, obs))
    for (c, obs), m in zip(owners, drv.pbatch(reqs) if reqs else []):
        if "error" in m:
            raise core.HarnessError("model driver error: " + m["error"])
        if m["hits"] != obs:
            k = next(i for i, (a, b) in enumerate(zip(m["hits"], obs)) if a != b)
            broken.append((c, f"cache hit/miss #{k} of the observed request sequence: real {obs[k]} vs Lean Cache.request {m['hits'][k]} ({len(obs)} requests)"))
        else:
            ctx.traces_validated += 1
    for c, r in zip(rt_cases, rt_res):
        if core.impl_error(r):
            concrete.append((c, f"realtime compare_records raised: {r['__error__']}: {r['text'][:200]}", r))
            continue
        ctx.case({"world": c["world"], "seqs": c["seqs"]}, True, sample={"realtime_sequences": c["seqs"][:3]})
        ctx.count("realtime_sequences", len(c["seqs"]))
        v = realtime_verdict(r)
        if v:
            concrete.append((c, v, None))
    reported = set()
    for c, w, r in concrete:
        cls = classify(w)
        if cls in reported or len(reported) >= 4:
            continue
        reported.add(cls)
        if "history" in c and not c.get("tag", "").startswith("corpus"):
            c = shrink_history(c)
            rr = run_history_safe(c)
            bad = next((s for s in rr.get("steps", []) if "diff" in s), None)
            if bad:
                w = f"after step {rr['steps'].index(bad) + 1} ({bad['op']}) of {[s['op'] for s in c['history']]}: {bad['diff']}"
        ops = [s["op"] for s in c.get("history", [])]
        ctx.violation("real behaviour violates C07: " + cls, {"case": c, "detail": w}, kind="concrete",
                      match_info={"failure": cls, "last_ops": ops[-2:] if ops else None})
    if not concrete:
        if broken:
            c, w = broken[0]
            ctx.violation("correspondence Cache model <-> DatabaseAPI cache no longer checks",
                          {"correspondence": "harness/props/c07.py trace replay: " + w, "case": {"history": [s["op"] for s in c["history"]], "engine": c["world"]["engine"]},
                           "disagreeing_cases": len(broken), "searched_cases": ctx.evaluations, "lean": ctx.lean.as_dict()}, kind="unproved")
        elif not ctx.lean.ok:
            ctx.violation("Lean obligations for C07 no longer check",
                          {"theorems": ctx.lean.as_dict()["undischarged"], "problems": ctx.lean.problems, "build_log_tail": ctx.lean.build_log[-1500:], "searched_cases": ctx.evaluations}, kind="unproved")


def history_fails(case):
    r = run_history_safe(case)
    return "__error__" in r or any("diff" in s for s in r["steps"])


def shrink_history(case):
    cur = json.loads(json.dumps(case))
    # cut after the failing step, then drop earlier steps one at a time
    r = run_history_safe(cur)
    if "steps" in r:
        cur["history"] = cur["history"][: len(r["steps"])]
    budget = 12
    k = len(cur["history"]) - 2
    while k >= 0 and budget > 0:
        cand = json.loads(json.dumps(cur))
        del cand["history"][k]
        budget -= 1
        if history_fails(cand):
            cur = cand
        k -= 1
    return cur
