"""C07 — results never depend on what ran before (cache soundness).

Lean: Model/Cache.lean (the table-cache state machine and the realtime SQL cache); Properties/C07.lean proves cache
transparency for every history under hash injectivity, the naming discipline and no silent data change, that
invalidate_cache() makes results reflect new data, and the soundness condition of the realtime cache key.
Tie: (a) random operation histories on a real linker; after every step predict() must equal the predict() of a fresh
linker built from the saved model on the current data (oracle = the property itself); (b) the ordered
request / named-store / drop / invalidate events observed in the real DatabaseAPI are replayed through the compiled Lean
state machine, which must predict every cache hit and miss; (c) realtime compare_records: every call sequence of
length <= 3 over settings objects/dicts x include_found_by_blocking_rules x cache mode, with vs without cache (extended cases: settings
needing term frequencies, settings given as paths, one sequence over DatabaseAPIs of two dialects); (d) new-record histories:
register_term_frequency_lookup (terms the data lack, values unrelated to the data) mixed with compare_two_records,
find_matches_to_new_records, compute_tf_table, predict, training, invalidate_cache ... WITHOUT a normalising predict() after every
step; the output of every new-record / tf-table / deterministic_link call is compared with the same call on a fresh linker and the
term frequencies in it are recomputed by hand; (e) re-registration histories: a table is replaced under its name THROUGH Splink
(register_table_predict / register_table(df, name) / register_labels_table / register_table_input_nodes_concat_with_tf /
register_term_frequency_lookup with overwrite=True, a second Linker over new frames on the same DatabaseAPI) and the computations derived
from it run before and after the replacement; every derived output is compared with the same call on a fresh linker that has the
CURRENT tables registered, and results kept from before must still read as they were.  The replacement re-draws the salt of the hashed
table names (repair 4551b8fa): the trace replay (b) codes the n-th salt as the model's uid n and emits a `resalt` event (Lean
Cache.resalt / Cache.reregister, theorem C07.reregistration_reflects_new_data).
"""
from __future__ import annotations

import itertools
import json
import random

from harness import core, histories as H
from harness.props import c02

PROP = "C07"


# --------------------------------------------------------------------------- (a)+(b) histories
def run_history(case: dict) -> dict:
    from harness import impl

    world, hist = case["world"], case["history"]
    api = impl.make_api(world["engine"], threads=2)
    log = H.instrument(api)
    linker = H.make_linker(world, api)
    state: dict = {}
    steps = []
    for si, step in enumerate(hist):
        rec = {"op": step["op"]}
        try:
            rec["result"] = H.apply_op(linker, world, step, state)
        except Exception as e:  # noqa: BLE001
            import traceback

            tb = traceback.format_exc()
            if f'File "{core.REPO}/' not in tb:
                raise
            rec["raised"] = f"{type(e).__name__}: {str(e)[:200]}"
            steps.append(rec)
            # a raising call is C08's business; this history ends here
            break
        prior = linker._settings_obj._probability_two_random_records_match
        if prior in (0, 0.0, 1, 1.0):
            # estimate_probability_two_random_records_match found no (or only) matches: predict() then raises loudly
            # (log2 of zero) - outside C02/C07's quantifier (0 < prior < 1); the history ends here
            rec["excluded"] = "degenerate prior"
            steps.append(rec)
            break
        mine = H.predict_rows(linker)
        ref = H.fresh_reference(linker, world, state)
        rec["n_pairs"] = len(mine)
        d = diff_predict(mine, ref)
        if d:
            rec["diff"] = d
            steps.append(rec)
            break
        steps.append(rec)
    events = [dict(e) for e in log["events"]]
    return {"steps": steps, "events": events, "phys": {k: list(v) for k, v in log["phys"].items()}}


run_history_safe = core.safe(run_history)


def diff_predict(a, b):
    if set(a) != set(b):
        return f"pair sets differ: only with history {sorted(set(a) - set(b))[:3]}, only fresh {sorted(set(b) - set(a))[:3]}"
    for k in a:
        for col in a[k]:
            x, y = a[k][col], b[k].get(col)
            if isinstance(x, float) or isinstance(y, float):
                if not core.close(x, y, 1e-9, 1e-12):
                    return f"pair {k} column {col}: {x} (after the history) vs {y} (fresh linker)"
            elif x != y:
                return f"pair {k} column {col}: {x} (after the history) vs {y} (fresh linker)"
    return None


def trace_request(events, phys):
    """Encode the observed cache events for the Lean state machine; returns (request, observed hits)."""
    codes: dict = {}

    def code(x):
        return codes.setdefault(x, len(codes))

    # The DatabaseAPI's uid is the salt of the hashed physical names.  It is re-drawn whenever a table is replaced under its name
    # (register_multiple_tables(..., overwrite=True) -> _forget_results_computed_from).  The model's uid is a counter (0, then +1 per
    # `resalt`), so the n-th distinct salt seen in a request is coded n and a `resalt` event is emitted in front of the first request
    # that shows it (nothing between the real re-draw and that request depends on the salt: named stores, drops, forget_named and
    # invalidate events carry their own identities).  A table created under an older salt keeps its (templ, text, old salt) identity
    # when it is dropped or stored under a name later.  Tables that no request produced (the caller registered them) get uid codes
    # from a range that no counter value reaches.
    FOREIGN = 10 ** 6
    salt_codes: dict = {}
    foreign_codes: dict = {}

    def uid_code(u):
        if u in salt_codes:
            return salt_codes[u]
        return FOREIGN + foreign_codes.setdefault(u, len(foreign_codes))

    out, hits = [], []
    known = dict(phys)
    current = None
    for e in events:
        k = e["k"]
        if k == "req":
            if e.get("debug"):
                return None, None  # debug mode bypasses the cache protocol
            if e["uid"] != current:
                if e["uid"] in salt_codes:
                    raise core.HarnessError(f"the DatabaseAPI cache uid went back to an earlier value during a history: {e['uid']}")
                salt_codes[e["uid"]] = len(salt_codes)
                if current is not None:
                    out.append({"k": "resalt"})
                current = e["uid"]
            out.append({"k": "req", "templ": code("T:" + e["templ"]), "text": code("S:" + e["text"]), "use_cache": bool(e["use_cache"])})
            hits.append(bool(e["hit"]))
        elif k == "set_named":
            ph = known.get(e["phys"])
            if ph is None:
                # a table the caller registered (not produced by a request): give it a private identity
                ph = (e["phys"], "user:" + e["phys"], "user")
            out.append({"k": "set_named", "templ": code("T:" + e["templ"]), "ptempl": code("T:" + ph[0]), "ptext": code("S:" + ph[1]), "puid": uid_code(ph[2])})
        elif k == "drop":
            ph = known.get(e["phys"])
            if ph is None:
                continue
            out.append({"k": "drop", "templ": code("T:" + ph[0]), "text": code("S:" + ph[1]), "uid": uid_code(ph[2])})
        elif k == "forget_named":
            out.append({"k": "forget_named", "templ": code("T:" + e["templ"])})
        elif k == "invalidate":
            out.append({"k": "invalidate"})
    return {"op": "cache_trace", "events": out}, hits


def gen_history_case(rng, ops=None, length=None):
    world = H.gen_world(rng)
    return {"world": world, "history": H.gen_history(rng, world, length=length or rng.randint(2, 7), ops=ops), "tag": "history"}


# --------------------------------------------------------------------------- (d) new-record histories, outputs observed
# Family: histories mixing register_term_frequency_lookup (terms absent from the data / missing data terms / values different from
# the data frequencies), compare_two_records, find_matches_to_new_records, compute_tf_table, deterministic_link with predict, training,
# invalidate_cache, ... in any order.  Unlike (a) the linker is NOT normalised by a predict() after every step (that call materialises
# __splink__df_concat_with_tf and so hides every "nothing ran in between" state); instead the OUTPUT of every new-record /
# tf-table / deterministic_link call is compared with the same call on a fresh linker (new database, current data, saved model, same
# lookups), and the term frequencies in the output are recomputed by hand from the lookups / the data.
ABSENT_TERMS = ["dee", "zed", "", "Ann"]  # never in the generated data ("dee" can enter it through mutate_invalidate)
NEWREC_OPS = (["register_tf_lookup"] * 5 + ["compare_two"] * 5 + ["find_matches"] * 4 + ["predict"] * 2 + ["compute_tf"] * 2
              + ["predict_thr", "em", "estimate_u", "estimate_m_label", "estimate_prior", "invalidate", "mutate_invalidate", "delete_splink_tables",
                 "deterministic_link", "cluster"])


def tf_columns(world):
    return sorted({c["col"] for c in world["comparisons"] if any("tf" in l for l in c["levels"])})


def _dom(col):
    return c02.STR_DOM[:5] if col == "a" else c02.STR_DOM[:4]


def gen_lookup(rng, col):
    """A registered lookup: some of the data's terms missing, 1-3 terms the data never contain, values unrelated to the data frequencies
    (boundaries 1.0 and 1e-6 included)."""
    table = {v: round(rng.uniform(0.01, 0.6), 3) for v in _dom(col) if rng.random() < 0.7}
    for v in rng.sample(ABSENT_TERMS, rng.randint(1, 3)):
        table[v] = rng.choice([1.0, 1e-06, 0.004, round(rng.uniform(0.001, 0.3), 4)])
    return table


def gen_records(rng, n_left, n_right, tfcols, lookups, allow_null, first_id):
    """Two groups of new records; on a TF column both groups mostly carry the SAME term (exact match -> the TF adjustment applies),
    and that term is mostly one the data do not contain."""
    shared = {}
    for col in ("a", "b"):
        only_lookup = [t for t in lookups.get(col, {}) if t not in _dom(col)]
        shared[col] = rng.choice(only_lookup) if only_lookup and rng.random() < 0.5 else rng.choice(list(_dom(col)) + ABSENT_TERMS)
    recs = []
    for k in range(n_left + n_right):
        r = {"unique_id": first_id + k}
        for col in ("a", "b"):
            x = rng.random()
            r[col] = shared[col] if x < 0.75 else (None if allow_null and x < 0.83 else rng.choice(list(_dom(col)) + ABSENT_TERMS))
        r["c"] = rng.choice(c02.INT_DOM)
        r["d"] = rng.choice(["p", "q"])
        r["lab"] = None
        recs.append(r)
    return recs[:n_left], recs[n_left:]


def gen_newrec_case(rng):
    for _ in range(20):
        world = H.gen_world(rng)
        if tf_columns(world):
            break
    else:
        # no TF column in 20 draws: give the exact level of the first string comparison one
        eq = next(l for l in world["comparisons"][0]["levels"] if l["kind"] == "eq")
        eq["tf"] = {"weight": 1.0, "minU": 0.0}
    tfcols = tf_columns(world)
    hist = []
    lookups: dict = {}
    if rng.random() < 0.75:
        for col in tfcols:
            if rng.random() < 0.8:
                lookups[col] = gen_lookup(rng, col)
                hist.append({"op": "register_tf_lookup", "p": {"col": col, "table": lookups[col], "overwrite": rng.choice([True, False, None])}})
    last_cmp = None
    for op in [rng.choice(NEWREC_OPS) for _ in range(rng.randint(3, 7))]:
        if op == "register_tf_lookup":
            col = rng.choice(tfcols)
            lookups[col] = gen_lookup(rng, col)
            hist.append({"op": op, "p": {"col": col, "table": lookups[col], "overwrite": rng.choice([True, False, None])}})
        elif op == "compute_tf":
            hist.append({"op": op, "p": {"col": rng.choice(tfcols)}})
        elif op == "compare_two":
            if last_cmp is not None and rng.random() < 0.4:
                hist.append(json.loads(json.dumps(last_cmp)))  # the very same call again, later in the history
                continue
            form = rng.choice(["dict", "dict", "list", "frame"])
            n1, n2 = (1, 1) if form == "dict" else (rng.randint(1, 2), rng.randint(1, 2))
            r1, r2 = gen_records(rng, n1, n2, tfcols, lookups, allow_null=(form == "frame"), first_id=2001)
            if rng.random() < 0.2:
                # records carrying their own term frequency (documented: overrides every lookup), on one side or both
                col = rng.choice(tfcols)
                for side in ([r1], [r2], [r1, r2])[rng.randrange(3)]:
                    for r in side:
                        r[f"tf_{col}"] = rng.choice([0.5, 0.02])
            last_cmp = {"op": op, "p": {"r1": r1, "r2": r2, "form": form, "flag": rng.random() < 0.3}}
            hist.append(last_cmp)
        elif op == "find_matches":
            form = rng.choice(["frame", "frame", "table", "list"])
            recs, _ = gen_records(rng, rng.randint(1, 3), 0, tfcols, lookups, allow_null=(form != "list"), first_id=1000)
            hist.append({"op": op, "p": {"records": recs, "form": form, "rules": rng.choice([[], ["l.d = r.d"], "l.d = r.d", ["l.a = r.a", "l.d = r.d"]]),
                                         "thr": rng.choice([-30, -30, None, 0.0])}})
        elif op == "mutate_invalidate":
            hist.append({"op": op, "p": {"new_row": {"unique_id": 500 + len(hist), "a": rng.choice(c02.STR_DOM[:6]), "b": rng.choice(c02.STR_DOM[:4]),
                                                      "c": rng.choice(c02.INT_DOM), "d": rng.choice(["p", "q"]), "lab": None}}})
            lookups = {}
        else:
            hist.extend(H.gen_history(rng, world, length=1, ops=[op]))
            if op == "invalidate":
                lookups = {}
    for st in hist:
        st["check_predict"] = rng.random() < 0.25
    hist[-1]["check_predict"] = True
    return {"world": world, "history": hist, "tag": "newrec"}


def _rec_types(recs):
    t = dict(H.TYPES)
    for r in recs:
        for k in r:
            if k.startswith("tf_"):
                t[k] = "float"
    return t


def _lookup_frame(col, table):
    from harness import impl

    return impl.typed_frame([{col: v, f"tf_{col}": t} for v, t in table.items()], {col: "str", f"tf_{col}": "float"})


def canon_rows(records):
    out = {}
    for r in records:
        key = f"{r['unique_id_l']}-{r['unique_id_r']}"
        if key in out:
            key += f"#dup{len(out)}"
        out[key] = {k: (None if isinstance(v, float) and v != v else v) for k, v in r.items()}
    return out


def newrec_call(linker, step):
    """The observed call itself (used on the linker with history and on the fresh linker alike)."""
    from harness import impl

    op, p = step["op"], step["p"]
    if op == "compare_two":
        def arg(recs):
            if p["form"] == "dict":
                return dict(recs[0])
            if p["form"] == "list":
                return [dict(r) for r in recs]
            return impl.typed_frame(recs, _rec_types(recs))

        return canon_rows(linker.inference.compare_two_records(arg(p["r1"]), arg(p["r2"]), include_found_by_blocking_rules=p["flag"]).as_record_dict())
    if op == "find_matches":
        recs = p["records"]
        if p["form"] == "list":
            arg = [dict(r) for r in recs]
        else:
            arg = impl.typed_frame(recs, _rec_types(recs))
            if p["form"] == "table":
                linker.table_management.register_table(arg, "user_new_records", overwrite=True)
                arg = "user_new_records"
        kw = {} if p["thr"] is None else {"match_weight_threshold": p["thr"]}
        return canon_rows(linker.inference.find_matches_to_new_records(arg, blocking_rules=p["rules"], **kw).as_record_dict())
    if op == "compute_tf":
        col = p["col"]
        return {str(r[col]): {"tf": r[f"tf_{col}"]} for r in linker.table_management.compute_tf_table(col).as_record_dict()}
    if op == "deterministic_link":
        return {f"{r['unique_id_l']}-{r['unique_id_r']}": {"match_key": str(r["match_key"])} for r in linker.inference.deterministic_link().as_record_dict()}
    raise ValueError(op)


def fresh_linker(linker, world, state, computed=()):
    """A linker without history: new database, current data, the saved model, the same registered lookups; `computed` = TF columns
    for which compute_tf_table is called (the documented way to make data-derived term frequencies available to new-record calls)."""
    from harness import impl

    model = json.loads(json.dumps(linker.misc.save_model_to_json(out_path=None)))
    l2 = H.make_linker(dict(world, rows=H.current_rows(world, state)), impl.make_api(world["engine"], threads=2), settings=model)
    for col, table in state.get("lookups", {}).items():
        l2.table_management.register_term_frequency_lookup(_lookup_frame(col, table), col, overwrite=True)
    for col in computed:
        l2.table_management.compute_tf_table(col)
    return l2


def diff_rows(a, b, what_b="fresh linker"):
    if set(a) != set(b):
        return f"row sets differ: only with history {sorted(set(a) - set(b))[:3]}, only {what_b} {sorted(set(b) - set(a))[:3]}"
    for k in a:
        if set(a[k]) != set(b[k]):
            return f"row {k}: columns differ: only with history {sorted(set(a[k]) - set(b[k]))}, only {what_b} {sorted(set(b[k]) - set(a[k]))}"
        for col in a[k]:
            x, y = a[k][col], b[k][col]
            if isinstance(x, bool) or isinstance(y, bool):
                same = bool(x) == bool(y) and x is not None and y is not None
            elif isinstance(x, float) or isinstance(y, float):
                same = core.close(x, y, 1e-9, 1e-12)
            else:
                same = x == y
            if not same:
                return f"row {k} column {col}: {x} (after the history) vs {y} ({what_b})"
    return None


def hand_tf_check(step, rows, world, state):
    """Naive oracle on the real output: the term frequency attached to each side of each output row, recomputed by hand.
    Source per TF column: a value the record itself carries > the registered lookup (NULL for a term it lacks) > the data frequency
    count(term)/count(non-null) (for compare_two_records possibly 'not available' = NULL: documented, a warning is logged)."""
    op, p = step["op"], step["p"]
    lookups = state.get("lookups", {})
    data = H.current_rows(world, state)
    by_id = {}
    if op == "compare_two":
        sides = {"l": p["r1"], "r": p["r2"]}
    else:
        sides = {"l": data, "r": p["records"]}
    for sfx, recs in sides.items():
        by_id[sfx] = {r["unique_id"]: r for r in recs}
    for key, row in rows.items():
        for col in tf_columns(world):
            for sfx in ("l", "r"):
                name = f"tf_{col}_{sfx}"
                if name not in row:
                    continue
                rec = by_id[sfx].get(row[f"unique_id_{sfx}"])
                if rec is None:
                    return f"row {key}: no input record with unique_id {row[f'unique_id_{sfx}']} on side {sfx}"
                term = rec.get(col)
                if op == "compare_two" and any(f"tf_{col}" in r for r in sides[sfx]):
                    allowed, src = [rec.get(f"tf_{col}")], "the value the record carries"
                elif col in lookups:
                    allowed, src = [lookups[col].get(term) if term is not None else None], "the registered lookup"
                else:
                    vals = [r[col] for r in data if r[col] is not None]
                    freq = (vals.count(term) / len(vals)) if (term is not None and term in vals) else None
                    allowed, src = [freq], "the data frequency"
                    if op == "compare_two":
                        allowed.append(None)
                if not any(core.close(row[name], e, 1e-9, 1e-12) for e in allowed):
                    return f"row {key}: {name} = {row[name]} for term {term!r}, by hand from {src}: {allowed[0]}"
    return None


def subsets(xs):
    out = [[]]
    for x in xs:
        out += [s + [x] for s in out]
    return sorted(out, key=lambda s: (0 if not s else 1 if len(s) == len(xs) else 2, s))


def observe_output(linker, world, step, state, mine):
    """Verdict for one observed call: (violation text | None, which reference matched)."""
    op = step["op"]
    if op in ("compare_two", "find_matches"):
        v = hand_tf_check(step, mine, world, state)
        if v:
            return "term frequency of a new record differs from the hand computation: " + v, None
    unreg = [c for c in tf_columns(world) if c not in state.get("lookups", {})]
    # data-derived term frequencies of a column WITHOUT a registered lookup are available to compare_two_records only once something
    # computed them (documented; a warning is logged otherwise): the references are the fresh linkers with compute_tf_table() called
    # for each subset of those columns.  Columns WITH a lookup have exactly one answer.  The other calls compute what they need.
    cands = subsets(unreg) if op == "compare_two" else [[]]
    first = None
    for comp in cands:
        try:
            ref = newrec_call(fresh_linker(linker, world, state, comp), step)
        except Exception as e:  # noqa: BLE001
            import traceback

            if f'File "{core.REPO}/' not in traceback.format_exc():
                raise
            d = f"the call succeeded after the history but raised on the fresh linker: {type(e).__name__}: {str(e)[:160]}"
        else:
            d = diff_rows(mine, ref)
        if d is None:
            return None, ("lookups only" if not comp else "lookups + compute_tf_table(" + ",".join(comp) + ")") if op == "compare_two" else "fresh"
        first = first or d
    return f"{op} after the history differs from every fresh linker ({len(cands)} tried): " + first, None


OBSERVED = ("compare_two", "find_matches", "compute_tf", "deterministic_link")


def run_newrec(case: dict) -> dict:
    from harness import impl

    world, hist = case["world"], case["history"]
    api = impl.make_api(world["engine"], threads=2)
    log = H.instrument(api)
    linker = H.make_linker(world, api)
    state: dict = {}
    steps = []
    for step in hist:
        op, p = step["op"], step["p"]
        rec = {"op": op}
        mine = None
        try:
            if op == "register_tf_lookup":
                kw = {} if p.get("overwrite") is None else {"overwrite": p["overwrite"]}
                linker.table_management.register_term_frequency_lookup(_lookup_frame(p["col"], p["table"]), p["col"], **kw)
                state.setdefault("lookups", {})[p["col"]] = p["table"]
            elif op in OBSERVED and not (op == "deterministic_link" and not world["rules"]):
                mine = newrec_call(linker, step)
                rec["n_rows"] = len(mine)
            else:
                rec["result"] = H.apply_op(linker, world, step, state)
        except Exception as e:  # noqa: BLE001
            import traceback

            if f'File "{core.REPO}/' not in traceback.format_exc():
                raise
            rec["raised"] = f"{type(e).__name__}: {str(e)[:200]}"
            steps.append(rec)
            break  # a raising call is C08's business; this history ends here
        if mine is not None:
            d, matched = observe_output(linker, world, step, state, mine)
            if matched:
                rec["reference"] = matched
            if d:
                rec["diff"] = d
                steps.append(rec)
                break
        if linker._settings_obj._probability_two_random_records_match in (0, 0.0, 1, 1.0):
            rec["excluded"] = "degenerate prior"  # as in (a): every scoring call then raises loudly; the history ends here
            steps.append(rec)
            break
        if step.get("check_predict"):
            mine_p = H.predict_rows(linker)
            rec["n_pairs"] = len(mine_p)
            d = diff_predict(mine_p, H.fresh_reference(linker, world, state))
            if d:
                rec["diff"] = d
                steps.append(rec)
                break
        steps.append(rec)
    return {"steps": steps, "events": [dict(e) for e in log["events"]], "phys": {k: list(v) for k, v in log["phys"].items()}}


# --------------------------------------------------------------------------- (e) re-registration histories, outputs observed
# Family: a table is REPLACED under its name through Splink - register_table_predict / register_table(df, <fixed name>) /
# register_labels_table / register_table_input_nodes_concat_with_tf / register_term_frequency_lookup with overwrite=True, or a second
# Linker over new frames on the same DatabaseAPI (Splink re-registers __splink__input_table_<i> with overwrite=True) - and computations
# derived from the table run before AND after the replacement (the SAME call repeated).  Results are cached under a hash of SQL text
# that names the tables it reads but says nothing about their content, so the second result must not be the first one served again.
# Oracle: the output of every derived computation equals the same call on a fresh linker (new database, current data, saved model,
# the tables currently registered, registered in the same order); results the caller kept from before a replacement must still read as
# they were; predict() is compared with the fresh linker after every replacement of an input and at the end.
REREG_TARGETS = {
    "predict": ("register_predict", ["cluster_registered", "cluster_registered", "best_links_registered", "graph_metrics_registered"]),
    "labels": ("register_labels", ["accuracy_labels_table", "accuracy_labels_table", "prediction_errors_labels_table", "estimate_m_pairwise_labels"]),
    "user_table": ("register_user_table", ["blocking_analysis_user_table"]),
    "concat_with_tf": ("register_concat_with_tf", ["predict", "cluster_registered"]),
    "input": ("relink", ["predict", "cluster_registered", "accuracy_labels_table", "compute_tf"] + H.REREG_TRAINING_OPS),
    "tf_lookup": ("register_tf_lookup", ["predict", "compute_tf"]),
}
REREG_NOISE = ["predict", "predict_thr", "estimate_u", "em", "compute_tf", "cluster", "deterministic_link", "compare_two", "find_matches", "estimate_prior",
               "invalidate", "delete_splink_tables"]
REREG_FORCE_PREDICT_CHECK = ("relink", "register_concat_with_tf", "register_tf_lookup")


TRAINS_THE_MODEL = ["estimate_m_pairwise_labels"] + H.REREG_TRAINING_OPS


def gen_rereg_case(rng):
    world = H.gen_world(rng)
    world["input_form"] = "frame"
    world["link_type"] = rng.choice(["dedupe_only", "link_and_dedupe", "link_and_dedupe"])
    ids = [r["unique_id"] for r in world["rows"]]
    if world["link_type"] != "dedupe_only":
        world["first_table_ids"] = ids[: rng.randint(2, len(ids) - 2)]
    tfcols = tf_columns(world)
    serial = [0]

    def make(op):
        if op in H.REREG_OPS:
            st = H.gen_rereg_step(rng, world, op, ids=list(ids))
            if op == "relink":
                serial[0] += 1
                st["p"]["new_row"]["unique_id"] = 700 + serial[0]
                ids.append(700 + serial[0])  # later registered predictions / labels may mention the new record
            return [st]
        return H.gen_history(rng, world, length=1, ops=[op])  # [] when the operation does not apply (no TF column)

    if rng.random() < 0.15:
        # nothing but training calls around the replacement of the input tables: no scoring call caches a result that names the input
        # table, so only results derived through intermediates (already dropped from the cache) connect the cache to the replaced table
        mine = []
        for c in rng.sample(H.REREG_TRAINING_OPS, rng.randint(1, 2)):
            mine += make(c)
        hist = list(mine)
        for _ in range(rng.choice([1, 1, 2])):
            hist += make("relink") + [json.loads(json.dumps(x)) for x in mine]
        for st in hist:
            st["check_predict"] = False
        hist[-1]["check_predict"] = True
        return {"world": world, "history": hist, "tag": "rereg"}
    targets = [t for t in REREG_TARGETS if t != "tf_lookup" or tfcols]
    weights = {"predict": 4, "labels": 4, "input": 3, "concat_with_tf": 2, "user_table": 2, "tf_lookup": 1}
    chosen = []
    for _ in range(rng.choice([1, 2, 2])):
        t = rng.choices(targets, [weights[t] for t in targets])[0]
        if t not in chosen:
            chosen.append(t)
    segments = []
    needs = {"cluster_registered": "predict", "best_links_registered": "predict", "graph_metrics_registered": "predict", "accuracy_labels_table": "labels",
             "prediction_errors_labels_table": "labels", "estimate_m_pairwise_labels": "labels"}
    front = []
    for t in chosen:
        reg, calls = REREG_TARGETS[t]
        calls = [c for c in calls if c != "best_links_registered" or world["link_type"] != "dedupe_only"]  # it needs a source dataset column
        seg = [] if t == "input" else make(reg)  # the linker's own inputs are the first version
        mine = []
        for c in rng.sample(sorted(set(calls)), rng.randint(1, min(2, len(set(calls))))):
            mine += make(c)
            if needs.get(c, t) not in chosen and REREG_TARGETS[needs[c]][0] not in [x["op"] for x in front]:
                front += make(REREG_TARGETS[needs[c]][0])  # the table the derived call runs on, registered once at the start
        seg += mine
        for _ in range(rng.choice([1, 1, 1, 2])):
            seg += make(reg)  # the replacement
            seg += [json.loads(json.dumps(x)) for x in mine]  # the SAME calls again
            if rng.random() < 0.3:
                seg += make(rng.choice(calls))
        segments.append(seg)
    # riffle the segments (each keeps its own order), then sprinkle unrelated operations
    hist = []
    while any(segments):
        seg = rng.choice([x for x in segments if x])
        hist.append(seg.pop(0))
    for op in [rng.choice(REREG_NOISE) for _ in range(rng.choice([0, 1, 1, 2]))]:
        for st in make(op):
            hist.insert(rng.randrange(len(hist) + 1), st)
    hist = front + hist
    if rng.random() < 0.5:
        hist = H.gen_history(rng, world, length=1, ops=["predict", "estimate_u", "em", "compute_tf"]) + hist
    first = True
    for st in hist:
        if st["op"].startswith("register_") and "overwrite" in st["p"] and st["op"] != "register_tf_lookup":
            if first and rng.random() < 0.5:
                st["p"]["overwrite"] = rng.choice([False, None])  # nothing to replace yet: the default must do
            first = False
        st["check_predict"] = st["op"] in REREG_FORCE_PREDICT_CHECK or rng.random() < 0.15
    hist[-1]["check_predict"] = True
    return {"world": world, "history": hist, "tag": "rereg"}


def diff_tables(a, b, what_b="fresh linker"):
    """Two canonical result tables (lists of dict rows) agree up to float rounding and row order."""
    if len(a) != len(b):
        return f"{len(a)} rows (after the history) vs {len(b)} rows ({what_b})"

    def same(x, y):
        if set(x) != set(y):
            return False
        for k in x:
            u, v = x[k], y[k]
            if isinstance(u, bool) or isinstance(v, bool):
                if u is None or v is None or bool(u) != bool(v):
                    return False
            elif isinstance(u, float) or isinstance(v, float):
                if not core.close(u, v, 1e-9, 1e-12):
                    return False
            elif u != v:
                return False
        return True

    if all(same(x, y) for x, y in zip(a, b)):
        return None
    left = list(b)
    for x in a:
        k = next((i for i, y in enumerate(left) if same(x, y)), None)
        if k is None:
            near = min(left, key=lambda y: sum(1 for c in x if x.get(c) != y.get(c))) if left else {}
            cols = sorted(c for c in set(x) | set(near) if x.get(c) != near.get(c))[:4]
            return (f"row {json.dumps({c: x.get(c) for c in list(x)[:3]}, default=str)} (after the history) has no counterpart ({what_b}); "
                    f"nearest differs in {cols}: {[x.get(c) for c in cols]} vs {[near.get(c) for c in cols]}")
        left.pop(k)
    return None


def rereg_fresh(linker, world, state, model=None):
    """A linker without history: new database, current data, the saved model, and the tables the caller currently has registered,
    registered in the order of their last registration."""
    from harness import impl

    model = model if model is not None else json.loads(json.dumps(linker.misc.save_model_to_json(out_path=None)))
    l2 = H.make_linker(dict(world, rows=H.current_rows(world, state)), impl.make_api(world["engine"], threads=2), settings=model)
    st2: dict = {"registered": []}
    for _kind, st in state.get("registered", []):
        H.apply_op(l2, world, st, st2)
    return l2, st2


def _raised_in_repo():
    import traceback

    return f'File "{core.REPO}/' in traceback.format_exc()


def run_rereg(case: dict) -> dict:
    from harness import impl

    world, hist = case["world"], case["history"]
    api = impl.make_api(world["engine"], threads=2)
    log = H.instrument(api)
    linker = H.make_linker(world, api)
    state: dict = {"registered": []}
    steps = []
    for step in hist:
        op = step["op"]
        rec = {"op": op}
        observed = op in H.REREG_OBSERVED_OPS
        # a training call is repeated on the fresh linker from the model as it was BEFORE the call
        model_before = json.loads(json.dumps(linker.misc.save_model_to_json(out_path=None))) if op in TRAINS_THE_MODEL else None
        try:
            mine = H.apply_op(linker, world, step, state)
        except Exception as e:  # noqa: BLE001
            if not _raised_in_repo():
                raise
            rec["raised"] = f"{type(e).__name__}: {str(e)[:200]}"
            steps.append(rec)
            break  # a raising call is C08's business; this history ends here
        linker = state.get("linker", linker)
        if observed and mine is None:
            rec["skipped"] = "nothing registered (or no source dataset column) to run it on"
        elif observed:
            rec["n_rows"] = len(mine)
            try:
                l2, st2 = rereg_fresh(linker, world, state, model_before)
                ref = H.apply_op(l2, world, step, st2)
            except Exception as e:  # noqa: BLE001
                if not _raised_in_repo():
                    raise
                d = f"the call succeeded after the history but raised on the fresh linker: {type(e).__name__}: {str(e)[:160]}"
            else:
                d = diff_tables(mine, ref)
            rec["reference"] = "fresh"
            if d:
                rec["diff"] = f"{op} after the history differs from the same call on a fresh linker with the tables now registered: " + d
                steps.append(rec)
                break
        kept_bad = None
        for label, sdf, rows in state.get("kept", []):
            rec["kept_reread"] = rec.get("kept_reread", 0) + 1
            try:
                now = H.canon_table(sdf.as_record_dict())
            except Exception as e:  # noqa: BLE001
                if not _raised_in_repo():
                    raise
                kept_bad = f"the result of an earlier {label} (table {sdf.physical_name}) can no longer be read after {op}: {type(e).__name__}: {str(e)[:120]}"
                break
            d = diff_tables(now, rows, what_b="as it read when it was returned")
            if d:
                kept_bad = f"the result of an earlier {label} (table {sdf.physical_name}) kept by the caller changed under it after {op}: " + d.replace("(after the history)", "(now)")
                break
        if kept_bad:
            rec["diff"] = kept_bad
            steps.append(rec)
            break
        if linker._settings_obj._probability_two_random_records_match in (0, 0.0, 1, 1.0):
            rec["excluded"] = "degenerate prior"  # as in (a): every scoring call then raises loudly; the history ends here
            steps.append(rec)
            break
        if step.get("check_predict"):
            mine_p = H.predict_rows(linker)
            rec["n_pairs"] = len(mine_p)
            d = diff_predict(mine_p, H.predict_rows(rereg_fresh(linker, world, state)[0]))
            if d:
                rec["diff"] = d
                steps.append(rec)
                break
        steps.append(rec)
    return {"steps": steps, "events": [dict(e) for e in log["events"]], "phys": {k: list(v) for k, v in log["phys"].items()}}


REREG_KIND_OF = {"cluster_registered": ("predict", "input", "concat_with_tf"), "best_links_registered": ("predict", "input", "concat_with_tf"), "graph_metrics_registered": ("predict",),
                 "accuracy_labels_table": ("labels", "input", "concat_with_tf", "tf_lookup"), "prediction_errors_labels_table": ("labels", "input", "concat_with_tf", "tf_lookup"),
                 "estimate_m_pairwise_labels": ("labels", "input", "concat_with_tf"), "blocking_analysis_user_table": ("user_table",),
                 "predict": ("input", "concat_with_tf", "tf_lookup"), "compute_tf": ("input", "concat_with_tf", "tf_lookup"),
                 "estimate_u_observed": ("input", "concat_with_tf"), "em_observed": ("input", "concat_with_tf"), "estimate_prior_observed": ("input", "concat_with_tf"),
                 "estimate_m_label_observed": ("input", "concat_with_tf")}
REREG_REG_KIND = {"register_predict": "predict", "register_labels": "labels", "register_user_table": "user_table", "register_concat_with_tf": "concat_with_tf",
                  "relink": "input", "register_tf_lookup": "tf_lookup"}


def rereg_shape(hist):
    """Counters: which derived call was repeated (identical arguments) after a replacement of a table it is computed from."""
    shapes = set()
    n_reg: dict = {}
    seen: dict = {}
    for st in hist:
        op = st["op"]
        if op in REREG_REG_KIND:
            n_reg[REREG_REG_KIND[op]] = n_reg.get(REREG_REG_KIND[op], 0) + 1
            continue
        if op not in REREG_KIND_OF:
            continue
        key = op + json.dumps(st["p"], sort_keys=True)
        if key in seen:
            for kind in REREG_KIND_OF[op]:
                first = 1 if kind == "input" else 2  # the linker's own inputs are version 1; a registered table is replaced by its 2nd registration
                if n_reg.get(kind, 0) >= first and n_reg.get(kind, 0) > seen[key].get(kind, 0):
                    shapes.add(f"{op} repeated after replacing {kind}")
        seen[key] = dict(n_reg)
    return shapes


def is_rereg(case):
    return "rereg" in (case.get("tag") or "")  # "rereg", or a corpus case "corpus-rereg-..."


def run_case(case: dict) -> dict:
    if is_rereg(case):
        return run_rereg(case)
    return run_newrec(case) if case.get("tag") == "newrec" else run_history(case)


run_case_safe = core.safe(run_case)


def newrec_shape(case):
    """Counters: does the history hold a new-record call whose records carry (compare_two_records: on both sides) a term that a
    registered lookup has and the data lack, and what ran last between the registration and that call?"""
    data_terms = {col: {r[col] for r in case["world"]["rows"]} for col in ("a", "b")}
    lookups: dict = {}
    since_reg = []
    shapes = set()
    for st in case["history"]:
        op, p = st["op"], st["p"]
        if op == "register_tf_lookup":
            lookups[p["col"]] = p["table"]
            since_reg = []
        elif op in ("invalidate", "mutate_invalidate"):
            lookups = {}
            if op == "mutate_invalidate":
                for col in ("a", "b"):
                    data_terms[col].add(p["new_row"][col])
        elif op in ("compare_two", "find_matches"):
            for col, table in lookups.items():
                left = p["r1"] if op == "compare_two" else p["records"]
                right = p["r2"] if op == "compare_two" else p["records"]
                absent = [r[col] for r in left if r[col] in table and r[col] not in data_terms[col] and any(q[col] == r[col] for q in right)]
                if absent:
                    shapes.add(f"{op} of records carrying a lookup term the data lack; last operation since the registration: " + (since_reg[-1] if since_reg else "none"))
        if op != "register_tf_lookup":
            since_reg.append(op)
            if st.get("check_predict"):
                since_reg.append("predict")
    return shapes



# --------------------------------------------------------------------------- (c) realtime
def realtime_case(rng, extended=False):
    """extended: the input families the plain cases never produce - settings that need term frequencies (the records carry tf_ values,
    as the function's docstring asks), settings given as a str path / a pathlib.Path to a JSON file, and call sequences that use
    the SAME settings objects with DatabaseAPIs of two dialects (the SQL cache is module-level and shared by all of them)."""
    tf = extended and rng.random() < 0.6
    world = H.gen_world(rng, engine=rng.choice(["duckdb", "sqlite"]), tf=tf)
    world["rules"] = ["l.d = r.d"]
    r1 = {"unique_id": 1, "a": rng.choice(c02.STR_DOM[:4]), "b": "ann", "c": 1, "d": "p", "lab": None}
    r2 = {"unique_id": 2, "a": rng.choice(c02.STR_DOM[:4]), "b": "anne", "c": 2, "d": rng.choice(["p", "q"]), "lab": None}
    if tf:
        r2["a"] = rng.choice([r1["a"], r2["a"]])
        r2["b"] = rng.choice([r1["b"], r2["b"]])
        for r in (r1, r2):
            r["tf_a"], r["tf_b"] = rng.choice([0.5, 0.02, 1.0]), rng.choice([0.3, 0.004])
    # mix*: settings DICTS that hold library creator objects (not JSON-serialisable: the cache key takes its fall-back path);
    # same creator classes in the same positions, differing only in their arguments (column / thresholds / m probabilities)
    kinds = ["creatorA", "creatorB", "dictA", "dictB", "mixA", "mixB", "mixC"]
    if extended:
        kinds = ["creatorA", "creatorB", "dictA", "dictB", "mixA", "mixB", "strpathA", "strpathB", "PathA", "PathB"]
    mixed = extended and rng.random() < 0.6
    seqs = []
    if extended:
        for _ in range(20):
            seqs.append([(rng.choice(kinds), rng.random() < 0.5, rng.choice(["duckdb", "sqlite"]) if mixed else world["engine"]) for _ in range(rng.randint(2, 4))])
        # short-lived settings objects: every call builds its own SettingsCreator (model A or B) and releases it afterwards, so that
        # a later object can be allocated at the address of an earlier, dead one (the cache keys SettingsCreator objects by identity
        # and must notice that the object it remembers is gone)
        flag = rng.random() < 0.5
        seqs.insert(0, [(rng.choice(["ephemA", "ephemB"]), flag, world["engine"]) for _ in range(6)])
    else:
        for n in (1, 2, 3):
            for combo in itertools.product(range(len(kinds) * 2), repeat=n):
                seqs.append([(kinds[c // 2], bool(c % 2)) for c in combo])
        rng.shuffle(seqs)
    return {"world": world, "r1": r1, "r2": r2, "seqs": seqs[:40], "tag": "realtime-extended" if extended else "realtime"}


def run_realtime(case):
    import os
    import tempfile
    from pathlib import Path

    from splink import SettingsCreator
    from splink.internals import realtime

    from harness import impl

    world = case["world"]
    sdA = H.settings_dict(world)
    wB = json.loads(json.dumps(world))
    for c in wB["comparisons"]:
        for l in c["levels"]:
            if "m" in l:
                l["m"] = round(min(0.99, l["m"] * 0.7 + 0.01), 6)
    sdB = H.settings_dict(wB)
    for d in (sdA, sdB):
        d.pop("max_iterations", None); d.pop("em_convergence", None)
    tmp = tempfile.mkdtemp(prefix="c07_rt_")
    paths = {}
    for name, d in (("A", sdA), ("B", sdB)):
        paths[name] = os.path.join(tmp, f"settings_{name}.json")
        with open(paths[name], "w") as f:
            json.dump(d, f)
    out = []
    for seq in case["seqs"]:
        realtime._sql_cache = realtime.SQLCache()
        import splink.comparison_library as cl

        def mix(c1, c2, thr, ms):
            return {"link_type": "dedupe_only", "blocking_rules_to_generate_predictions": list(world["rules"]), "probability_two_random_records_match": world["prior"],
                    "retain_matching_columns": True, "retain_intermediate_calculation_columns": True,
                    "comparisons": [cl.ExactMatch(c1).configure(m_probabilities=ms, u_probabilities=[0.2, 0.8]), cl.LevenshteinAtThresholds(c2, thr)]}

        objs = {"creatorA": SettingsCreator(**json.loads(json.dumps(sdA))), "creatorB": SettingsCreator(**json.loads(json.dumps(sdB))),
                "dictA": json.loads(json.dumps(sdA)), "dictB": json.loads(json.dumps(sdB)),
                "mixA": mix("a", "b", [1], [0.9, 0.1]), "mixB": mix("b", "a", [2], [0.9, 0.1]), "mixC": mix("a", "b", [1], [0.6, 0.4]),
                "strpathA": paths["A"], "strpathB": paths["B"], "PathA": Path(paths["A"]), "PathB": Path(paths["B"])}
        apis: dict = {}
        res = []
        for call in seq:
            kind, flag = call[0], call[1]
            engine = call[2] if len(call) > 2 else world["engine"]
            if engine not in apis:
                apis[engine] = impl.make_api(engine, threads=1)
            if kind.startswith("ephem"):
                import gc

                sd, other = (sdA, sdB) if kind.endswith("A") else (sdB, sdA)
                # a dozen short-lived objects of the OTHER model are scored and released; then objects of this model are created (and kept) until
                # one lands on the address of a dead one (CPython reuses freed blocks: measured, about the 12th candidate), and that one is scored
                firsts = [SettingsCreator(**json.loads(json.dumps(other))) for _ in range(30)]
                for f_ in firsts:
                    realtime.compare_records(case["r1"], case["r2"], f_, apis[engine], use_sql_from_cache=True, include_found_by_blocking_rules=flag)
                dead = {id(f_) for f_ in firsts}
                del firsts, f_
                gc.collect()
                obj, keep = None, []
                for _ in range(3000):
                    cand = SettingsCreator(**json.loads(json.dumps(sd)))
                    if id(cand) in dead:
                        obj = cand
                        break
                    keep.append(cand)
                reused = obj is not None
                obj = obj if reused else keep[-1]
                with_cache = realtime.compare_records(case["r1"], case["r2"], obj, apis[engine], use_sql_from_cache=True, include_found_by_blocking_rules=flag).as_record_dict()
                del keep
                without = realtime.compare_records(case["r1"], case["r2"], SettingsCreator(**json.loads(json.dumps(sd))), impl.make_api(engine, threads=1),
                                                   use_sql_from_cache=False, include_found_by_blocking_rules=flag).as_record_dict()
                res.append({"call": list(call) + ["address reused" if reused else "address not reused"], "cached": canon_row(with_cache), "uncached": canon_row(without)})
                continue
            with_cache = realtime.compare_records(case["r1"], case["r2"], objs[kind], apis[engine], use_sql_from_cache=True, include_found_by_blocking_rules=flag).as_record_dict()
            without = realtime.compare_records(case["r1"], case["r2"], objs[kind], impl.make_api(engine, threads=1), use_sql_from_cache=False, include_found_by_blocking_rules=flag).as_record_dict()
            res.append({"call": list(call), "cached": canon_row(with_cache), "uncached": canon_row(without)})
        out.append(res)
    import shutil

    shutil.rmtree(tmp, ignore_errors=True)
    return {"runs": out}


def canon_row(rows):
    if not rows:
        return None
    r = rows[0]
    return {k: (round(v, 12) if isinstance(v, float) else v) for k, v in sorted(r.items())}


run_realtime_safe = core.safe(run_realtime)


def realtime_verdict(r):
    for run in r["runs"]:
        for i, call in enumerate(run):
            if call["cached"] != call["uncached"]:
                missing = sorted(set(call["uncached"] or {}) - set(call["cached"] or {}))
                extra = sorted(set(call["cached"] or {}) - set(call["uncached"] or {}))
                return (f"compare_records call #{i + 1} {call['call']} of the sequence {[c['call'] for c in run]} differs with the SQL cache: "
                        f"columns missing {missing} extra {extra}" if (missing or extra) else
                        f"compare_records call #{i + 1} {call['call']} of {[c['call'] for c in run]}: values differ with the SQL cache")
    return None


# --------------------------------------------------------------------------- driver
def op_labels(hist):
    """Operation names of a history; '+predict' marks a step of family (d) after which predict() ran as a checkpoint."""
    return [s["op"] + ("+predict" if s.get("check_predict") else "") for s in hist]


def classify(what):
    for pat, cls in [("with the SQL cache", "realtime compare_records differs with its SQL cache"),
                     ("differs from the hand computation", "term frequency given to a new record differs from the registered lookup / data frequency (hand computation)"),
                     ("differs from the same call on a fresh linker with the tables now registered", "a computation derived from a table re-registered through Splink (overwrite=True / a new Linker on the same DatabaseAPI) differs from a fresh linker"),
                     ("kept by the caller changed under it", "a result kept by the caller changed after a later operation"),
                     ("can no longer be read after", "a result kept by the caller changed after a later operation"),
                     ("differs from every fresh linker", "compare_two_records / find_matches_to_new_records / compute_tf_table / deterministic_link after a history differs from a fresh linker"),
                     ("(after the history)", "predict() after a history differs from a fresh linker"),
                     ("pair sets differ", "predict() after a history differs from a fresh linker"), ("raised", "operation raised")]:
        if pat in what:
            return cls
    return what[:60]


def run(ctx: core.Ctx):
    ctx.rule = (
        "cases = (a,b) random histories of 2-7 operations (thorough: up to 12) over {estimate_u, estimate_m_from_label_column, EM(rule), estimate_prior, predict(threshold?), deterministic_link, cluster, "
        "compute_tf_table, register_term_frequency_lookup, find_matches_to_new_records, compare_two_records, compute_graph_metrics, invalidate_cache, mutate-input+invalidate_cache, "
        "delete_tables_created_by_splink_from_db} on one linker over a real table (6-12 records, 2-3 comparisons, TF on exact levels), duckdb+sqlite; after EVERY step predict() is compared with a fresh linker "
        "(new database, current data, saved model, same registered lookups) and the observed cache events are replayed through the Lean state machine; "
        "(c) realtime compare_records: sampled call sequences of length 1-3 over 2 SettingsCreator objects + 2 plain dicts + 3 dicts holding library creator objects (same classes, different arguments) x both flag values, cached vs uncached. "
        "(c') 4 extended realtime cases: settings that need term frequencies (records carry tf_ values), settings given as str path / pathlib.Path to a JSON file, "
        "sequences of 2-4 calls that use the same settings objects with DatabaseAPIs of BOTH dialects (one module-level SQL cache); "
        "(d) 60 new-record histories (thorough: 900) of 3-10 operations weighted towards register_term_frequency_lookup (lookups lacking some data terms, holding 1-3 terms the data "
        "never contain - 'dee', 'zed', '', 'Ann' - with values unrelated to the data frequencies incl. 1.0 and 1e-6; overwrite True/False/default), compare_two_records (dict / list of 1-2 dicts / "
        "typed frame with NULLs per side; both sides mostly carry the same - mostly data-absent - term on the TF columns; include_found_by_blocking_rules; records carrying their own tf_ value on one "
        "or both sides; the same call repeated later), find_matches_to_new_records (frame / registered table name / list of dicts; rules [] / list / str; threshold -30 / default / 0.0), compute_tf_table, "
        "predict, training, deterministic_link, cluster, invalidate_cache, mutate+invalidate (may add the absent term to the data), delete_tables; NO predict() after every step (it would materialise "
        "__splink__df_concat_with_tf before every call) but at ~25% of the steps and at the end; oracle for (d): (1) the term frequency on each side of every output row is recomputed by hand: value carried "
        "by the record > registered lookup (NULL for a missing term) > data frequency count/total (compare_two_records: or NULL when nothing computed it yet - documented); (2) the whole output (all columns) "
        "equals the same call on a fresh linker (new database, current data, saved model, same lookups); for compare_two_records and TF columns WITHOUT a lookup the fresh linker is tried with "
        "compute_tf_table() called for each subset of those columns (availability of data-derived frequencies is the only documented history dependence); "
        "(e) 40 re-registration histories (thorough: 700), frames as input (dedupe_only / link_and_dedupe over two frames), duckdb+sqlite: a table is REPLACED under its name through Splink - "
        "register_table_predict(new predictions, overwrite=True); a labels table under a fixed name via register_table(df, name, overwrite=True) (passed by name or as the returned SplinkDataFrame) or "
        "register_labels_table(..., overwrite=True); register_table_input_nodes_concat_with_tf(table computed by a throw-away linker, possibly cut short, overwrite=True); register_term_frequency_lookup(..., "
        "overwrite=True); an own table registered by name for the blocking-analysis functions; a second Linker over new frames (one more record) on the SAME DatabaseAPI, which re-registers "
        "__splink__input_table_<i> - and the computations derived from it (cluster_pairwise_predictions_at_threshold [probability / weight / no threshold], cluster_using_single_best_links, compute_graph_metrics on "
        "the registered predictions; accuracy_analysis_from_labels_table, prediction_errors_from_labels_table, estimate_m_from_pairwise_labels on the labels; count_comparisons / cumulative_comparisons / "
        "n_largest_blocks on the own table; predict, compute_tf_table) run before AND after each replacement with identical arguments (1-2 replacements per table, 1-2 tables per history, riffled), "
        "0-2 unrelated operations (predict, training, compare_two_records, find_matches, cluster, invalidate_cache, delete_tables) in between; first registration with overwrite False/default/True; "
        "oracle for (e): every derived output (all columns) equals the same call on a fresh linker (new database, current data, saved model - for estimate_m the model saved BEFORE the call and the values "
        "estimated by that call -, the tables currently registered, registered in the same order); every result table the caller keeps (last 3) is read again after every later step and must read as it did "
        "(until invalidate_cache / delete_tables drop it); predict() is compared with the fresh linker after every replacement of an input and at the end; "
        "non-trivial = history with >= 3 steps that reuses a cached table (at least one hit) / any realtime case; distinct = hash of the case."
    )
    ctx.assumptions = [
        "one linker at a time per DatabaseAPI (a second Linker REPLACES the first one's inputs, family (e)); input data change behind Splink's back only together with invalidate_cache(), or THROUGH Splink "
        "(a table re-registered under its name with overwrite=True, a new Linker over new frames: no invalidate_cache() needed since repair 4551b8fa); registered tables (TF lookups, predictions, labels, "
        "concat_with_tf) are part of the linker's inputs and are given to the fresh reference linker too",
        "the hash salt of the DatabaseAPI (re-drawn at every replacement) does not repeat within a run; the replayed trace codes the n-th salt as the model's uid n",
        "sha256-based physical names are collision free on a run (HashInj)",
        "a history ends at the first raising call (failure atomicity is C08)",
    ]
    ctx.lean = core.lean_check(PROP, ctx.thorough)
    drv = core.Driver()
    rng = ctx.rng
    if ctx.replay:
        body = json.loads(open(ctx.replay).read())["replay"]["case"]
        cases = [body]
    else:
        from harness import graphs

        n_hist = ctx.budget(70, 1200)
        cases = graphs.load_corpus(PROP) + [gen_history_case(rng, length=rng.randint(2, 12 if ctx.thorough else 7)) for _ in range(n_hist)]
        cases += [realtime_case(rng) for _ in range(ctx.budget(6, 60))]
        cases += [realtime_case(rng, extended=True) for _ in range(ctx.budget(4, 40))]
        cases += [gen_newrec_case(rng) for _ in range(ctx.budget(60, 900))]
        cases += [gen_rereg_case(rng) for _ in range(ctx.budget(40, 700))]
    hist_cases = [c for c in cases if "seqs" not in c]
    rt_cases = [c for c in cases if "seqs" in c]
    res = core.pmap(run_case_safe, hist_cases, chunksize=1)
    rt_res = core.pmap(run_realtime_safe, rt_cases, chunksize=1)
    concrete, broken = [], []
    reqs, owners = [], []
    for c, r in zip(hist_cases, res):
        if core.impl_error(r):
            concrete.append((c, f"real code raised outside an operation: {r['__error__']}: {r['text'][:200]}", r))
            continue
        hits = sum(1 for e in r["events"] if e["k"] == "req" and e["hit"])
        ctx.case({"world": c["world"], "history": c["history"]}, len(r["steps"]) >= 3 and hits >= 1,
                 sample={"history": [s["op"] for s in c["history"]], "engine": c["world"]["engine"], "steps": r["steps"], "n_cache_events": len(r["events"])} if len(c["history"]) <= 4 else None)
        ctx.count("engine", c["world"]["engine"]); ctx.count("history_length", len(c["history"]))
        fam = "newrec (outputs observed)" if c.get("tag") == "newrec" else "re-registration (outputs observed)" if is_rereg(c) else "predict after every step"
        ctx.count("family", fam)
        salts = []
        for e in r["events"]:
            if e["k"] == "req" and e["uid"] not in salts:
                salts.append(e["uid"])
        ctx.count("salt_changes_in_history", max(0, len(salts) - 1) if len(salts) <= 5 else ">4")
        if is_rereg(c):
            done = c["history"][: len(r["steps"])]
            ctx.count("rereg_link_type", c["world"]["link_type"])
            for sh in rereg_shape(done) or ["(no call repeated after a replacement)"]:
                ctx.count("rereg_shape", sh)
            for st, s in zip(done, r["steps"]):
                ctx.count("rereg_op", st["op"])
                if st["op"] in H.REREG_REGISTER_OPS and "overwrite" in st["p"]:
                    ctx.count("rereg_overwrite_arg", f"{st['op']}: {st['p']['overwrite']}")
                if st["op"] == "register_labels":
                    ctx.count("rereg_labels_form", st["p"]["form"])
                if "reference" in s:
                    ctx.count("rereg_reference_matched", f"{s['op']}: same call on a fresh linker")
                if "skipped" in s:
                    ctx.count("rereg_skipped", f"{s['op']}: {s['skipped']}")
                if "kept_reread" in s:
                    ctx.count("rereg_kept_results_reread", "result kept from an earlier step read again", s["kept_reread"])
                if "n_pairs" in s:
                    ctx.count("rereg_predict_checkpoints", "predict() compared with a fresh linker")
        if c.get("tag") == "newrec":
            for sh in newrec_shape({"world": c["world"], "history": c["history"][: len(r["steps"])]}) or ["(none of the lookup-term-absent shapes)"]:
                ctx.count("newrec_shape", sh)
            for st in c["history"][: len(r["steps"])]:
                if st["op"] == "compare_two":
                    ctx.count("newrec_compare_two_args", f"{st['p']['form']}, include_found_by_blocking_rules={st['p']['flag']}"
                              + (", records carry tf_ values" if any(k.startswith("tf_") for q in st["p"]["r1"] + st["p"]["r2"] for k in q) else ""))
                elif st["op"] == "find_matches":
                    ctx.count("newrec_find_matches_args", f"{st['p']['form']}, rules={'str' if isinstance(st['p']['rules'], str) else len(st['p']['rules'])}, threshold={st['p']['thr']}")
                elif st["op"] == "register_tf_lookup":
                    ctx.count("newrec_lookup_overwrite_arg", st["p"].get("overwrite"))
        for s in r["steps"]:
            if not is_rereg(c):
                ctx.count("newrec_op" if c.get("tag") == "newrec" else "op", s["op"])
            if "reference" in s:
                ctx.count("newrec_reference_matched", f"{s['op']}: {s['reference']}")
            if "n_pairs" in s and c.get("tag") == "newrec":
                ctx.count("newrec_predict_checkpoints", "predict() compared with a fresh linker")
            if "raised" in s:
                ctx.count("op_raised", s["op"] + ": " + s["raised"][:60])
            if "excluded" in s:
                ctx.count("excluded", s["excluded"])
        ctx.count("cache_hits_in_history", hits if hits < 5 else "5-20" if hits <= 20 else ">20")
        bad = next((s for s in r["steps"] if "diff" in s), None)
        if bad:
            idx = r["steps"].index(bad)
            concrete.append((c, f"after step {idx + 1} ({bad['op']}) of {op_labels(c['history'][: idx + 1])}: {bad['diff']}", r))
            continue
        req, obs = trace_request(r["events"], {k: tuple(v) for k, v in r["phys"].items()})
        if req is not None:
            reqs.append(req); owners.append((c, obs))
    for (c, obs), m in zip(owners, drv.pbatch(reqs) if reqs else []):
        if "error" in m:
            raise core.HarnessError("model driver error: " + m["error"])
        if m["hits"] != obs:
            k = next(i for i, (a, b) in enumerate(zip(m["hits"], obs)) if a != b)
            broken.append((c, f"cache hit/miss #{k} of the observed request sequence: real {obs[k]} vs Lean Cache.request {m['hits'][k]} ({len(obs)} requests)"))
        else:
            ctx.traces_validated += 1
    for c, r in zip(rt_cases, rt_res):
        if core.impl_error(r):
            concrete.append((c, f"realtime compare_records raised: {r['__error__']}: {r['text'][:200]}", r))
            continue
        ctx.case({"world": c["world"], "seqs": c["seqs"]}, True, sample={"realtime_sequences": c["seqs"][:3]})
        ctx.count("realtime_sequences", len(c["seqs"]))
        for seq in c["seqs"]:
            ctx.count("realtime_dialects_in_one_sequence", len({call[2] if len(call) > 2 else c["world"]["engine"] for call in seq}))
            for call in seq:
                ctx.count("realtime_settings_form", "".join(ch for ch in call[0] if not ch.isupper() or ch == "P"))
        ctx.count("realtime_settings_need_tf", bool(tf_columns(c["world"])))
        v = realtime_verdict(r)
        if v:
            concrete.append((c, v, None))
    reported = set()
    for c, w, r in concrete:
        cls = classify(w)
        if cls in reported or len(reported) >= 4:
            continue
        reported.add(cls)
        if "history" in c and not c.get("tag", "").startswith("corpus"):
            c = shrink_history(c)
            rr = run_case_safe(c)
            bad = next((s for s in rr.get("steps", []) if "diff" in s), None)
            if bad:
                w = f"after step {rr['steps'].index(bad) + 1} ({bad['op']}) of {op_labels(c['history'])}: {bad['diff']}"
        ops = [s["op"] for s in c.get("history", [])]
        ctx.violation("real behaviour violates C07: " + cls, {"case": c, "detail": w}, kind="concrete",
                      match_info={"failure": cls, "last_ops": ops[-2:] if ops else None})
    if not ctx.violations:  # no NEW concrete violation (none at all, or only ones a registered known finding describes)
        if broken:
            c, w = broken[0]
            ctx.violation("correspondence Cache model <-> DatabaseAPI cache no longer checks",
                          {"correspondence": "harness/props/c07.py trace replay: " + w, "case": {"history": [s["op"] for s in c["history"]], "engine": c["world"]["engine"]},
                           "disagreeing_cases": len(broken), "searched_cases": ctx.evaluations, "lean": ctx.lean.as_dict()}, kind="unproved")
        elif not ctx.lean.ok:
            ctx.violation("Lean obligations for C07 no longer check",
                          {"theorems": ctx.lean.as_dict()["undischarged"], "problems": ctx.lean.problems, "build_log_tail": ctx.lean.build_log[-1500:], "searched_cases": ctx.evaluations}, kind="unproved")


def history_fails(case):
    r = run_case_safe(case)
    return "__error__" in r or any("diff" in s for s in r["steps"])


def shrink_history(case):
    cur = json.loads(json.dumps(case))
    # cut after the failing step, then drop earlier steps one at a time
    r = run_case_safe(cur)
    if "steps" in r:
        cur["history"] = cur["history"][: len(r["steps"])]
    budget = 12
    k = len(cur["history"]) - 2
    while k >= 0 and budget > 0:
        cand = json.loads(json.dumps(cur))
        del cand["history"][k]
        budget -= 1
        if history_fails(cand):
            cur = cand
        k -= 1
    return cur
