"""C14, SQL level: T-sql regeneration of Generated/BCountSql.lean (the counting statements of blocking_analysis.py: the per-side
GROUP BY, the USING join with the block products, the total, the no-key forms, the final statement of n_largest_blocks — as Rel
terms with the equi-join key expressions as parameters) and its translation validation.

`prepare()` regenerates the Lean terms from real runs of the public functions on the current tree.
`validate()` evaluates the regenerated statements with the Lean SQL semantics (`Rel.eval`, driver op `bcount_sql`) on the cases of the
correspondence run and compares the total with the pre-filter count the real engine returned for the real code, the `cartesian` the cumulative function
reported with the one the row counts of the regenerated `__splink__df_count` statement give, and the rows of
`n_largest_blocks` with the rows `Rel.eval` gives (every engine row must be one of the rows under `Rel.eval`; the block sizes, in
order, must be those of the resolution the driver computes).  This validates the translator + `Rel.eval` against DuckDB / SQLite;
it is testing, not proof (the proof is `Properties/C14Sql.lean`).
"""
from __future__ import annotations

from harness import core

MAX_ROWS = 30  # Rel.eval's joins are quadratic list scans
MAX_CASES = 700
COLS = ["a", "b", "c", "a1", "b1"]  # a1 / b1: SUBSTRING(a, 1, 1) / SUBSTRING(b, 1, 1), precomputed (the key expressions are parameters)


def prepare() -> list[str]:
    from harness.translate import tsql

    try:
        return tsql.run_isolated("bcount")
    except Exception as e:  # noqa: BLE001
        return [f"T-sql capture/translation failed in write_bcount: {type(e).__name__}: {str(e)[:300]}"]


def _row(rec):
    sub = lambda v: None if v is None else v[:1]  # noqa: E731
    return [rec["a"], rec["b"], rec["c"], sub(rec["a"]), sub(rec["b"])]


def request(case, recs, atoms, two: bool, first_sd) -> dict | None:
    keys = []
    for a in atoms:
        if a[0] == "eq":
            if a[1] not in COLS or a[2] not in COLS:
                return None
            keys.append([COLS.index(a[1]), COLS.index(a[2])])
        elif a[0] == "sub" and a[1] in ("a", "b"):
            keys.append([COLS.index(a[1] + "1")] * 2)
        else:
            return None
    if two:
        L = [_row(r) for r in recs if r["source_dataset"] == first_sd]
        R = [_row(r) for r in recs if r["source_dataset"] != first_sd]
    else:
        L, R = [_row(r) for r in recs], []
    if len(L) + len(R) > MAX_ROWS:
        return None
    q = {"op": "bcount_sql", "two": two, "L": L, "R": R, "keys": keys, "n": int(case["n"])}
    # _row_counts_per_input_table of the cumulative function: __splink__df_concat always holds every record; column 5 = source dataset
    q["concat"] = [_row(r) + [r["source_dataset"]] for r in recs]
    q["sd"] = None if case["link_type"] == "dedupe_only" else 5
    return q


def expected_cartesian(counts, link_type):
    """what `_cumulative_comparisons_to_be_scored_from_blocking_rules` derives from the row counts (the arithmetic is the real
    misc.calculate_cartesian, itself translation-validated by C14's T-arith check)"""
    from splink.internals.misc import calculate_cartesian

    if link_type == "link_only" and len(counts) < 2:
        return 0.0
    return float(calculate_cartesian([{"count": c} for c in counts], link_type))


def _plain(v):
    if v is None or isinstance(v, str):
        return v
    try:
        if v != v:  # NaN: a NULL of a numeric column that went through pandas
            return None
        return int(v)
    except (TypeError, ValueError):
        return str(v)


def validate(ctx: core.Ctx, items, drv: core.Driver):
    """items: (case, records, atoms, two, first_sd, real result).  Returns [(case, text)] for disagreements."""
    todo = []
    for c, recs, atoms, two, first_sd, r in items:
        q = request(c, recs, atoms, two, first_sd)
        if q is not None:
            todo.append((c, q, r))
    todo = todo[:MAX_CASES]
    if not todo:
        return []
    out = drv.pbatch([q for _, q, _ in todo])
    problems = []
    for (c, q, r), m in zip(todo, out):
        if "error" in m:
            ctx.count("sql_model_unavailable", m["error"][:80])
            continue
        ctx.count("translation_validation", "bcount_sql evaluated")
        ctx.count("translation_validation_keys", f"{len(q['keys'])} keys, {'two tables' if q['two'] else 'self-join'}")
        if m["total"] != r["pre"]:
            problems.append((c, f"pre-filter count of the regenerated SQL under Rel.eval (Generated/BCountSql.lean) is {m['total']} but the engine returned {r['pre']} for the real code"))
            continue
        if "nlargest" in r and m.get("top") is not None:
            want_rows = [[_plain(x) for x in row] for row in m["top"]["rows"]]
            got = [[_plain(x) for x in key] + [cl, cr, bc] for key, cl, cr, bc in r["nlargest"]]
            first = [row[-1] for row in m["top"]["first"]]
            if [g[-1] for g in got] != first:
                problems.append((c, f"block sizes of n_largest_blocks: engine {[g[-1] for g in got]}, regenerated SQL under Rel.eval + ORDER BY/LIMIT {first}"))
                continue
            if any(g not in want_rows for g in got) or len({tuple(g) for g in got}) != len(got):
                problems.append((c, f"rows of n_largest_blocks: engine {got[:4]} are not distinct rows of the regenerated statement under Rel.eval {want_rows[:6]}"))
                continue
            ctx.count("translation_validation", "bcount_sql n_largest rows agree with engine")
        if r.get("cartesian") is not None and m.get("rowcounts") is not None:
            want = expected_cartesian(m["rowcounts"], c["link_type"])
            if not core.close(want, r["cartesian"], 1e-12):
                problems.append((c, f"row counts per input table of the regenerated SQL under Rel.eval are {m['rowcounts']}, giving cartesian {want}, but the engine's run of the real code reported cartesian {r['cartesian']}"))
                continue
            ctx.count("translation_validation", "bcount_sql row counts give the engine's cartesian")
        ctx.count("translation_validation", "bcount_sql total agrees with engine")
    return problems
