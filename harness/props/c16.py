"""C16 — library comparison levels mean what their documentation says.

Lean: Model/Levels.lean (`sat` of every level creator under SQL three-valued logic, reference Levenshtein /
Damerau-Levenshtein / Jaro / Jaro-Winkler / Jaccard, `levelsOf` = every create_comparison_levels, `gammaOf`),
Properties/C16.lean (null level two-valued, Kleene laws, family nesting, every comparison well formed for all
arguments, exactly one level per pair, generated table = hand model).
Tie: (a) harness/translate/tlevels.py re-extracts the level lists of every real comparison creator over an argument
grid into Generated/Levels.lean (theorems re-checked by `decide`); (b) every level creator x argument grid x
{duckdb, sqlite} is evaluated through the real backend on a grid of value pairs (one table per scenario, one query for
all levels and CASE statements) and compared with an independent Python oracle of the documented predicate and with
the compiled Lean `sat` / `gammaOf`.
"""
from __future__ import annotations

import datetime as dt
import json
import math
import random
import re
from fractions import Fraction

from harness import core
from harness.translate import tlevels

PROP = "C16"

# --------------------------------------------------------------------------- columns and SQL literals
COLTYPE = {"s": "str", "s2": "str", "fs": "str", "a": "strarr", "x": "float", "xi": "int", "ds": "str", "df": "str", "ts": "str",
           "dd": "date", "tt": "timestamp", "lat": "float", "lng": "float", "e": "floatarr", "pc": "str", "em": "str",
           # audit c16: a column name that needs quoting (copy of s2), latitude/longitude inside a STRUCT and inside an array, a timestamp string in a non-ISO format
           "sur name": "str", "ll": "llstruct", "la": "dblarr", "tf": "str"}
SQLTYPE = {"duckdb": {"str": "VARCHAR", "strarr": "VARCHAR[]", "float": "DOUBLE", "int": "BIGINT", "date": "DATE", "timestamp": "TIMESTAMP", "floatarr": "FLOAT[3]",
                      "llstruct": "STRUCT(lat DOUBLE, lng DOUBLE)", "dblarr": "DOUBLE[]"},
           "sqlite": {"str": "TEXT", "float": "REAL", "int": "INTEGER"}}
TF_FORMAT = "%d/%m/%Y %H:%M:%S"


def _part(i):
    return lambda p, k: None if p[("ll", "la")[i // 2]][k] is None else p[("ll", "la")[i // 2]][k][i % 2]


# column expressions whose BASE is not a plain column: physical columns they read, and their value on one side of a pair
EXPR_BASE = {
    "s || s2": (["s", "s2"], lambda p, k: None if p["s"][k] is None or p["s2"][k] is None else p["s"][k] + p["s2"][k]),
    "upper(s)": (["s"], lambda p, k: None if p["s"][k] is None else p["s"][k].upper()),
    "ll['lat']": (["ll"], _part(0)), "ll['lng']": (["ll"], _part(1)), "la[1]": (["la"], _part(2)), "la[2]": (["la"], _part(3)),
}


def phys_cols(base: str) -> list:
    return EXPR_BASE[base][0] if base in EXPR_BASE else [base]
EPOCH = dt.datetime(1970, 1, 1)


def sql_lit(v, typ: str) -> str:
    if v is None:
        return "NULL"
    if typ == "str":
        return "'" + v.replace("'", "''") + "'"
    if typ == "float":
        return repr(float(v))
    if typ == "int":
        return str(int(v))
    if typ == "date":
        return f"DATE '{v}'"
    if typ == "timestamp":
        return f"TIMESTAMP '{v}'"
    if typ == "strarr":
        return "[" + ", ".join(sql_lit(x, "str") for x in v) + "]::VARCHAR[]"
    if typ == "floatarr":
        return "[" + ", ".join(repr(float(x)) for x in v) + "]::FLOAT[3]"
    if typ == "llstruct":
        return "{'lat': " + sql_lit(v[0], "float") + ", 'lng': " + sql_lit(v[1], "float") + "}::STRUCT(lat DOUBLE, lng DOUBLE)"
    if typ == "dblarr":
        return "[" + ", ".join(sql_lit(x, "float") for x in v) + "]::DOUBLE[]"
    raise ValueError(typ)


# --------------------------------------------------------------------------- level specs -> real creators
def build_level(spec, dialect: str, raw_ok: bool = False, ce_cache: dict | None = None):
    """spec = [ClassName, kwargs] | ['And'|'Or', [specs]] | ['Not', spec] | {'sql_condition': ...}; a FRESH real creator.
    A dict with '__raw' stays a plain dict when it sits inside And / Or / Not (they accept dicts).  With `ce_cache`, equal column
    specs share ONE ColumnExpression object (a user who builds `col = ColumnExpression(..)` once and passes it to several levels)."""
    from splink.internals import comparison_level_library as cll
    from splink.internals.column_expression import ColumnExpression

    if isinstance(spec, dict):
        d = {k: v for k, v in spec.items() if not k.startswith("__")}
        return d if (raw_ok and spec.get("__raw")) else cll.CustomLevel(**d)
    name, arg = spec
    if name in ("And", "Or"):
        return getattr(cll, name)(*[build_level(x, dialect, True, ce_cache) for x in arg])
    if name == "Not":
        return cll.Not(build_level(arg, dialect, True, ce_cache))
    kw = dict(arg)
    for k in ("col_name", "col_name_1", "col_name_2", "lat_col", "long_col"):
        if k in kw:
            if ce_cache is None:
                kw[k] = tlevels._ce(kw[k])
            else:
                key = json.dumps(kw[k])
                if key not in ce_cache:
                    ce = tlevels._ce(kw[k])
                    ce_cache[key] = ColumnExpression(ce) if isinstance(ce, str) else ce
                kw[k] = ce_cache[key]
    if kw.get("distance_function_name") == "@jw":
        kw["distance_function_name"] = tlevels.JW_NAME[dialect]
    return getattr(cll, name)(**kw)


def L(name, **kw):
    return [name, kw]


def level_specs(scn: str) -> list:
    if scn in ("str", "strne"):
        out = [L("NullLevel", col_name="s"), L("ExactMatchLevel", col_name="s"), L("ExactMatchLevel", col_name=["s", "lower"]), L("ExactMatchLevel", col_name=["s", ["substr", 1, 2]]),
               L("NullLevel", col_name=["s", ["nullif", ""]]),
               L("LiteralMatchLevel", col_name="s", literal_value="martha", literal_datatype="string", side_of_comparison="left"),
               L("LiteralMatchLevel", col_name="s", literal_value="ab", literal_datatype="string", side_of_comparison="right"),
               L("LiteralMatchLevel", col_name="s", literal_value="ab", literal_datatype="string"),
               L("ColumnsReversedLevel", col_name_1="s", col_name_2="s2"), L("ColumnsReversedLevel", col_name_1="s", col_name_2="s2", symmetrical=True)]
        out += [L("LevenshteinLevel", col_name="s", distance_threshold=k) for k in (0, 1, 2, 3, 7)]
        out += [L("DamerauLevenshteinLevel", col_name="s", distance_threshold=k) for k in (0, 1, 2, 3)]
        out += [L("JaroLevel", col_name="s", distance_threshold=t) for t in (0, 0.7, 0.9, 1)]
        out += [L("JaroWinklerLevel", col_name="s", distance_threshold=t) for t in (0.7, 0.84, 0.88, 0.92, 1.0)]
        out += [L("DistanceFunctionLevel", col_name="s", distance_function_name="levenshtein", distance_threshold=2, higher_is_more_similar=False),
                L("DistanceFunctionLevel", col_name="s", distance_function_name="@jw", distance_threshold=0.9, higher_is_more_similar=True)]
        lev1, ex, nl, ex2 = L("LevenshteinLevel", col_name="s", distance_threshold=1), L("ExactMatchLevel", col_name="s"), L("NullLevel", col_name="s"), L("ExactMatchLevel", col_name="s2")
        out += [["And", [lev1, ex2]], ["Or", [ex, ex2]], ["Not", ex], ["Not", nl], ["Not", ["Not", lev1]], ["And", [nl, L("NullLevel", col_name="s2")]], ["Or", [nl, L("NullLevel", col_name="s2")]],
                ["And", [lev1, ["Not", ex], ["Or", [ex2, L("NullLevel", col_name="s2")]]]], ["Not", ["And", [lev1, ex2]]], ["Or", [["Not", lev1], ["Not", ex2]]],
                {"sql_condition": "substr(s_l, 1, 1) = substr(s_r, 1, 1)"}]
        # ---- audit c16: argument boundaries and forms
        first = "substr(s_l, 1, 1) = substr(s_r, 1, 1)"
        out += [L("LiteralMatchLevel", col_name="s", literal_value="", literal_datatype="string"),  # the empty string as the literal
                L("LiteralMatchLevel", col_name="s", literal_value="o'brien", literal_datatype="string", side_of_comparison="left"),  # a literal with an apostrophe
                L("ExactMatchLevel", col_name=["s", "lower", ["substr", 2, 3]]), L("ExactMatchLevel", col_name="s || s2"), L("ExactMatchLevel", col_name=["upper(s)", ["substr", 1, 2]]),
                L("ExactMatchLevel", col_name="sur name"), L("ColumnsReversedLevel", col_name_1="s", col_name_2="sur name", symmetrical=True),
                L("NullLevel", col_name=["s", ["nullif", "ab"]]), L("NullLevel", col_name=["s", ["nullif", "o'brien"]]), L("LevenshteinLevel", col_name="s", distance_threshold=1.5),
                # thresholds with 7 decimals on either side of a constructible score (jw(martha, marhta) = 0.96111.., jaro = 0.94444..)
                L("JaroWinklerLevel", col_name="s", distance_threshold=0.9611111), L("JaroWinklerLevel", col_name="s", distance_threshold=0.9611112),
                L("JaroLevel", col_name="s", distance_threshold=0.9444444), L("JaroLevel", col_name="s", distance_threshold=0.9444445),
                L("DistanceFunctionLevel", col_name="s", distance_function_name="@jw", distance_threshold=0.9),  # higher_is_more_similar left at its default
                {"sql_condition": first, "base_dialect_str": "duckdb"}, {"sql_condition": first, "base_dialect_str": "sqlite", "label_for_charts": "first letter"},  # translated by sqlglot on the other engine
                ["Or", [{"sql_condition": first, "__raw": True}, ex2]], ["Not", {"sql_condition": first, "__raw": True}]]  # plain dicts inside compositions
        if scn == "strne":
            out = [L("JaccardLevel", col_name="s", distance_threshold=t) for t in (0, 0.5, 0.6, 0.9, 1)] + [L("NullLevel", col_name=["s", ["regex", "^[a-m]+"]]), L("ExactMatchLevel", col_name=["s", ["regex", "^[a-m]+"]])]
            # audit c16: a capture group other than 0, an operation after the extraction, first / last array element
            out += [L("ExactMatchLevel", col_name=["s", ["regex", "^([a-m]*)([^a-m].*)$", 2]]), L("NullLevel", col_name=["s", ["regex", "^([a-m]*)([^a-m].*)$", 2]]),
                    L("ExactMatchLevel", col_name=["s", ["regex", "^.(.)", 1], "lower"]),
                    L("ExactMatchLevel", col_name=["a", ["elem", "last"]]), L("LevenshteinLevel", col_name=["a", ["elem", "first"]], distance_threshold=1)]
        return out
    if scn == "num":
        out = [L("NullLevel", col_name="x"), L("ExactMatchLevel", col_name="x"), L("ExactMatchLevel", col_name="xi"),
               L("LiteralMatchLevel", col_name="xi", literal_value="10", literal_datatype="int"), L("LiteralMatchLevel", col_name="x", literal_value="2.5", literal_datatype="float", side_of_comparison="left")]
        out += [L("AbsoluteDifferenceLevel", col_name=c, difference_threshold=t) for c in ("x", "xi") for t in (0, 1, 2.5, 10)]
        out += [L("PercentageDifferenceLevel", col_name="x", percentage_threshold=t) for t in (0, 0.1, 0.25, 0.5, 1)]
        # integer column: SQLite/Postgres divide integers (fixed in c25435e3, regression corpus/C16/sqlite_percentage_integer_division.json)
        out += [L("PercentageDifferenceLevel", col_name="xi", percentage_threshold=t) for t in (0.1, 0.5)]
        out += [["Not", L("AbsoluteDifferenceLevel", col_name="x", difference_threshold=1)], ["And", [L("AbsoluteDifferenceLevel", col_name="x", difference_threshold=10), ["Not", L("ExactMatchLevel", col_name="x")]]]]
        # ---- audit c16: the literal given as a number / as zero, thresholds printed in exponent notation, thresholds with 7 decimals
        out += [L("LiteralMatchLevel", col_name="xi", literal_value=10, literal_datatype="int", side_of_comparison="right"), L("LiteralMatchLevel", col_name="xi", literal_value="0", literal_datatype="int"),
                L("LiteralMatchLevel", col_name="x", literal_value=0.0, literal_datatype="float", side_of_comparison="left"), L("LiteralMatchLevel", col_name="x", literal_value="-10", literal_datatype="float"),
                L("AbsoluteDifferenceLevel", col_name="x", difference_threshold=2.0 ** -20), L("AbsoluteDifferenceLevel", col_name="x", difference_threshold=1e16),
                L("AbsoluteDifferenceLevel", col_name="x", difference_threshold=0.1234567), L("AbsoluteDifferenceLevel", col_name="xi", difference_threshold=2.0 ** -20),
                L("PercentageDifferenceLevel", col_name="x", percentage_threshold=0.090909), L("PercentageDifferenceLevel", col_name="x", percentage_threshold=0.0909091),
                L("PercentageDifferenceLevel", col_name="xi", percentage_threshold=0.0909091), L("PercentageDifferenceLevel", col_name="xi", percentage_threshold=1)]
        return out
    if scn == "date":
        out = [L("NullLevel", col_name="ds"), L("ExactMatchLevel", col_name="ds"), L("ExactMatchLevel", col_name="dd")]
        for t, m in ((1, "day"), (10, "day"), (1, "month"), (1, "year"), (4, "year"), (0, "day"), (1.5, "day"), (86400, "second"), (1440, "minute"), (24, "hour")):
            out.append(L("AbsoluteDateDifferenceLevel", col_name="ds", input_is_string=True, threshold=t, metric=m))
            out.append(L("AbsoluteDateDifferenceLevel", col_name="dd", input_is_string=False, threshold=t, metric=m))
        out.append(L("AbsoluteDateDifferenceLevel", col_name="df", input_is_string=True, threshold=1, metric="day", datetime_format="%d/%m/%Y"))
        for t, m in ((1, "second"), (90, "minute"), (1, "day"), (1, "month"), (1, "year")):
            out.append(L("AbsoluteTimeDifferenceLevel", col_name="ts", input_is_string=True, threshold=t, metric=m))
            out.append(L("AbsoluteTimeDifferenceLevel", col_name="tt", input_is_string=False, threshold=t, metric=m))
        # ---- audit c16: date literal, cast / parse operations used directly, a timestamp format, fractional / zero / huge thresholds
        out += [L("LiteralMatchLevel", col_name="dd", literal_value="2000-01-01", literal_datatype="date"), L("LiteralMatchLevel", col_name="dd", literal_value="2000-02-29", literal_datatype="date", side_of_comparison="left"),
                L("ExactMatchLevel", col_name=["dd", "cast_to_string", ["substr", 1, 4]]), L("NullLevel", col_name=["ds", ["try_parse_date", None]]), L("NullLevel", col_name=["df", ["try_parse_date", "%d/%m/%Y"]]),
                L("ExactMatchLevel", col_name=["df", ["try_parse_date", "%d/%m/%Y"]]), L("NullLevel", col_name=["tf", ["try_parse_timestamp", TF_FORMAT]]),
                L("AbsoluteTimeDifferenceLevel", col_name="tf", input_is_string=True, threshold=1, metric="second", datetime_format=TF_FORMAT),
                L("AbsoluteTimeDifferenceLevel", col_name="tf", input_is_string=True, threshold=0, metric="hour", datetime_format=TF_FORMAT),
                L("AbsoluteTimeDifferenceLevel", col_name="tf", input_is_string=True, threshold=1e-05, metric="day", datetime_format=TF_FORMAT),  # 0.864 s, printed from a float product
                L("AbsoluteDateDifferenceLevel", col_name="ds", input_is_string=True, threshold=0.5, metric="month"), L("AbsoluteDateDifferenceLevel", col_name="dd", input_is_string=False, threshold=100, metric="year"),
                L("AbsoluteDateDifferenceLevel", col_name="dd", input_is_string=False, threshold=0, metric="year")]
        return out
    if scn == "arr":
        out = [L("NullLevel", col_name="a")] + [L("ArrayIntersectLevel", col_name="a", min_intersection=n) for n in (0, 1, 2, 3)] + [L("ArrayIntersectLevel", col_name="a")]
        out += [L("ArraySubsetLevel", col_name="a"), L("ArraySubsetLevel", col_name="a", empty_is_subset=True)]
        out += [L("PairwiseStringDistanceFunctionLevel", col_name="a", distance_function_name=f, distance_threshold=t)
                for f, t in (("levenshtein", 0), ("levenshtein", 1), ("levenshtein", 2), ("damerau_levenshtein", 1), ("jaro", 0.9), ("jaro_winkler", 0.88), ("jaro_winkler", 1))]
        # ---- audit c16: whole-array equality, first / last element, fractional distance, similarity threshold 0
        out += [L("ExactMatchLevel", col_name="a"), L("ExactMatchLevel", col_name=["a", ["elem", "first"]]), L("NullLevel", col_name=["a", ["elem", "last"]]),
                L("JaroWinklerLevel", col_name=["a", ["elem", "last"]], distance_threshold=0.88),
                L("PairwiseStringDistanceFunctionLevel", col_name="a", distance_function_name="levenshtein", distance_threshold=1.5),
                L("PairwiseStringDistanceFunctionLevel", col_name="a", distance_function_name="jaro", distance_threshold=0)]
        return out
    if scn == "km":
        out = [L("NullLevel", col_name="lat"), ["Or", [L("NullLevel", col_name="lat"), L("NullLevel", col_name="lng")]]]
        out += [L("DistanceInKMLevel", lat_col="lat", long_col="lng", km_threshold=t, not_null=nn) for nn in (False, True) for t in (0, 0.01, 1, 10, 343.5, 5570, 10007, 20015, 20016, 100000)]
        # ---- audit c16: latitude / longitude as a struct field and as an array element (the forms the docstring names)
        out += [L("DistanceInKMLevel", lat_col="ll['lat']", long_col="ll['lng']", km_threshold=343.5, __engines=["duckdb"]),
                L("DistanceInKMLevel", lat_col="la[1]", long_col="la[2]", km_threshold=10007, not_null=True, __engines=["duckdb"])]
        return out
    if scn == "cos":
        return [L("NullLevel", col_name="e")] + [L("CosineSimilarityLevel", col_name="e", similarity_threshold=t) for t in (0, 0.5, 0.7, 0.9, 1, 0.9599001, 0.9600999)]  # cos([3,4,0],[4,3,0]) = 0.96
    if scn == "misc":
        pcre = tlevels_regex()
        return [L("NullLevel", col_name="pc", valid_string_pattern=pcre["valid"]), L("NullLevel", col_name="pc"), L("ExactMatchLevel", col_name=["pc", ["regex", pcre["sector"]]]),
                L("ExactMatchLevel", col_name=["pc", ["regex", pcre["district"]]]), L("ExactMatchLevel", col_name=["pc", ["regex", pcre["area"]]]),
                L("ExactMatchLevel", col_name=["em", ["regex", "^[^@]+"]]), L("JaroWinklerLevel", col_name=["em", ["regex", "^[^@]+"]], distance_threshold=0.88),
                # audit c16: capture group 1 (the e-mail domain), a validity pattern on another column, lower() before the extraction
                L("ExactMatchLevel", col_name=["em", ["regex", "@([^@]+)$", 1]]), L("NullLevel", col_name="em", valid_string_pattern="^[^@]+@[^@]+$"),
                L("ExactMatchLevel", col_name=["pc", "lower", ["regex", "^[a-z]{1,2}"]])]
    raise ValueError(scn)


def tlevels_regex():
    from splink.internals.comparison_library import PostcodeComparison as P

    return {"valid": P.VALID_POSTCODE_REGEX, "sector": P.SECTOR_REGEX, "district": P.DISTRICT_REGEX, "area": P.AREA_REGEX}


SCN_ENGINES = {"str": ["duckdb", "sqlite"], "strne": ["duckdb"], "num": ["duckdb", "sqlite"], "date": ["duckdb"], "arr": ["duckdb"], "km": ["duckdb", "sqlite"], "cos": ["duckdb"], "misc": ["duckdb"]}
SCN_COLS = {"str": ["s", "s2", "fs", "sur name"], "strne": ["s", "s2", "fs", "a", "sur name"], "num": ["x", "xi"], "date": ["ds", "dd", "df", "ts", "tt", "tf"], "arr": ["a"], "km": ["lat", "lng", "ll", "la"], "cos": ["e"],
            "misc": ["pc", "em", "lat", "lng"]}


def comparison_scenario(spec) -> str | None:
    cols = comparison_cols(spec)
    if spec["creator"] == "CustomComparison":
        return "str"
    for scn in ("str", "arr", "strne", "num", "date", "km", "cos", "misc"):
        if cols <= set(SCN_COLS[scn]):
            if spec["creator"] == "JaccardAtThresholds":
                return "strne"
            return scn
    return None


# --------------------------------------------------------------------------- value pairs
STRS = [None, "", "a", "ab", "ba", "abc", "abd", "ca", "martha", "marhta", "Martha", "dwayne", "duane", "dixon", "dicksonx", "jones", "johnson", "kitten", "sitting", "aaaa", "aaab", "xyz",
        "o'brien"]  # audit c16: an apostrophe in the data (and in a literal)
DATES = [None, "2000-01-01", "2000-01-02", "2000-01-11", "2000-01-31", "2000-02-01", "2000-03-01", "2000-12-31", "2001-01-01", "2004-01-01", "2010-01-01", "1999-12-31", "1990-06-15",
         "1969-12-31", "1900-01-01", "2000-02-29"]  # audit c16: before the Unix epoch (negative epoch seconds), a leap day
BAD_DATES = ["2000-13-01", "abc", "", "2000-02-30"]
TIMES = ["00:00:00", "00:00:01", "01:30:00", "12:00:00", "10:30:00"]
ARRS = [None, [], ["a"], ["a", "b"], ["b", "a"], ["a", "b", "c"], ["c"], ["abc"], ["abd", "xyz"], ["martha"], ["marhta", "jones"], ["a", "a"], ["a", "a", "b"], ["kitten", "c"],
        [""], ["", "a"]]  # audit c16: the empty string as an array element
COORDS = [(0.0, 0.0), (0.0, 180.0), (90.0, 0.0), (-90.0, 0.0), (90.0, 123.0), (51.5, -0.12), (48.85, 2.35), (29.7517, -95.4054), (51.5001, -0.12), (0.0, 90.0), (0.0, -180.0), (-51.5, 179.88), (None, 0.0), (10.0, None), (None, None)]
VECS = [None, [1.0, 0.0, 0.0], [0.0, 1.0, 0.0], [1.0, 1.0, 0.0], [2.0, 0.0, 0.0], [-1.0, 0.0, 0.0], [3.0, 4.0, 0.0], [4.0, 3.0, 0.0], [1.0, 2.0, 2.0], [0.5, 0.5, 0.5]]
NUMS = [None, 0.0, 1.0, 1.1, 0.9, 10.0, 11.0, 9.0, 100.0, 110.0, 90.0, 125.0, -10.0, -11.0, -20.0, 2.5, 5.0, 7.5, 0.75, 1000000.0,
        -0.0, 2.0 ** -20, 0.1234567, 0.1234568]  # audit c16: negative zero, values 2^-20 apart (threshold printed as 9.5367431640625e-07), 7-decimal neighbours
INTS = [None, 0, 1, 5, 10, 11, 15, 20, 100, 90, 110, -10, -20, 2, 4,
        2 ** 53, 2 ** 53 + 1, -(2 ** 62)]  # audit c16: integers that differ by 1 beyond the exact range of doubles
PCS = [None, "AB1 2CD", "AB1 2CE", "AB1 3CD", "AB2 2CD", "AC1 2CD", "ab1 2cd", "XX", "", "B1 1AA", "AB12 3CD", "invalid", "AB1 2CD ", "AB1"]
EMS = [None, "john@smith.com", "john@other.com", "jon@smith.com", "john.smith@company.com", "john.smyth@company.com", "rebecca@other.com", "nodomain", "", "@x.com"]


def antipodal_pairs(rng, k):
    """Exactly antipodal coordinate pairs at latitudes where sin*sin + cos*cos*cos(pi) rounds to just BELOW -1 in double precision
    (about 4% of a 0.1-degree grid): the clip of the acos argument must send it to -1 (half the circumference), not elsewhere."""
    import math

    hits = []
    for i in range(0, 901):
        la = i / 10
        a, b = math.radians(la), math.radians(-la)
        if math.sin(a) * math.sin(b) + math.cos(a) * math.cos(b) * math.cos(math.radians(180.0)) < -1:
            hits.append(la)
    rng.shuffle(hits)
    out = []
    for la in hits[:k]:
        lo = rng.choice([0.0, 10.0, -60.0])
        out += [(la, lo), (-la, lo + 180.0 if lo <= 0 else lo - 180.0)]
    return out


def rand_str(rng):
    return "".join(rng.choice("abcm") for _ in range(rng.randint(1, 6)))


def side_values(scn: str, rng: random.Random, thorough: bool) -> list[dict]:
    """One record (column -> value) per grid point of the scenario; pairs are all ordered pairs of records."""
    recs = []
    if scn in ("str", "strne"):
        vals = STRS + [rand_str(rng) for _ in range(70 if thorough else 10)]
        if scn == "strne":
            vals = [v for v in vals if v != ""]
        for i, v in enumerate(vals):
            s2 = rng.choice([None, "ab", "martha", "jones", v, v, "abc"])
            if scn == "strne" and s2 == "":
                s2 = "ab"
            recs.append({"s": v, "s2": s2, "fs": None if v is None or s2 is None else f"{v} {s2}", **({"a": rng.choice(ARRS)} if scn == "strne" else {}), "sur name": s2})
    elif scn == "num":
        n = max(len(NUMS), len(INTS)) + (40 if thorough else 2)
        for i in range(n):
            recs.append({"x": NUMS[i] if i < len(NUMS) else round(rng.uniform(-50, 200), rng.choice([0, 1, 2])), "xi": INTS[i] if i < len(INTS) else rng.randint(-30, 120)})
    elif scn == "date":
        ds = DATES + BAD_DATES + [(dt.date(2000, 1, 1) + dt.timedelta(days=rng.randint(-4000, 4000))).isoformat() for _ in range(30 if thorough else 3)]
        for i, d in enumerate(ds):
            ok = d is not None and d not in BAD_DATES
            tm = TIMES[i % len(TIMES)]
            recs.append({"ds": d, "dd": d if ok else None, "df": (dt.date.fromisoformat(d).strftime("%d/%m/%Y") if ok else d), "ts": (f"{d}T{tm}Z" if ok else d), "tt": (f"{d} {tm}" if ok else None),
                         "tf": (dmy(dt.date.fromisoformat(d)) + " " + tm if ok else d)})
        # timestamps exactly one averaged month / year apart (2629800 s, 31557600 s)
        base = dt.datetime(2000, 1, 1, 0, 0, 0)
        for delta in (2629800, 2629801, 31557600, 31557599, 5400, 5401):
            t = base + dt.timedelta(seconds=delta)
            recs.append({"ds": t.date().isoformat(), "dd": t.date().isoformat(), "df": t.date().strftime("%d/%m/%Y"), "ts": t.strftime("%Y-%m-%dT%H:%M:%SZ"), "tt": t.strftime("%Y-%m-%d %H:%M:%S"),
                         "tf": dmy(t.date()) + " " + t.strftime("%H:%M:%S")})
    elif scn == "arr":
        for a in ARRS + [[rng.choice(["a", "b", "c", "abc", "abd"]) for _ in range(rng.randint(1, 3))] for _ in range(20 if thorough else 2)]:
            recs.append({"a": a})
    elif scn == "km":
        cs = COORDS + [(round(rng.uniform(-90, 90), 4), round(rng.uniform(-180, 180), 4)) for _ in range(70 if thorough else 10)]
        cs += antipodal_pairs(rng, 8 if not thorough else 30)
        for la, lo in cs:
            recs.append({"lat": la, "lng": lo, "ll": None if la is None and lo is None else [la, lo], "la": None if la is None and lo is None else [la, lo]})
    elif scn == "cos":
        for v in VECS + [[float(rng.randint(-3, 3)) or 1.0, float(rng.randint(-3, 3)), float(rng.randint(0, 3))] for _ in range(6 if thorough else 2)]:
            recs.append({"e": v})
    elif scn == "misc":
        n = max(len(PCS), len(EMS))
        for i in range(n):
            la, lo = COORDS[i % 10]
            recs.append({"pc": PCS[i % len(PCS)], "em": EMS[i % len(EMS)], "lat": la, "lng": lo})
    return recs


def dmy(d: dt.date) -> str:
    return f"{d.day:02d}/{d.month:02d}/{d.year:04d}"


def make_pairs(recs):
    return [{c: [a[c], b[c]] for c in a} for a in recs for b in recs]


# --------------------------------------------------------------------------- real code
def eval_real(task: dict) -> dict:
    """Evaluate every level's SQL condition and every comparison's CASE statement on the task's pairs through the real backend."""
    from splink.internals.pipeline import CTEPipeline
    from splink.internals.settings import ColumnInfoSettings

    from harness import impl

    if task.get("tag") == "linker":
        return eval_linker(task)
    eng = task["engine"]
    api = impl.make_api(eng, threads=2)
    cols = task["cols"]
    tname = "c16_pairs"
    types = SQLTYPE[eng]
    ddl = ", ".join(f'"{c}_{sd}" {types[COLTYPE[c]]}' for c in cols for sd in ("l", "r"))
    api._execute_sql_against_backend(f"CREATE TABLE {tname} (rid INTEGER, {ddl})")
    pairs = task["pairs"]
    for i0 in range(0, len(pairs), 400):
        rows = []
        for i, p in enumerate(pairs[i0:i0 + 400], start=i0):
            rows.append("(" + ", ".join([str(i)] + [sql_lit(p[c][k], COLTYPE[c]) for c in cols for k in (0, 1)]) + ")")
        api._execute_sql_against_backend(f"INSERT INTO {tname} VALUES " + ", ".join(rows))
    if eng == "sqlite":
        api.con.commit()
    exprs, errors = [], {}
    fresh_sql = {}
    for li, spec in enumerate(task["levels"]):
        try:
            cond = build_level(clean(spec), eng).get_comparison_level(eng).sql_condition
            exprs.append((f"l{li}", "TRUE" if cond == "ELSE" else cond))
            fresh_sql[f"l{li}"] = exprs[-1][1]
        except Exception as e:  # noqa: BLE001
            errors[f"l{li}"] = creation_error(e)
    mock = ColumnInfoSettings(bayes_factor_column_prefix="bm_", term_frequency_adjustment_column_prefix="tf_", comparison_vector_value_column_prefix="cv_", unique_id_column_name="unique_id",
                              _source_dataset_column_name="dataset", _source_dataset_column_name_is_required=False, sql_dialect=eng)

    def case_sql(comp):
        comp.column_info_settings = mock
        return comp._case_statement.rsplit(" as ", 1)[0]

    for ci, spec in enumerate(task["comparisons"]):
        try:
            exprs.append((f"g{ci}", case_sql(tlevels.build_comparison(spec, eng).get_comparison(eng))))
            fresh_sql[f"g{ci}"] = exprs[-1][1]
        except Exception as e:  # noqa: BLE001
            errors[f"g{ci}"] = creation_error(e)
    # ---- re-presentations of the SAME creators (object reuse, other dialects first, failed calls first, dict / JSON form): the SQL they
    # yield must be the SQL of the fresh creator; when it is not, the differing SQL is evaluated as well and judged by the oracle
    variants = {}
    for name, label, sql in reuse_variants(task, eng, case_sql):
        if name not in fresh_sql:
            continue
        if isinstance(sql, dict):
            variants.setdefault(name, []).append({"label": label, "error": sql})
        elif sql == fresh_sql[name]:
            variants.setdefault(name, []).append({"label": label, "same": True})
        else:
            vn = f"{name}v{len(variants.get(name, []))}"
            exprs.append((vn, sql))
            variants.setdefault(name, []).append({"label": label, "same": False, "name": vn, "sql": sql[:600]})

    def run(sub):
        pipe = CTEPipeline()
        pipe.enqueue_sql(f"SELECT rid, {', '.join(f'({e}) AS {n}' for n, e in sub)} FROM {tname}", "__splink__c16_eval")
        return api.sql_pipeline_to_splink_dataframe(pipe).as_record_dict()

    out = {}
    try:
        recs = run(exprs)
        for n, _ in exprs:
            out[n] = [None] * len(pairs)
        for r in recs:
            for n, _ in exprs:
                out[n][r["rid"]] = r[n]
    except Exception:  # noqa: BLE001  one failing expression fails the whole query: localise it
        for n, e in exprs:
            try:
                recs = run([(n, e)])
                out[n] = [None] * len(pairs)
                for r in recs:
                    out[n][r["rid"]] = r[n]
            except Exception as ex:  # noqa: BLE001
                errors[n] = {"kind": "execution", "type": type(ex).__name__, "text": str(ex)[-400:], "sql": e[:600]}
    norm = {}
    for n, vals in out.items():
        if n.startswith("l"):
            norm[n] = [None if v is None else bool(v) for v in vals]
        else:
            norm[n] = [None if v is None else int(v) for v in vals]
    return {"values": norm, "errors": errors, "sql": {n: e[:400] for n, e in exprs[:400]}, "variants": variants}


def eval_linker(task: dict) -> dict:
    """The comparisons of the task inside a real link_only Linker over two registered tables (given by NAME) holding the task's records:
    gamma_* of predict() for every ordered pair of records; then the model saved to JSON and loaded into a second Linker on the same
    database API (predict() again); then compare_two_records() on single-row tables for a few pairs."""
    import logging

    from splink import Linker, SettingsCreator

    from harness import impl

    logging.disable(logging.CRITICAL)
    try:
        return run_linker(task, task["comparisons"])
    except core.HarnessError:
        raise
    except Exception:  # noqa: BLE001  one comparison that cannot be used fails the whole Linker: localise it, keep the others
        out = {"values": {}, "errors": {}, "sql": {}, "variants": {}}
        for ci, spec in enumerate(task["comparisons"]):
            try:
                one = run_linker(task, [spec])
                out["values"][f"g{ci}"] = one["values"]["g0"]
                out["variants"][f"g{ci}"] = one["variants"].get("g0", [])
            except core.HarnessError:
                raise
            except Exception as e:  # noqa: BLE001
                out["errors"][f"g{ci}"] = {"kind": "execution", "type": type(e).__name__, "text": "inside a Linker (predict()): " + str(e)[:300]}
        return out


def run_linker(task: dict, comparison_specs: list) -> dict:
    from splink import Linker, SettingsCreator

    from harness import impl

    eng, cols, recs = task["engine"], task["cols"], task["records"]
    n = len(recs)
    api = impl.make_api(eng, threads=2)
    types = SQLTYPE[eng]
    ddl = ", ".join(f'"{c}" {types[COLTYPE[c]]}' for c in cols)
    for t in ("c16_a", "c16_b"):
        api._execute_sql_against_backend(f"CREATE TABLE {t} (unique_id INTEGER, {ddl})")
        rows = ["(" + ", ".join([str(i)] + [sql_lit(r[c], COLTYPE[c]) for c in cols]) + ")" for i, r in enumerate(recs)]
        api._execute_sql_against_backend(f"INSERT INTO {t} VALUES " + ", ".join(rows))
    if eng == "sqlite":
        api.con.commit()
    creators = [tlevels.build_comparison(spec, eng) for spec in comparison_specs]
    settings = SettingsCreator(link_type="link_only", comparisons=creators, blocking_rules_to_generate_predictions=["1=1"])
    linker = Linker(["c16_a", "c16_b"], settings, db_api=api, set_up_basic_logging=False)
    outs = [c.output_column_name for c in linker._settings_obj.comparisons]

    def gammas(records):
        vals = {f"g{ci}": [None] * (n * n) for ci in range(len(outs))}
        seen = 0
        for r in records:
            k = r["unique_id_l"] * n + r["unique_id_r"]
            seen += 1
            for ci, o in enumerate(outs):
                vals[f"g{ci}"][k] = None if r["gamma_" + o] is None else int(r["gamma_" + o])
        if seen != n * n:
            raise core.HarnessError(f"predict() over 1=1 returned {seen} rows for {n}x{n} records")
        return vals

    values = gammas(linker.inference.predict().as_record_dict())
    variants = {}

    def add(label, vals):
        for name, v in vals.items():
            variants.setdefault(name, []).append({"label": label, "same": True} if v == values[name] else {"label": label, "same": False, "values": v})

    label = "model saved to JSON, loaded into a second Linker on the same database API: predict()"
    try:
        model = json.loads(json.dumps(linker.misc.save_model_to_json()))
        linker2 = Linker(["c16_a", "c16_b"], model, db_api=api, set_up_basic_logging=False)
        add(label, gammas(linker2.inference.predict().as_record_dict()))
    except core.HarnessError:
        raise
    except Exception as e:  # noqa: BLE001
        for name in values:
            variants.setdefault(name, []).append({"label": label, "error": {"type": type(e).__name__, "text": str(e)[-300:]}})
    label = "compare_two_records() on single-row tables"
    try:
        vals = {name: list(v) for name, v in values.items()}
        for i, j in task["probe_pairs"]:
            for t, src, k in (("c16_one_l", "c16_a", i), ("c16_one_r", "c16_b", j)):
                api._execute_sql_against_backend(f"DROP TABLE IF EXISTS {t}")
                api._execute_sql_against_backend(f"CREATE TABLE {t} AS SELECT * FROM {src} WHERE unique_id = {k}")
            if eng == "sqlite":
                api.con.commit()
            (r,) = linker.inference.compare_two_records("c16_one_l", "c16_one_r").as_record_dict()
            for ci, o in enumerate(outs):
                vals[f"g{ci}"][i * n + j] = None if r["gamma_" + o] is None else int(r["gamma_" + o])
        add(label, vals)
    except Exception as e:  # noqa: BLE001
        for name in values:
            variants.setdefault(name, []).append({"label": label, "error": {"type": type(e).__name__, "text": str(e)[-300:]}})
    if all(COLTYPE[c] in ("str", "float", "int") for c in cols):  # records as plain dicts (column types are inferred: scalar columns only)
        label = "compare_two_records() on dict records"
        try:
            vals = {name: list(v) for name, v in values.items()}
            for i, j in task["probe_pairs"]:
                if any(recs[k][c] is None for k in (i, j) for c in cols):
                    continue  # a None in a one-row frame has no column type
                (r,) = linker.inference.compare_two_records({"unique_id": i, **{c: recs[i][c] for c in cols}}, {"unique_id": j, **{c: recs[j][c] for c in cols}}).as_record_dict()
                for ci, o in enumerate(outs):
                    vals[f"g{ci}"][i * n + j] = None if r["gamma_" + o] is None else int(r["gamma_" + o])
            add(label, vals)
        except Exception as e:  # noqa: BLE001
            for name in values:
                variants.setdefault(name, []).append({"label": label, "error": {"type": type(e).__name__, "text": str(e)[-300:]}})
    return {"values": values, "errors": {}, "sql": {}, "variants": variants}


LINKER_COLS = {"duckdb": ["s", "s2", "fs", "sur name", "a", "ds", "dd", "df", "ts", "tt", "tf", "lat", "lng", "ll", "e", "pc", "em"], "sqlite": ["s", "s2", "fs", "sur name", "lat", "lng"]}


def make_linker_tasks(ctx, specs):
    """One link_only Linker per engine: records drawn from the scenario grids (one all-NULL record), one comparison per output column name
    drawn from the argument grid (the creators derive the name from their column)."""
    n = 24 if ctx.thorough else 14
    by_scn = {scn: side_values(scn, ctx.rng, False) for scn in ("str", "date", "arr", "km", "cos", "misc")}
    recs = []
    for i in range(n):
        r = {}
        for scn in ("misc", "str", "date", "arr", "km", "cos"):
            r.update(by_scn[scn][0] if i == 0 and scn != "km" else ctx.rng.choice(by_scn[scn]))
        if i == 0:
            r.update({"lat": None, "lng": None, "ll": None, "la": None})
        r["fs"] = None if r["s"] is None or r["s2"] is None else f"{r['s']} {r['s2']}"
        recs.append(r)
    tasks = []
    for eng in ("duckdb", "sqlite"):
        groups = {}
        for sp in specs:
            if defective(sp) or sp["creator"] == "JaccardAtThresholds" or (eng == "sqlite" and not sqlite_can(sp)):
                continue
            if comparison_scenario(sp) is None or not all(c in LINKER_COLS[eng] for c in comparison_cols(sp)):
                continue
            groups.setdefault(tlevels.build_comparison(sp, eng).get_comparison(eng).output_column_name, []).append(sp)
        chosen = [ctx.rng.choice(groups[g]) for g in sorted(groups)]
        # a second Linker whose comparisons are all on TRANSFORMED columns (ColumnExpression with operations / SQL expression as the column)
        transformed = [ctx.rng.choice(t) for t in ([sp for sp in groups[g] if on_transformed_column(sp)] for g in sorted(groups)) if t]
        for comps in (chosen, transformed):
            probes = [(ctx.rng.randrange(n), ctx.rng.randrange(n)) for _ in range(5)] + [(0, 1), (2, 2)]
            tasks.append({"scenario": "linker", "engine": eng, "cols": LINKER_COLS[eng], "levels": [], "comparisons": comps, "records": recs, "pairs": make_pairs(recs), "probe_pairs": probes, "tag": "linker"})
    return tasks


def on_transformed_column(spec) -> bool:
    return any(isinstance(v, list) or v in EXPR_BASE for k, v in spec["kw"].items() if k.endswith("col_name") or k in ("lat_col", "long_col"))


def comparison_cols(spec) -> set:
    cols = set()
    for k, v in spec["kw"].items():
        if k.endswith("col_name") or k in ("lat_col", "long_col"):
            cols.update(phys_cols(v if isinstance(v, str) else v[0]))
    if spec["creator"] == "CustomComparison":
        cols.update({"s", "s2"})
    return cols


OTHER_DIALECTS = ("spark", "postgres", "athena", "sqlite", "duckdb")


def reuse_variants(task, eng, case_sql):
    """-> (name, label, sql | {'error'...}) for every level / comparison of the task, produced from creator objects that are REUSED:
    - levels: one creator per spec, all creators of the task sharing their ColumnExpression objects; every creator is first asked for
      every OTHER dialect (some of those calls fail: unsupported level / function), then twice for this engine;
    - comparisons: one creator; create_comparison_levels() and get_comparison() for another dialect first, then get_comparison()
      twice for this engine; then the dict form of the result (as_dict() -> CustomComparison(**dict), the path of a saved model)."""
    from splink.internals import comparison_library as clib

    out = []
    cache = {}
    creators = []
    for li, spec in enumerate(task["levels"]):
        try:
            creators.append((li, build_level(clean(spec), eng, ce_cache=cache)))
        except Exception:  # noqa: BLE001  (the fresh path reports creation errors)
            pass
    for d in OTHER_DIALECTS:
        if d == eng:
            continue
        for _, c in creators:
            try:
                c.get_comparison_level(d)
            except Exception:  # noqa: BLE001  a level the other dialect does not support: the failed call must leave the creator usable
                pass
    for li, c in creators:
        try:
            c.get_comparison_level(eng)
            cond = c.get_comparison_level(eng).sql_condition
            out.append((f"l{li}", "level creator reused (shared ColumnExpressions, other dialects first, second call)", "TRUE" if cond == "ELSE" else cond))
        except Exception as e:  # noqa: BLE001
            out.append((f"l{li}", "level creator reused (shared ColumnExpressions, other dialects first, second call)", creation_error(e)))
    for ci, spec in enumerate(task["comparisons"]):
        try:
            cc = tlevels.build_comparison(spec, eng)
            if "__iter" in json.dumps(spec):
                raise LookupError  # a one-shot iterator argument cannot be reused by construction
            cc.create_comparison_levels()
            for d in OTHER_DIALECTS[:2]:
                try:
                    cc.get_comparison(d)
                except Exception:  # noqa: BLE001
                    pass
            cc.get_comparison(eng)
            comp = cc.get_comparison(eng)
            out.append((f"g{ci}", "comparison creator reused (other dialects first, second call)", case_sql(comp)))
        except LookupError:
            continue
        except Exception as e:  # noqa: BLE001
            out.append((f"g{ci}", "comparison creator reused (other dialects first, second call)", creation_error(e)))
            continue
        try:
            back = clib.CustomComparison(**json.loads(json.dumps(comp.as_dict()))).get_comparison(eng)
            out.append((f"g{ci}", "comparison from its dict form (as_dict -> JSON -> CustomComparison)", case_sql(back)))
        except Exception as e:  # noqa: BLE001
            out.append((f"g{ci}", "comparison from its dict form (as_dict -> JSON -> CustomComparison)", creation_error(e)))
    return out


def creation_error(e):
    txt = str(e)
    rejected = isinstance(e, (NotImplementedError,)) or (isinstance(e, ValueError) and "is not supported for" in txt)
    return {"kind": "rejected" if rejected else "creation", "type": type(e).__name__, "text": txt[:300]}


def clean(spec):
    """Drop harness-only keys (`__engines`) from a level spec."""
    if isinstance(spec, dict):
        return spec
    name, arg = spec
    if name in ("And", "Or"):
        return [name, [clean(x) for x in arg]]
    if name == "Not":
        return [name, clean(arg)]
    return [name, {k: v for k, v in arg.items() if not k.startswith("__")}]


def engines_of(spec, default):
    if isinstance(spec, list) and isinstance(spec[1], dict) and "__engines" in spec[1]:
        return spec[1]["__engines"]
    return default


eval_real_safe = core.safe(eval_real)


# --------------------------------------------------------------------------- column expression values (harness semantics of the operations)
def base_value(col: str, raw):
    t = COLTYPE.get(col)
    if raw is None:
        return None
    if t == "date":
        d = dt.date.fromisoformat(raw)
        return int((dt.datetime(d.year, d.month, d.day) - EPOCH).total_seconds())
    if t == "timestamp":
        return int((dt.datetime.strptime(raw, "%Y-%m-%d %H:%M:%S") - EPOCH).total_seconds())
    return raw


def parse_dt(s, fmt):
    if not isinstance(s, str):
        return None
    try:
        return int((dt.datetime.strptime(s, fmt) - EPOCH).total_seconds())
    except ValueError:
        return None


def col_value(ct: dict, pair: dict, side: int):
    if ct["base"].startswith("__custom__"):
        return pair.get(ct["base"], [None, None])[0]
    if ct["base"] in EXPR_BASE:
        v = EXPR_BASE[ct["base"]][1](pair, side)
    else:
        v = base_value(ct["base"], pair[ct["base"]][side])
    for op in ct["ops"]:
        k = op["op"]
        if v is None:
            return None
        if k == "lower":
            v = v.lower()
        elif k == "substr":
            v = v[op["start"] - 1: op["start"] - 1 + op["len"]]
        elif k == "regexExtract":
            m = re.search(op["pattern"], v)
            v = (m.group(op["group"]) if m else "") or None  # NULLIF(regexp_extract(..), '')
        elif k == "nullif":
            v = None if v == op["v"] else v
        elif k == "tryParseDate":
            v = parse_dt(v, op["fmt"] or "%Y-%m-%d")
        elif k == "tryParseTimestamp":
            v = parse_dt(v, op["fmt"] or "%Y-%m-%dT%H:%M:%SZ")
        elif k == "castToString":
            v = (EPOCH + dt.timedelta(seconds=v)).date().isoformat()
        elif k == "arrayElement":
            v = (v[0] if op["first"] else v[-1]) if v else None  # an empty list has no first / last element: NULL
        else:
            raise core.HarnessError(f"operation {k} not handled by the harness")
    return v


def needed_cols(t: dict, acc: list):
    def add(c):
        if c not in acc:
            acc.append(c)

    k = t["k"]
    for f in ("c", "c1", "c2", "lat", "long"):
        if f in t:
            add(t[f])
    if k in ("absoluteTimeDifference", "absoluteDateDifference") and t["isStr"]:
        add({"base": t["c"]["base"], "ops": t["c"]["ops"] + [{"op": "tryParseTimestamp" if k == "absoluteTimeDifference" else "tryParseDate", "fmt": t.get("fmt")}]})
    if k == "custom":
        add({"base": "__custom__" + t["sql"], "ops": []})
    for f in ("a", "b"):
        if f in t and isinstance(t[f], dict):
            needed_cols(t[f], acc)
    return acc


def jval(v):
    if v is None:
        return None
    if isinstance(v, bool):
        return {"i": int(v)}
    if isinstance(v, str):
        return {"s": v}
    if isinstance(v, int):
        return {"i": v}
    if isinstance(v, float):
        return {"q": tlevels.q(v)}
    if isinstance(v, list):
        if v and isinstance(v[0], float):
            return {"qa": [tlevels.q(x) for x in v]}
        return {"sa": v}
    raise core.HarnessError(f"value {v!r}")


CUSTOM_SQL = {"substr(s_l, 1, 1) = substr(s_r, 1, 1)": lambda p: None if p["s"][0] is None or p["s"][1] is None else p["s"][0][:1] == p["s"][1][:1]}


def with_custom(pair, terms):
    p = dict(pair)
    for t in terms:
        for c in needed_cols(t, []):
            if c["base"].startswith("__custom__"):
                v = CUSTOM_SQL[c["base"][len("__custom__"):]](pair)
                p[c["base"]] = [None if v is None else int(v)] * 2
    return p


# --------------------------------------------------------------------------- independent oracle (documented predicates)
def o_lev(a, b):
    prev = list(range(len(b) + 1))
    for i, x in enumerate(a, 1):
        cur = [i]
        for j, y in enumerate(b, 1):
            cur.append(min(prev[j] + 1, cur[j - 1] + 1, prev[j - 1] + (x != y)))
        prev = cur
    return prev[-1]


def o_damerau(a, b):
    """Unrestricted Damerau-Levenshtein by brute-force shortest path over edit operations on short strings is too slow;
    this is the textbook recurrence with the last-occurrence look-back written directly from its definition."""
    n, m = len(a), len(b)
    d = {}
    for i in range(-1, n + 1):
        d[(i, -1)] = n + m
    for j in range(-1, m + 1):
        d[(-1, j)] = n + m
    for i in range(n + 1):
        d[(i, 0)] = i
    for j in range(m + 1):
        d[(0, j)] = j
    for i in range(1, n + 1):
        for j in range(1, m + 1):
            best = min(d[(i - 1, j - 1)] + (a[i - 1] != b[j - 1]), d[(i, j - 1)] + 1, d[(i - 1, j)] + 1)
            k = max([p for p in range(1, i) if a[p - 1] == b[j - 1]], default=0)  # last row where a[k] = b[j]
            l = max([p for p in range(1, j) if b[p - 1] == a[i - 1]], default=0)  # last column where b[l] = a[i]
            if k > 0 and l > 0:
                best = min(best, d[(k - 1, l - 1)] + (i - k - 1) + 1 + (j - l - 1))
            d[(i, j)] = best
    return d[(n, m)]


def o_jaro(a, b):
    if not a and not b:
        return Fraction(1)
    if not a or not b:
        return Fraction(0)
    w = max(max(len(a), len(b)) // 2 - 1, 0)
    used = [False] * len(b)
    ma = []
    for i, x in enumerate(a):
        for j in range(max(0, i - w), min(len(b), i + w + 1)):
            if not used[j] and b[j] == x:
                used[j] = True
                ma.append(x)
                break
    mb = [b[j] for j in range(len(b)) if used[j]]
    m = len(ma)
    if m == 0:
        return Fraction(0)
    t = sum(1 for x, y in zip(ma, mb) if x != y) // 2
    return (Fraction(m, len(a)) + Fraction(m, len(b)) + Fraction(m - t, m)) / 3


def o_jw(a, b):
    j = o_jaro(a, b)
    if j <= Fraction(7, 10):
        return j
    p = 0
    for x, y in zip(a[:4], b[:4]):
        if x != y:
            break
        p += 1
    return j + Fraction(p, 10) * (1 - j)


def o_jaccard(a, b):
    sa, sb = set(a), set(b)
    return Fraction(len(sa & sb), len(sa | sb))


def o_km(lat1, lat2, lon1, lon2):
    r = math.radians
    p = math.sin(r(lat1)) * math.sin(r(lat2)) + math.cos(r(lat1)) * math.cos(r(lat2)) * math.cos(r(lon2 - lon1))
    return math.acos(max(-1.0, min(1.0, p))) * 6371


UNIT_S = {"second": 1, "minute": 60, "hour": 3600, "day": 86400, "month": Fraction(36525 * 864, 12), "year": Fraction(36525 * 864)}
STR_METRIC = {"levenshtein": (o_lev, False), "damerau_levenshtein": (o_damerau, False), "jaro": (o_jaro, True), "jaro_winkler": (lambda a, b: jw_checked(a, b), True),
              "jaro_winkler_similarity": (lambda a, b: jw_checked(a, b), True), "jaro_similarity": (o_jaro, True), "jaro_sim": (o_jaro, True)}
EXACT_KINDS = {"null", "else_", "exact", "literal", "columnsReversed", "levenshtein", "damerauLevenshtein", "dlOrLev", "absoluteDifference", "arrayIntersect", "arraySubset", "custom"}


class Near(Exception):
    """The pair sits within rounding of the level's threshold (excepted by the soundness rules)."""


def o3_and(x, y):
    if x is False or y is False:
        return False
    if x is None or y is None:
        return None
    return True


def o3_not(x):
    return None if x is None else (not x)


def thr(t):
    return Fraction(t["t"][0], t["t"][1])


def jw_checked(a, b):
    if abs(float(o_jaro(a, b)) - 0.7) <= 1e-9:
        raise Near()  # discontinuity of Jaro-Winkler at Jaro = 0.7 (boost threshold), decided by floating-point rounding in the engines
    return o_jw(a, b)


def cmp_float(value, t, op, eps):
    if abs(float(value) - float(t)) <= eps:
        raise Near()
    return value >= t if op == ">=" else (value <= t if op == "<=" else value < t)


def lit_value(v):
    if v is None:
        return None
    if "s" in v:
        return v["s"]
    if "i" in v:
        return v["i"]
    return Fraction(v["q"][0], v["q"][1])


def o_eq(a, b):
    if a is None or b is None:
        return None
    if isinstance(a, float) or isinstance(b, float):
        return Fraction(str(a)) == Fraction(str(b))
    return a == b


def oracle(t: dict, pair: dict):
    """Documented predicate of a level on a pair: True / False / None (SQL NULL). Raises Near on a rounding-sensitive boundary."""
    k = t["k"]
    V = lambda c, side: col_value(c, pair, side)  # noqa: E731
    if k == "null":
        return V(t["c"], 0) is None or V(t["c"], 1) is None
    if k == "else_":
        return True
    if k == "custom":
        return CUSTOM_SQL[t["sql"]](pair)
    if k == "exact":
        return o_eq(V(t["c"], 0), V(t["c"], 1))
    if k == "literal":
        lv = lit_value(t["v"])
        l, r = o_eq(V(t["c"], 0), lv), o_eq(V(t["c"], 1), lv)
        return l if t["side"] == "left" else r if t["side"] == "right" else o3_and(l, r)
    if k == "columnsReversed":
        one = o_eq(V(t["c1"], 0), V(t["c2"], 1))
        return o3_and(one, o_eq(V(t["c1"], 1), V(t["c2"], 0))) if t["sym"] else one
    if k == "and":
        return o3_and(oracle(t["a"], pair), oracle(t["b"], pair))
    if k == "or":
        return o3_not(o3_and(o3_not(oracle(t["a"], pair)), o3_not(oracle(t["b"], pair))))
    if k == "not":
        return o3_not(oracle(t["a"], pair))
    if k == "distanceInKm":
        vals = [V(t["lat"], 0), V(t["lat"], 1), V(t["long"], 0), V(t["long"], 1)]
        if any(v is None for v in vals):
            return False if t["nn"] else None
        return cmp_float(o_km(*vals), thr(t), "<=", 1e-3)  # acos near 1 is ill-conditioned: identical points come out ~1e-4 km apart
    a, b = V(t["c"], 0), V(t["c"], 1)
    if a is None or b is None:
        return None
    if k == "levenshtein":
        return o_lev(a, b) <= thr(t)
    if k in ("damerauLevenshtein", "dlOrLev"):
        return o_damerau(a, b) <= thr(t)
    if k in ("jaro", "jaroWinkler"):
        if a == "" and b == "":
            raise Near()  # similarity of two empty strings: 0 in DuckDB, 1 in rapidfuzz; the documentation is silent
        return cmp_float((o_jaro if k == "jaro" else jw_checked)(a, b), thr(t), ">=", 1e-9)
    if k == "jaccard":
        return cmp_float(o_jaccard(a, b), thr(t), ">=", 1e-9)
    if k == "distanceFunction":
        f, hi = STR_METRIC[t["fn"]]
        if hi and a == "" and b == "":
            raise Near()
        return cmp_float(f(a, b), thr(t), ">=" if t["hi"] else "<=", 1e-9 if hi else 0)
    if k == "pairwise":
        f, hi = STR_METRIC[t["m"]]
        ds = [f(x, y) for x in a for y in b]
        if not ds:
            return None
        if hi and any(x == "" and y == "" for x in a for y in b):
            raise Near()
        return cmp_float(max(ds) if hi else min(ds), thr(t), ">=" if hi else "<=", 1e-9 if hi else 0)
    if k in ("absoluteTimeDifference", "absoluteDateDifference"):
        if t["isStr"]:
            fmt = t.get("fmt") or ("%Y-%m-%dT%H:%M:%SZ" if k == "absoluteTimeDifference" else "%Y-%m-%d")
            a, b = parse_dt(a, fmt), parse_dt(b, fmt)
            if a is None or b is None:
                return None
        return abs(a - b) <= thr(t) * UNIT_S[t["unit"]]
    if k == "cosineSimilarity":
        na, nb = math.sqrt(sum(x * x for x in a)), math.sqrt(sum(x * x for x in b))
        if na == 0 or nb == 0:
            raise Near()
        return cmp_float(sum(x * y for x, y in zip(a, b)) / (na * nb), thr(t), ">=", 1e-5)
    if k == "arrayIntersect":
        return len(set(a) & set(b)) >= thr(t)
    if k == "arraySubset":
        if len(set(a)) != len(a) or len(set(b)) != len(b):
            raise Near()  # 'subset' of arrays with repeated elements is not defined by the documentation
        small, large = (a, b) if len(a) <= len(b) else (b, a)
        if not small and not t["e"]:
            return False
        return set(small) <= set(large)
    if k == "percentageDifference":
        x, y = Fraction(str(a)), Fraction(str(b))
        g = max(x, y)
        if g == 0:
            return None
        return cmp_float(abs(x - y) / g, thr(t), "<", 1e-12)
    if k == "absoluteDifference":
        return abs(Fraction(str(a)) - Fraction(str(b))) <= thr(t)
    raise core.HarnessError(f"oracle: level kind {k}")


def is_null_term(t):
    if t["k"] == "null":
        return True
    if t["k"] in ("and", "or"):
        return is_null_term(t["a"]) and is_null_term(t["b"])
    return False


def documented_terms(spec, terms):
    """The levels as DOCUMENTED: DateOfBirthComparison's date-difference levels parse with the comparison's datetime_format."""
    if spec and spec["creator"] == "DateOfBirthComparison" and spec["kw"].get("datetime_format"):
        return [dict(t, fmt=spec["kw"]["datetime_format"]) if t["k"] == "absoluteDateDifference" else t for t in terms]
    if spec and spec["creator"] == "PostcodeComparison" and spec["kw"].get("invalid_postcodes_as_null") and isinstance(spec["kw"].get("col_name"), str):
        # documented: "postcodes that do not adhere to valid_postcode_regex will be included in the null level" - whichever other arguments
        # (lat_col / long_col / km_thresholds) are given.  The null level is written down from the documentation, not read off the code.
        from splink.internals import comparison_level_library as cll
        from splink.internals.comparison_library import PostcodeComparison as P

        from harness.translate import tlevels as _tl

        doc_null = _tl.level_term(cll.NullLevel(spec["kw"]["col_name"], valid_string_pattern=spec["kw"].get("valid_postcode_regex", P.VALID_POSTCODE_REGEX)))
        return [doc_null if t["k"] == "null" else t for t in terms]
    return terms


def defective(spec) -> bool:
    """(creator, arguments) combinations with a reported defect: left out of the generated grid, one corpus case each."""
    # (none at present; DateOfBirthComparison dropping datetime_format was fixed in 2773e01f, regression corpus/C16/dob_datetime_format_ignored.json)
    return False


def oracle_gamma(terms, pair):
    """Documented comparison vector value: -1 for the null level, else (#levels below) of the first satisfied level."""
    non_null = [i for i, t in enumerate(terms) if not is_null_term(t)]
    for i, t in enumerate(terms):
        v = oracle(t, pair)  # may raise Near
        if v is True:
            return -1 if is_null_term(t) else len(non_null) - 1 - non_null.index(i)
    return None


def term_kinds(t, acc=None):
    acc = set() if acc is None else acc
    acc.add(t["k"])
    for f in ("a", "b"):
        if f in t and isinstance(t[f], dict):
            term_kinds(t[f], acc)
    return acc


# --------------------------------------------------------------------------- tasks
def make_tasks(ctx, specs):
    tasks = []
    for scn, engines in SCN_ENGINES.items():
        recs = side_values(scn, ctx.rng, ctx.thorough)
        for r in recs:  # evidence: boundary data values present in the grids (records; every record meets every record)
            for label, hit in (("string with an apostrophe", r.get("s") == "o'brien"), ("date before the Unix epoch", isinstance(r.get("ds"), str) and r["ds"][:2] in ("18", "19") and r["ds"] < "1970"),
                               ("leap day", r.get("ds") == "2000-02-29"), ("negative zero", isinstance(r.get("x"), float) and math.copysign(1, r["x"]) < 0 and r["x"] == 0),
                               ("integer beyond 2^53", isinstance(r.get("xi"), int) and abs(r["xi"]) >= 2 ** 53), ("empty string as an array element", scn == "arr" and isinstance(r.get("a"), list) and "" in r["a"]),
                               ("latitude / longitude inside a struct and an array", r.get("ll") is not None)):
                if hit:
                    ctx.count("data_value", f"{scn}: {label}")
        pairs = make_pairs(recs)
        comps = [s for s in specs if comparison_scenario(s) == scn and not defective(s)]
        for eng in engines:
            lv = [s for s in level_specs(scn) if eng in engines_of(s, engines)]
            cs = [s for s in comps if eng == "duckdb" or sqlite_can(s)]
            tasks.append({"scenario": scn, "engine": eng, "cols": [c for c in SCN_COLS[scn] if COLTYPE[c] in SQLTYPE[eng]], "levels": lv, "comparisons": cs, "pairs": pairs, "tag": "grid"})
    return tasks


def sqlite_can(spec):
    """Comparisons whose every level the library supports on SQLite (no arrays, regex, jaccard, date parsing)."""
    if any(COLTYPE[c] not in SQLTYPE["sqlite"] for v in spec["kw"].values() if isinstance(v, str) and v in EXPR_BASE for c in phys_cols(v)):
        return False  # struct / array references: no such column types on SQLite
    return spec["creator"] in ("ExactMatch", "LevenshteinAtThresholds", "DamerauLevenshteinAtThresholds", "JaroAtThresholds", "JaroWinklerAtThresholds", "DistanceFunctionAtThresholds",
                               "DistanceInKMAtThresholds", "ForenameSurnameComparison", "CustomComparison") or (spec["creator"] == "NameComparison" and "dmeta_col_name" not in spec["kw"])


def terms_of(task):
    eng = task["engine"]
    lterms = [tlevels.level_term(build_level(clean(s), eng)) for s in task["levels"]]
    cterms = [tlevels.extract(s, eng) for s in task["comparisons"]]
    return lterms, cterms


def model_requests(task, lterms, cterms, chunk=150):
    cols = []
    for t in lterms + [x for c in cterms for x in c]:
        needed_cols(t, cols)
    reqs = []
    allterms = lterms + [x for c in cterms for x in c]
    for i0 in range(0, len(task["pairs"]), chunk):
        ps = []
        for p in task["pairs"][i0:i0 + chunk]:
            p = with_custom(p, allterms)
            ps.append([[[c, jval(col_value(c, p, 0))] for c in cols], [[c, jval(col_value(c, p, 1))] for c in cols]])
        reqs.append({"op": "levels_sat", "levels": lterms, "comparisons": cterms, "pairs": ps})
    return reqs


def classify(kinds):
    for fam, ks in (("jaro", {"jaro", "jaroWinkler"}), ("jaccard", {"jaccard"}), ("percentage", {"percentageDifference"}), ("date", {"absoluteDateDifference", "absoluteTimeDifference"}),
                    ("km", {"distanceInKm"}), ("array", {"arrayIntersect", "arraySubset", "pairwise"}), ("edit", {"levenshtein", "damerauLevenshtein", "dlOrLev"})):
        if kinds & ks:
            return fam
    return "other"


def spec_features(spec) -> set:
    """Argument / column FORMS a level or comparison spec exercises (evidence counters `arg_form`)."""
    out = set()

    def col(v):
        base = v if isinstance(v, str) else v[0]
        ops = [] if isinstance(v, str) else v[1:]
        if base in EXPR_BASE:
            out.add("column: struct field / array element reference" if base[:2] in ("ll", "la") else "column: SQL expression as the column")
        if " " in base and base not in EXPR_BASE:
            out.add("column: name that needs quoting")
        if len(ops) > 1:
            out.add("column: chained operations")
        for o in ops:
            k = o if isinstance(o, str) else o[0]
            if k == "regex" and len(o) > 2 and o[2]:
                out.add("column: regex capture group > 0")
            if k in ("elem", "cast_to_string", "try_parse_date", "try_parse_timestamp"):
                out.add("column: " + {"elem": "first / last array element", "cast_to_string": "cast_to_string"}.get(k, "explicit try_parse operation"))
            if k == "nullif" and "'" in o[1]:
                out.add("string argument with an apostrophe")

    def num(v):
        if isinstance(v, bool) or not isinstance(v, (int, float)):
            return
        r = repr(v)
        if "e" in r:
            out.add("threshold: printed in exponent notation")
        elif "." in r and len(r.split(".")[1]) > 6:
            out.add("threshold: more than 6 decimals")
        if v == 0:
            out.add("threshold: 0")

    def walk(sp):
        if isinstance(sp, dict) and "sql_condition" in sp:
            if sp.get("base_dialect_str"):
                out.add("custom level: base_dialect_str (translated)")
            if sp.get("__raw"):
                out.add("composition: plain dict member")
            return
        if isinstance(sp, dict):  # comparison spec
            for k, v in sp["kw"].items():
                if k.endswith("col_name") or k in ("lat_col", "long_col"):
                    col(v)
                elif isinstance(v, dict):
                    out.add("thresholds: given as a " + ("tuple" if "__tuple" in v else "one-shot iterator"))
                elif v == []:
                    out.add("thresholds: empty list")
                elif isinstance(v, list):
                    [num(x) for x in v]
                    if len(set(map(str, v))) < len(v):
                        out.add("thresholds: repeated value")
                else:
                    num(v)
            if sp["creator"] == "CustomComparison" and sp["kw"]["levels"] == "dicts":
                out.add("composition: plain dict member")
            return
        name, arg = sp
        if name in ("And", "Or"):
            [walk(x) for x in arg]
        elif name == "Not":
            walk(arg)
        else:
            for k, v in arg.items():
                if k in ("col_name", "col_name_1", "col_name_2", "lat_col", "long_col"):
                    col(v)
                elif k == "literal_value":
                    if not isinstance(v, str):
                        out.add("literal: given as a number")
                    elif v == "":
                        out.add("literal: empty string")
                    elif "'" in v:
                        out.add("string argument with an apostrophe")
                    if arg.get("literal_datatype") == "date":
                        out.add("literal: date")
                elif k.endswith("threshold"):
                    num(v)
                    if name in ("LevenshteinLevel", "DamerauLevenshteinLevel") and isinstance(v, float):
                        out.add("threshold: fractional on an integer distance")
                elif k == "datetime_format" and v and name == "AbsoluteTimeDifferenceLevel":
                    out.add("timestamp format given")

    walk(spec)
    return out


def variant_runs(ctx, res, name, on_error):
    """Value lists to judge besides the fresh creator's: the re-presentations (reuse / dict form / linker paths) whose SQL or values DIFFER
    from the fresh ones.  Identical ones are only counted (same SQL => same values)."""
    runs = []
    for v in res.get("variants", {}).get(name, []):
        if "error" in v:
            ctx.count("variant", v["label"] + ": RAISED")
            on_error(v["label"], v["error"])
        elif v["same"]:
            ctx.count("variant", v["label"] + ": identical")
        else:
            ctx.count("variant", v["label"] + ": DIFFERENT, judged by the oracle")
            if "values" in v:
                runs.append((v["values"], v["label"]))
            elif v["name"] in res["values"]:
                runs.append((res["values"][v["name"]], v["label"]))
            else:
                on_error(v["label"], res["errors"].get(v["name"], {"type": "?", "text": "no values"}))
    return runs


def compare(ctx, tasks, drv):
    """-> list of problems (task, name, spec, pair index, what, concrete?, match_info)."""
    problems = []
    results = core.pmap(eval_real_safe, tasks)
    for task, res in zip(tasks, results):
        eng, scn = task["engine"], task["scenario"]
        if core.impl_error(res):
            problems.append((task, None, None, None, f"real code raised {res['__error__']}: {res['text'][:300]}", True, {"failure": "real code raised", "engine": eng, "family": scn}))
            continue
        lterms, cterms = terms_of(task)
        if task.get("tag") == "linker":
            ctx.count("linker_family", f"{eng}: Linkers (predict + JSON model + compare_two_records)")
            ctx.count("linker_family", f"{eng}: comparisons inside the Linker", len(task["comparisons"]))
            ctx.count("linker_family", f"{eng}: record pairs through predict()", len(task["pairs"]))
        mres = drv.pbatch(model_requests(task, lterms, cterms))
        mrows = []
        for m in mres:
            if "error" in m:
                raise core.HarnessError("model driver error: " + m["error"])
            mrows += m["rows"]
        allterms = lterms + [x for c in cterms for x in c]
        pairs = [with_custom(p, allterms) for p in task["pairs"]]
        for li, (spec, term) in enumerate(zip(task["levels"], lterms)):
            name = f"l{li}"
            kinds = term_kinds(term)
            fam = classify(kinds)
            ctx.count("level_kind", term["k"], len(pairs))
            for f in spec_features(spec):
                ctx.count("arg_form", f, len(pairs))
            if name in res["errors"]:
                er = res["errors"][name]
                if er["kind"] == "rejected":
                    ctx.count("excluded", f"library rejects {spec[0] if isinstance(spec, list) else 'custom'} on {eng}")
                    continue
                problems.append((task, name, spec, None, f"real code raised {er['type']} for level {json.dumps(clean(spec))[:200]} on {eng}: {er['text'][-250:]}", True, {"failure": "real code raised", "engine": eng, "family": fam}))
                continue
            tri = kinds <= EXACT_KINDS | {"and", "or", "not"}

            def lv_error(label, er, name=name, spec=spec, fam=fam):
                problems.append((task, name, spec, None, f"real code raised {er.get('type')} for level {json.dumps(clean(spec))[:200]} on {eng} [{label}]: {str(er.get('text'))[-250:]}", True,
                                 {"failure": "real code raised", "engine": eng, "family": fam, "variant": label}))

            for real, vlabel in [(res["values"][name], None)] + variant_runs(ctx, res, name, lv_error):
                for pi, p in enumerate(pairs):
                    canon = (scn, eng, json.dumps(clean(spec), sort_keys=True), json.dumps(task["pairs"][pi], sort_keys=True), vlabel)
                    if term["k"] in ("arrayIntersect", "arraySubset", "pairwise") and (p[term["c"]["base"]][0] is None or p[term["c"]["base"]][1] is None):
                        # outside the quantifier (non-null levels are quantified over non-NULL values; the null level comes first in every
                        # library comparison): DuckDB's list_intersect(x, NULL) is [] rather than NULL
                        ctx.count("excluded", "array level on a NULL array (outside the quantifier; covered through whole comparisons)")
                        continue
                    try:
                        o = oracle(term, p)
                    except Near:
                        ctx.count("excluded", "pair within rounding of the threshold / behaviour undocumented (empty strings for Jaro, repeated array elements, zero vector)")
                        continue
                    r, m = real[pi], mrows[pi]["sat"][li]
                    ctx.case(canon, o is True or (o is False and term["k"] not in ("null",)), sample={"engine": eng, "level": clean(spec), "pair": task["pairs"][pi], "real": r, "oracle": o, "lean": m} if (pi * 7 + li) % 997 == 0 else None)
                    ctx.count("oracle_value", {True: "TRUE", False: "FALSE", None: "NULL"}[o])
                    if (r is True) != (o is True) or (tri and r != o):
                        problems.append((task, name, spec, pi, f"level {json.dumps(clean(spec))[:160]} on {eng}{' [' + vlabel + ']' if vlabel else ''}: real SQL gives {r}, documented predicate gives {o} for pair {json.dumps(task['pairs'][pi])[:200]}",
                                         True, {"failure": "level differs from documented predicate", "engine": eng, "family": fam, **({"variant": vlabel} if vlabel else {})}))
                        continue
                    if (r is True) != (m is True) or (tri and r != m):
                        problems.append((task, name, spec, pi, f"level {json.dumps(clean(spec))[:160]} on {eng}: real SQL gives {r}, Lean sat gives {m} for pair {json.dumps(task['pairs'][pi])[:200]}", False, {}))
                        continue
                    ctx.traces_validated += 1
        for ci, (spec, terms) in enumerate(zip(task["comparisons"], cterms)):
            name = f"g{ci}"
            fam = classify(set().union(*[term_kinds(t) for t in terms]))
            ctx.count("comparison_creator", spec["creator"], len(pairs))
            for f in spec_features(spec):
                ctx.count("arg_form", f, len(pairs))
            if name in res["errors"]:
                er = res["errors"][name]
                if er["kind"] == "rejected":
                    ctx.count("excluded", f"library rejects {spec['creator']} on {eng}")
                    continue
                problems.append((task, name, spec, None, f"real code raised {er['type']} for comparison {spec['creator']} {json.dumps(spec['kw'])[:160]} on {eng}: {er['text'][-250:]}", True,
                                 {"failure": "real code raised", "engine": eng, "family": fam}))
                continue
            def cmp_error(label, er, name=name, spec=spec, fam=fam):
                problems.append((task, name, spec, None, f"real code raised {er.get('type')} for comparison {spec['creator']} {json.dumps(spec['kw'])[:160]} on {eng} [{label}]: {str(er.get('text'))[-250:]}", True,
                                 {"failure": "real code raised", "engine": eng, "family": fam, "variant": label}))

            for real, vlabel in [(res["values"][name], None)] + variant_runs(ctx, res, name, cmp_error):
                for pi, p in enumerate(pairs):
                    canon = (scn, eng, "cmp", json.dumps(spec, sort_keys=True), json.dumps(task["pairs"][pi], sort_keys=True), vlabel)
                    try:
                        o = oracle_gamma(documented_terms(spec, terms), p)
                    except Near:
                        ctx.count("excluded", "comparison: a level's threshold within rounding / undocumented behaviour for this pair")
                        continue
                    r, m = real[pi], mrows[pi]["gammas"][ci]
                    ctx.case(canon, o is not None and o >= 0, sample={"engine": eng, "comparison": spec, "pair": task["pairs"][pi], "real_gamma": r, "oracle": o, "lean": m} if (pi * 13 + ci) % 1499 == 0 else None)
                    ctx.count("gamma", o)
                    if r != o:
                        problems.append((task, name, spec, pi, f"comparison {spec['creator']} {json.dumps(spec['kw'])[:160]} on {eng}{' [' + vlabel + ']' if vlabel else ''}: real gamma {r}, documented levels give {o} for pair {json.dumps(task['pairs'][pi])[:200]}",
                                         True, {"failure": "gamma differs from documented levels", "engine": eng, "family": fam, "creator": spec["creator"], **({"variant": vlabel} if vlabel else {})}))
                        continue
                    if r != m:
                        problems.append((task, name, spec, pi, f"comparison {spec['creator']} {json.dumps(spec['kw'])[:160]} on {eng}: real gamma {r}, Lean gammaOf {m} for pair {json.dumps(task['pairs'][pi])[:200]}", False, {}))
                        continue
                    ctx.traces_validated += 1
    return problems


def minimal_task(task, name, spec, pi):
    """The single (level | comparison, pair) case, re-runnable alone."""
    if task.get("tag") == "linker":  # the whole linker run with this one comparison (the pair is named in the detail)
        return dict(task, comparisons=[spec] if spec else task["comparisons"])
    t = {"scenario": task["scenario"], "engine": task["engine"], "cols": task["cols"], "levels": [], "comparisons": [], "pairs": [task["pairs"][pi]] if pi is not None else task["pairs"][:3], "tag": "replay"}
    if name and name.startswith("l"):
        t["levels"] = [spec]
    elif name:
        t["comparisons"] = [spec]
    else:
        t["levels"], t["comparisons"] = task["levels"], task["comparisons"]
    return t


def metric_validation(ctx, drv):
    """Lean reference metrics vs the independent Python oracle (and rapidfuzz as a cross-check of the oracle), and the
    quadratic `lev` vs the textbook recursion `levSpec` on short strings."""
    from rapidfuzz.distance import DamerauLevenshtein, Jaro, JaroWinkler, Levenshtein

    rng = random.Random(ctx.seed + 31)
    strs = [x for x in STRS if x is not None] + [rand_str(rng) for _ in range(40)]
    pairs = [[a, b] for a in strs for b in strs]
    short = [[a, b] for a, b in pairs if len(a) <= 5 and len(b) <= 5]
    plan = [("lev", pairs, o_lev, Levenshtein.distance), ("levSpec", short, o_lev, Levenshtein.distance), ("damerau", pairs, o_damerau, DamerauLevenshtein.distance),
            ("jaro", pairs, o_jaro, Jaro.similarity), ("jaroWinkler", pairs, o_jw, JaroWinkler.similarity), ("jaccard", [p for p in pairs if p[0] and p[1]], o_jaccard, None)]
    res = drv.batch([{"op": "levels_metric", "m": m, "pairs": ps} for m, ps, _, _ in plan])
    bad = []
    for (m, ps, orc, rf), r in zip(plan, res):
        if "error" in r:
            raise core.HarnessError("model driver error: " + r["error"])
        for (a, b), v in zip(ps, r["values"]):
            want = Fraction(orc(a, b))
            got = None if v is None else Fraction(v[0], v[1])
            if got != want:
                bad.append((m, a, b, str(got), str(want)))
            if m == "jaroWinkler" and o_jaro(a, b) == Fraction(7, 10):
                continue  # the Winkler boost applies above 0.7: in doubles a Jaro of exactly 7/10 rounds to 0.7000000000000001 and is boosted
            if rf is not None and abs(float(rf(a, b)) - float(want)) > 1e-9 and not (a == "" and b == ""):
                raise core.HarnessError(f"oracle {m}({a!r},{b!r}) = {want} but rapidfuzz gives {rf(a, b)}")
    ctx.extra_cov["metric_validation"] = {"metrics": [m for m, _, _, _ in plan], "string_pairs": len(pairs), "disagreements": len(bad)}
    return bad


def extractable(spec) -> bool:
    try:
        tlevels.extract(spec, "duckdb")
        return True
    except Exception:  # noqa: BLE001
        return False


def load_corpus():
    d = core.VERIF / "corpus" / PROP
    out = []
    if d.exists():
        for f in sorted(d.glob("*.json")):
            out.append(json.loads(f.read_text())["replay"]["case"])
    return out


def run(ctx: core.Ctx):
    ctx.rule = (
        "Lean side: Generated/Levels.lean re-extracted from the real creators (every comparison creator of comparison_library.py x argument grid incl. defaults, single/multiple/UNSORTED thresholds, optional columns) "
        "and checked against levelsOf by kernel evaluation. Correspondence: 8 scenarios (strings, non-empty strings for Jaccard/regex, numbers, dates/timestamps as strings and typed, arrays, coordinates, "
        "embeddings, postcodes/emails) x every level creator x argument grid (thresholds on and around constructible metric values) x {duckdb, sqlite where the library supports the level} x ALL ordered pairs of "
        "the scenario's value grid (NULL, empty string/array, equal values, one-edit neighbours, transpositions, values exactly k edits / t units / t seconds apart, invalid dates, antipodal/identical/pole coordinates, "
        "negative numbers and zeros, random fill-ins from VERIF_SEED); every library comparison of the grid is evaluated as its real CASE statement on the same pairs. "
        "Argument forms (counters arg_form): SQL expressions / quoted names / struct fields / array elements as the column, chained operations, regex capture groups, cast / parse operations, "
        "literals as numbers / dates / empty / with an apostrophe, thresholds with 7 decimals on either side of a constructible score, in exponent notation, fractional, 0, thresholds as tuple / iterator / [] / repeated, "
        "CustomLevel with base_dialect_str, plain dicts inside And / Or / Not. Re-presentations (counters variant): every level and comparison creator REUSED (shared ColumnExpression objects, every other dialect asked first "
        "- some of those calls fail -, second call) and every comparison rebuilt from its dict form must yield the SQL of the fresh creator (a differing SQL is evaluated and judged by the oracle). "
        "Linker family (counters linker_family): per engine two link_only Linkers over two tables registered by NAME (one comparison per output column drawn from the grid; one Linker with transformed columns only): "
        "gamma_* of predict() on all ordered record pairs vs oracle and Lean, the model saved to JSON and loaded into a second Linker on the same database API, compare_two_records() on single-row tables and on dict records. "
        "evaluation = one (level or comparison, pair, engine); non-trivial = the documented predicate is TRUE, or FALSE for a non-null level (gamma >= 0 for comparisons); distinct = hash of (scenario, engine, creator+args, pair)."
    )
    ctx.assumptions = [
        "regex extraction (regexp_extract) and date parsing (try_strptime) of ColumnExpression operations are evaluated by Python re / datetime in the harness and enter the model as the value of the column expression",
        "DuckDB/SQLite evaluate AND/OR/NOT/=/<=/CASE by SQL three-valued logic (compared as tri-state for exact levels, as satisfied / not satisfied for float-valued metrics and divisions by zero, where DuckDB yields NaN/inf and SQLite NULL)",
        "pairs whose metric lies within 1e-9 (km: 1e-6, cosine on FLOAT[3]: 1e-5) of the threshold, Jaro/Jaro-Winkler of two empty strings (DuckDB 0, rapidfuzz 1), arrays with repeated elements for ArraySubsetLevel and zero vectors are excepted",
        "Jaccard levels are evaluated on non-empty strings only: DuckDB's jaccard raises on an empty string (reported)",
        "Spark is not run (thorough tier included): JVM start-up alone exceeds the budget; dialect strings for Spark are covered by C06",
    ]
    rows, errs = tlevels.write()
    ctx.extra_cov["generated_table"] = {"rows": len(rows), "creators": sorted({r["spec"]["creator"] for r in rows}), "extractor_errors": errs}
    ctx.lean = core.lean_check(PROP, ctx.thorough)
    if errs:
        ctx.lean.ok = False
        ctx.lean.problems += ["T-levels: " + e for e in errs]
    drv = core.Driver()
    specs = [sp for sp in tlevels.comparison_specs() if extractable(sp)]  # a spec whose creator cannot be built / mapped is reported above (T-levels) and has no term to compare with
    mv_bad = metric_validation(ctx, drv)
    if ctx.replay:
        tasks = [json.loads(open(ctx.replay).read())["replay"]["case"]]
    else:
        tasks = load_corpus() + make_tasks(ctx, specs) + make_linker_tasks(ctx, specs)
    problems = compare(ctx, tasks, drv)
    if (not ctx.lean.ok or mv_bad or any(not p[5] for p in problems)) and not ctx.replay:
        ctx.notes.append("proof, extraction or correspondence broke: ran the widened failing-input search (second value grid from another seed, thorough fill-ins)")
        ctx2_rng, ctx.rng = ctx.rng, random.Random(ctx.seed + 7919)
        th, ctx.thorough = ctx.thorough, True
        try:
            problems += compare(ctx, make_tasks(ctx, specs) + make_linker_tasks(ctx, specs), drv)
        finally:
            ctx.rng, ctx.thorough = ctx2_rng, th
    concrete = [p for p in problems if p[5]]
    broken = [p for p in problems if not p[5]]
    reported = set()
    for task, name, spec, pi, what, _, info in concrete:
        key = (info.get("failure"), info.get("engine"), info.get("family"), info.get("creator"))
        if key in reported or len(reported) >= 6:
            continue
        reported.add(key)
        small = minimal_task(task, name, spec, pi)
        again = eval_real_safe(small)
        ctx.violation(f"real output violates C16: {info['failure']} ({info['engine']}, {info['family']})",
                      {"case": small, "detail": what, "observed": again if not (isinstance(again, dict) and "__error__" in again) else {"raised": again["text"][:400]},
                       "expected": "the documented predicate of the level / the first satisfied level of the comparison (see detail)"}, kind="concrete", match_info=info)
    if not ctx.violations:  # no concrete, unsuppressed violation was registered (a KNOWN finding does not excuse a broken proof or correspondence)
        if broken:
            task, name, spec, pi, what, _, _ = broken[0]
            ctx.violation("correspondence Levels model <-> comparison_level_library.py / comparison_library.py no longer checks",
                          {"correspondence": "harness/props/c16.py compare(): " + what, "case": minimal_task(task, name, spec, pi), "disagreeing_cases": len(broken), "searched_cases": ctx.evaluations, "lean": ctx.lean.as_dict()}, kind="unproved")
        elif mv_bad:
            ctx.violation("Lean reference string metrics disagree with the independent oracle",
                          {"correspondence": "levels_metric vs harness oracle", "disagreements": mv_bad[:5], "searched_cases": ctx.evaluations}, kind="unproved")
        elif not ctx.lean.ok:
            ctx.violation("Lean obligations for C16 no longer check (a regenerated level table may disagree with levelsOf, or a theorem broke)",
                          {"theorems": ctx.lean.as_dict()["undischarged"], "problems": ctx.lean.problems, "build_log_tail": ctx.lean.build_log[-1500:], "searched_cases": ctx.evaluations}, kind="unproved")
