"""C20 — descriptive outputs are exact recounts of the data.

Lean: Model/Descriptive.lean mirrors term_frequencies_for_single_column_sql + the LEFT JOIN of
_join_tf_to_df_concat_sql, completeness_data, comparison_vector_distribution_sql, _bins/_hist_sql and
unlinkables_data; Properties/C20.lean proves TF = relative frequency / sums to 1 / is the joined value,
completeness = recount per (dataset, column), the comparison-vector groups and histogram bins partition the scored
pairs, integer bins contain their weight and are unique, _bins picks a closest width, and the unlinkables window is
the cumulative count of records at or below each listed probability.
Tie: compute_tf_table / compute_df_concat_with_tf / predict() tf columns / completeness_data / the comparison-vector
SQL over predict() / histogram_data / unlinkables_data + _self_link on generated datasets x models, DuckDB + SQLite,
against the compiled model; an independent Python recount decides the property on the real output first.
"""
from __future__ import annotations

import json
import math
import random

from harness import core
from harness.props import c20_sql

PROP = "C20"
ALIASES = ["ta", "tb", "tc"]
STR_DOM = ["ann", "anne", "bob", "bobb", "cy", "dee"]
INT_DOM = [0, 1, 2, 5]
COLS = ["a", "b", "c"]
TYPES = {"unique_id": "int", "a": "str", "b": "str", "c": "int"}
BIN_WIDTHS = [0.01, 0.1, 0.2, 0.25, 0.5, 1, 2, 5]
PROFILES = ["mixed", "mixed", "null_heavy", "all_null", "single", "distinct"]


def lev(a: str, b: str) -> int:
    if a == b:
        return 0
    prev = list(range(len(b) + 1))
    for i, ca in enumerate(a, 1):
        cur = [i]
        for j, cb in enumerate(b, 1):
            cur.append(min(prev[j] + 1, cur[j - 1] + 1, prev[j - 1] + (ca != cb)))
        prev = cur
    return prev[-1]


# --------------------------------------------------------------------------- generation
def gen_probs(rng, k):
    xs = [rng.uniform(0.02, 1.0) for _ in range(k)]
    s = sum(xs)
    return [round(x / s, 6) or 0.000001 for x in xs]


def gen_comparison(rng: random.Random, col: str):
    levels = []
    if rng.random() < 0.8:
        levels.append({"kind": "null"})
    levels.append({"kind": "eq"})
    if col != "c":
        r = rng.random()
        if r < 0.5:
            levels.append({"kind": "lev", "k": 1})
        if r < 0.2:
            levels.append({"kind": "lev", "k": 2})
    levels.append({"kind": "else"})
    nn = [l for l in levels if l["kind"] != "null"]
    for l, m, u in zip(nn, gen_probs(rng, len(nn)), gen_probs(rng, len(nn))):
        l["m"], l["u"] = m, u
    if col != "c" and rng.random() < 0.6:
        nn[0]["tf"] = {"weight": rng.choice([0.0, 0.3, 1.0, 1.0, 0.5]), "minU": rng.choice([0.0, 0.0, 0.01, 0.2])}
    return {"col": col, "levels": levels}


def gen_tables(rng: random.Random, k: int, max_rows: int):
    profile = {c: rng.choice(PROFILES) for c in COLS}
    fresh = iter(range(1000))
    tables = []
    single = {"a": rng.choice(STR_DOM), "b": rng.choice(STR_DOM[:4]), "c": rng.choice(INT_DOM)}
    for _ in range(k):
        n = rng.randint(1 if rng.random() < 0.15 else 2, max_rows)
        ids = rng.sample(range(0, 14), n)  # ids overlap across tables
        rows = []
        for u in ids:
            row = {"unique_id": u}
            for c in COLS:
                p = profile[c]
                if p == "all_null":
                    v = None
                elif p == "single":
                    v = None if rng.random() < 0.15 else single[c]
                elif p == "distinct":
                    j = next(fresh)
                    v = (100 + j) if c == "c" else f"v{j}"
                else:
                    nr = 0.7 if p == "null_heavy" else rng.choice([0.0, 0.15, 0.3])
                    dom = INT_DOM if c == "c" else (STR_DOM if c == "a" else STR_DOM[:4])
                    v = None if rng.random() < nr else rng.choice(dom)
                row[c] = v
            rows.append(row)
        tables.append(rows)
    return tables, profile


def gen_case(rng: random.Random, engine=None):
    engine = engine or rng.choice(["duckdb", "duckdb", "sqlite"])
    k = rng.choice([1, 1, 2, 2, 3])
    tables, profile = gen_tables(rng, k, rng.choice([3, 5, 7, 9]))
    link_type = "dedupe_only" if k == 1 else rng.choice(["link_only", "link_and_dedupe"])
    cols = rng.sample(COLS, rng.randint(1, 3))
    comps = [gen_comparison(rng, c) for c in cols]
    r = rng.random()
    usable = [c for c in COLS if profile[c] not in ("all_null", "distinct")] or COLS
    blocking = [] if r < 0.65 else ([[rng.choice(usable)]] if r < 0.9 else [[rng.choice(usable)], [rng.choice(COLS)]])
    return {
        "engine": engine, "tables": tables, "profile": profile, "link_type": link_type, "comparisons": comps,
        "prior": rng.choice([0.0001, 0.01, 0.3, 0.5, 0.9, round(rng.uniform(0.001, 0.999), 4)]),
        "blocking": blocking, "nbins": rng.choice([1, 5, 10, 30, 30, 100]),
        "thr": None if rng.random() < 0.8 else round(rng.uniform(0.001, 0.5), 3),
        "compl_cols": None if rng.random() < 0.6 else rng.sample(["unique_id"] + COLS, rng.randint(1, 3)),
        "compl_names": rng.random() < 0.5, "tf_first": rng.random() < 0.5, "shuffle": rng.randrange(1 << 30), "tag": "random",
    }


def adversarial_cases(rng: random.Random):
    """Families aimed at the places a recount can go wrong."""
    out = []
    for engine in ("duckdb", "sqlite"):
        base = gen_case(rng, engine)
        # every column all-NULL: empty TF tables, completeness 0, every gamma on the null / else level
        c = json.loads(json.dumps(base))
        for t in c["tables"]:
            for r in t:
                r["a"] = r["b"] = r["c"] = None
        c["tag"] = "all_null"
        out.append(c)
        # one record only: no pair is scored
        c = json.loads(json.dumps(base))
        c["tables"] = [[{"unique_id": 1, "a": "ann", "b": None, "c": 2}]]
        c["link_type"] = "dedupe_only"
        c["tag"] = "single_record"
        out.append(c)
        # identical records: one comparison vector, one histogram bin (min = max), one unlinkables row
        c = json.loads(json.dumps(base))
        c["tables"] = [[{"unique_id": i, "a": "ann", "b": "bob", "c": 1} for i in range(5)]]
        c["link_type"] = "dedupe_only"
        c["thr"] = None
        c["tag"] = "identical_records"
        out.append(c)
        # probabilities rounding to 1.00000: the `match_probability < 1` filter of unlinkables
        c = json.loads(json.dumps(base))
        c["comparisons"] = [{"col": "a", "levels": [{"kind": "null"}, {"kind": "eq", "m": 0.999999, "u": 0.000001}, {"kind": "else", "m": 0.000001, "u": 0.999999}]}]
        c["prior"] = 0.9
        c["tag"] = "prob_rounds_to_one"
        out.append(c)
        # many bins / one bin
        for nb in (1, 100):
            c = json.loads(json.dumps(gen_case(rng, engine)))
            c["nbins"] = nb
            c["thr"] = None
            c["tag"] = f"nbins_{nb}"
            out.append(c)
    return out


# --------------------------------------------------------------------------- settings / real code
def level_sql(col, l):
    cl, cr = f'"{col}_l"', f'"{col}_r"'
    k = l["kind"]
    if k == "null":
        return f"{cl} IS NULL OR {cr} IS NULL"
    if k == "eq":
        return f"{cl} = {cr}"
    if k == "lev":
        return f"levenshtein({cl}, {cr}) <= {l['k']}"
    return "ELSE"


def settings_dict(case):
    comps = []
    for ci, c in enumerate(case["comparisons"]):
        lv = []
        for l in c["levels"]:
            d = {"sql_condition": level_sql(c["col"], l), "label_for_charts": l["kind"] + str(l.get("k", ""))}
            if l["kind"] == "null":
                d["is_null_level"] = True
            else:
                d["m_probability"], d["u_probability"] = l["m"], l["u"]
            if "tf" in l:
                d["tf_adjustment_column"] = c["col"]
                d["tf_adjustment_weight"] = l["tf"]["weight"]
                d["tf_minimum_u_value"] = l["tf"]["minU"]
            lv.append(d)
        comps.append({"output_column_name": f"{c['col']}{ci}", "comparison_levels": lv})
    return {
        "link_type": case["link_type"], "comparisons": comps,
        "blocking_rules_to_generate_predictions": [" AND ".join(f"l.{c} = r.{c}" for c in rule) for rule in case["blocking"]],
        "probability_two_random_records_match": case["prior"], "retain_matching_columns": True,
        "retain_intermediate_calculation_columns": True,
    }


def frames(case):
    from harness import impl

    out = []
    rng = random.Random(case.get("shuffle", 0))
    for rows in case["tables"]:
        rows = list(rows)
        rng.shuffle(rows)
        out.append(impl.typed_frame([{k: r[k] for k in TYPES} for r in rows], TYPES))
    return out


def compl_names(case):
    return ALIASES[: len(case["tables"])] if case["compl_names"] else None


def run_impl(case: dict) -> dict:
    from splink import Linker
    from splink.internals.comparison_vector_distribution import comparison_vector_distribution_sql
    from splink.internals.completeness import completeness_data
    from splink.internals.match_weights_histogram import histogram_data
    from splink.internals.pipeline import CTEPipeline
    from splink.internals.unlinkables import unlinkables_data
    from splink.internals.vertically_concatenate import compute_df_concat_with_tf

    from harness import impl

    k = len(case["tables"])
    out: dict = {}
    if case["engine"] == "duckdb":  # completeness_data emits parenthesised UNION ALL members: not SQLite syntax (the test-suite excludes sqlite too)
        api = impl.make_api("duckdb", threads=2)
        d = api.register_multiple_tables(frames(case), [f"in_{a}" for a in ALIASES[:k]])
        out["compl"] = [dict(r) for r in completeness_data(d, api, case["compl_cols"], compl_names(case))]
    api = impl.make_api(case["engine"], threads=2)
    linker = Linker(frames(case), settings_dict(case), api, input_table_aliases=ALIASES[:k])

    def tf_tables():
        res = {}
        for col in COLS:
            recs = linker.table_management.compute_tf_table(col).as_record_dict()
            res[col] = [[r[col], r[f"tf_{col}"]] for r in recs]
        return res

    if case["tf_first"]:
        out["tf"] = tf_tables()
    cw = compute_df_concat_with_tf(linker, CTEPipeline()).as_record_dict()
    out["concat"] = [{kk: v for kk, v in r.items() if kk in ("unique_id", "source_dataset", "a", "b", "c") or kk.startswith("tf_")} for r in cw]
    kw = {} if case["thr"] is None else {"threshold_match_probability": case["thr"]}
    pred = linker.inference.predict(**kw)
    out["predict"] = [{kk: v for kk, v in r.items() if kk.startswith(("gamma_", "tf_", "match_", "unique_id", "source_dataset")) or kk[:-2] in COLS} for r in pred.as_record_dict()]
    if not case["tf_first"]:
        out["tf"] = tf_tables()
    pipeline = CTEPipeline([pred])
    pipeline.enqueue_sql(comparison_vector_distribution_sql(linker), "__splink__df_comparison_vector_distribution")
    out["cvd"] = api.sql_pipeline_to_splink_dataframe(pipeline).as_record_dict()
    if out["predict"]:
        hist = histogram_data(linker, pred, case["nbins"]).as_record_dict()
        out["hist"] = [{kk: float(v) if kk != "count_rows" else int(v) for kk, v in r.items()} for r in hist]
    else:
        out["hist"] = None  # _bins(None, None, n) raises TypeError on an empty prediction table: no scored pairs, nothing to partition
    out["unl"] = unlinkables_data(linker)
    out["self"] = [[r["match_weight"], r["match_probability"]] for r in linker._self_link().as_record_dict()]
    return out


run_impl_safe = core.safe(run_impl)


# --------------------------------------------------------------------------- independent oracle
def records(case):
    out = []
    for ti, rows in enumerate(case["tables"]):
        for r in rows:
            out.append(dict(r, source_dataset=ALIASES[ti], _t=ti))
    return out


def gamma_of(c, x, y):
    nn = [l for l in c["levels"] if l["kind"] != "null"]
    for l in c["levels"]:
        k = l["kind"]
        if k == "null":
            hit = x is None or y is None
        elif k == "else":
            hit = True
        elif x is None or y is None:
            hit = False
        elif k == "eq":
            hit = x == y
        else:
            hit = lev(x, y) <= l["k"]
        if hit:
            return (-1 if k == "null" else len(nn) - 1 - nn.index(l)), l
    raise AssertionError


def scored_pairs(case):
    """Unordered admissible pairs that some blocking rule accepts (no rule = all admissible pairs)."""
    recs = records(case)
    out = []
    for i in range(len(recs)):
        for j in range(i + 1, len(recs)):
            x, y = recs[i], recs[j]
            if case["link_type"] == "link_only" and x["_t"] == y["_t"]:
                continue
            if case["blocking"] and not any(all(x[c] is not None and x[c] == y[c] for c in rule) for rule in case["blocking"]):
                continue
            out.append((x, y))
    return out


def tf_of(case, col):
    vals = [r[col] for r in records(case) if r[col] is not None]
    return {v: vals.count(v) / len(vals) for v in set(vals)}


def self_probability(case, rec):
    bf = case["prior"] / (1 - case["prior"])
    for c in case["comparisons"]:
        v = rec[c["col"]]
        g, l = gamma_of(c, v, v)
        if l["kind"] == "null":
            continue
        bf *= l["m"] / l["u"]
        if "tf" in l and v is not None and l["kind"] != "else":
            t = tf_of(case, c["col"])[v]
            bf *= (l["u"] / max(t, l["tf"]["minU"])) ** l["tf"]["weight"]
    return bf / (1 + bf), math.log2(bf)


def tol32(case):
    """Columns Splink casts to `float`: 32-bit in DuckDB (relative 2^-24 per operation), double in SQLite."""
    return 2e-7 if case["engine"] == "duckdb" else 1e-12


def rkey(r):
    return (r["source_dataset"], r["unique_id"]) if "source_dataset" in r else (ALIASES[0], r["unique_id"])


def knife(x, scale):
    y = x * scale
    return abs(y - math.floor(y) - 0.5) < 1e-4


def half_away(x, scale):
    y = x * scale
    return int(math.floor(abs(y) + 0.5)) * (1 if y >= 0 else -1)


def verdict(case, r):
    """The property decided on the real output only (None = holds)."""
    recs = records(case)
    n = len(recs)
    t32 = tol32(case)
    # ---- term-frequency tables
    for col in COLS:
        want = tf_of(case, col)
        got = r["tf"][col]
        if len({v for v, _ in got}) != len(got):
            return f"tf table of {col} lists a value twice: {got}"
        if {v for v, _ in got} != set(want):
            return f"tf table of {col} lists values {sorted(map(str, (v for v, _ in got)))} but the non-null values are {sorted(map(str, want))}"
        for v, t in got:
            if not core.close(t, want[v], 1e-12):
                return f"tf_{col}({v}) = {t} but its relative frequency among non-null values is {want[v]}"
        if got and not core.close(sum(t for _, t in got), 1.0, 1e-9):
            return f"tf table of {col} sums to {sum(t for _, t in got)}"
    # ---- ... are the values used in scoring
    tfcols = sorted({c["col"] for c in case["comparisons"] if any("tf" in l for l in c["levels"])})
    if len(r["concat"]) != n or sorted(map(str, (rkey(x) for x in r["concat"]))) != sorted(str((x["source_dataset"], x["unique_id"])) for x in recs):
        return f"__splink__df_concat_with_tf has {len(r['concat'])} rows for {n} input records (the TF join must neither drop nor duplicate records)"
    for x in r["concat"]:
        for col in tfcols:
            w = None if x[col] is None else tf_of(case, col)[x[col]]
            if not core.close(x.get(f"tf_{col}"), w, 1e-12):
                return f"record {rkey(x)} carries tf_{col} = {x.get(f'tf_{col}')} for value {x[col]!r}; the TF table says {w}"
    for p in r["predict"]:
        for col in tfcols:
            for side in ("l", "r"):
                v = p.get(f"{col}_{side}")
                w = None if v is None else tf_of(case, col)[v]
                if f"tf_{col}_{side}" not in p or not core.close(p[f"tf_{col}_{side}"], w, 1e-12):
                    return f"scored pair uses tf_{col}_{side} = {p.get(f'tf_{col}_{side}')} for value {v!r}; the TF table says {w}"
    # ---- completeness
    if "compl" in r:
        cols = case["compl_cols"] or list(TYPES)
        names = compl_names(case) or [f"input_data_{i + 1}" for i in range(len(case["tables"]))]
        want = {}
        for ti, rows in enumerate(case["tables"]):
            for col in cols:
                nn = sum(1 for x in rows if x[col] is not None)
                want[(names[ti], col)] = (len(rows) - nn, len(rows), nn / len(rows))
        got = {}
        for x in r["compl"]:
            key = (x["source_dataset"], x["column_name"])
            if key in got:
                return f"completeness lists {key} twice"
            got[key] = (x["total_null_rows"], x["total_rows_inc_nulls"], x["completeness"])
        if set(got) != set(want):
            return f"completeness rows {sorted(map(str, got))} but the (dataset, column) pairs are {sorted(map(str, want))}"
        for key, (nul, tot, comp) in want.items():
            g = got[key]
            if g[0] != nul or g[1] != tot or not core.close(g[2], comp, t32, t32):
                return f"completeness of {key}: (nulls, rows, completeness) = {g} but a recount gives {(nul, tot, comp)}"
    # ---- comparison-vector distribution
    gcols = [f"gamma_{c['col']}{i}" for i, c in enumerate(case["comparisons"])]
    pv = [tuple(p[g] for g in gcols) for p in r["predict"]]
    npairs = len(pv)
    if case["thr"] is None:
        sp = scored_pairs(case)
        if npairs != len(sp):
            return f"predict scored {npairs} pairs; the blocking rules and link type admit {len(sp)}"
        indep = sorted(tuple(gamma_of(c, x[c["col"]], y[c["col"]])[0] for c in case["comparisons"]) for x, y in sp)
        if indep != sorted(pv):
            return "gamma vectors of the scored pairs differ from an independent evaluation of the levels"
    seen = set()
    tot, totp = 0, 0.0
    last = None
    for x in r["cvd"]:
        g = tuple(x[c] for c in gcols)
        if g in seen:
            return f"comparison vector {g} listed twice"
        seen.add(g)
        cnt = x["count_rows_in_comparison_vector_group"]
        if cnt != pv.count(g) or cnt == 0:
            return f"comparison vector {g}: count {cnt} but {pv.count(g)} scored pairs have it"
        if not core.close(x["proportion_of_comparisons"], cnt / npairs, t32, t32):
            return f"comparison vector {g}: proportion {x['proportion_of_comparisons']} but {cnt}/{npairs}"
        sg = sum(0 if v == -1 else (-1 if v == 0 else v) for v in g)
        if x["sum_gam"] != sg or str(x["gam_concat"]) != ",".join(str(v) for v in g):  # one comparison: gam_concat is the integer column itself
            return f"comparison vector {g}: sum_gam/gam_concat {x['sum_gam']}/{x['gam_concat']}"
        if last is not None and sg < last:
            return "comparison vector distribution is not ordered by sum_gam"
        last = sg
        tot += cnt
        totp += x["proportion_of_comparisons"]
    if tot != npairs or seen != set(pv):
        return f"comparison-vector counts add up to {tot} for {npairs} scored pairs"
    if npairs and abs(totp - 1.0) > max(1e-9, t32 * len(seen)):
        return f"comparison-vector proportions add up to {totp}"
    # ---- histogram
    ws = [p["match_weight"] for p in r["predict"]]
    if r["hist"] is not None:
        bws = {x["binwidth"] for x in r["hist"]}
        if len(bws) != 1:
            return f"histogram rows carry different bin widths {bws}"
        bw = bws.pop()
        rough = (max(ws) - min(ws)) / case["nbins"]
        if bw not in BIN_WIDTHS or any(abs(b - rough) < abs(bw - rough) - 1e-12 for b in BIN_WIDTHS):
            return f"bin width {bw} is not the listed width closest to (max-min)/num_bins = {rough}"
        if sum(x["count_rows"] for x in r["hist"]) != npairs:
            return f"histogram counts add up to {sum(x['count_rows'] for x in r['hist'])} for {npairs} scored pairs"
        lows = [x["splink_score_bin_low"] for x in r["hist"]]
        if any(b <= a for a, b in zip(lows, lows[1:])):
            return "histogram bins are not strictly ascending (a bin is listed twice or out of order)"
        for x in r["hist"]:
            lo = x["splink_score_bin_low"]
            kq = lo / bw
            if abs(kq - round(kq)) > 1e-6:
                return f"bin low {lo} is not a multiple of the width {bw}"
            if not core.close(x["splink_score_bin_high"], lo + bw, 1e-6, 1e-7):
                return f"bin [{lo}, {x['splink_score_bin_high']}) is not {bw} wide"
            eps = 1e-9 * max(1.0, abs(lo))
            strict = sum(1 for w in ws if lo + eps <= w < lo + bw - eps)
            loose = sum(1 for w in ws if lo - eps <= w < lo + bw + eps)
            if not (strict <= x["count_rows"] <= loose) or x["count_rows"] == 0:
                return f"bin [{lo}, {lo + bw}) reports {x['count_rows']} pairs; between {strict} and {loose} scored pairs have their weight in it"
    # ---- unlinkables
    sp_ = sorted(p for _, p in r["self"])
    if len(sp_) != n:
        return f"self-link scores {len(sp_)} rows for {n} records"
    indep = sorted(self_probability(case, x)[0] for x in recs)
    if any(not core.close(a, b, 1e-9) for a, b in zip(sp_, indep)):
        return f"self-match probabilities {sp_} differ from the Fellegi-Sunter value of each record compared with itself {indep}"
    if not any(knife(p, 1e5) for p in sp_):
        rounded = [half_away(p, 1e5) for p in sp_]
        listed = sorted({q for q in rounded if q < 100000})
        got = r["unl"]
        gl = [x["match_probability"] for x in got]
        if len(gl) != len(listed) or any(not core.close(a, b / 1e5, 1e-9) for a, b in zip(gl, listed)):
            return f"unlinkables lists probabilities {gl}; the rounded self-match probabilities below 1 are {[q / 1e5 for q in listed]}"
        tcum = 1e-6 if case["engine"] == "duckdb" else 1e-12
        for x, q in zip(got, listed):
            share = sum(1 for v in rounded if v <= q) / n
            own = sum(1 for v in rounded if v == q) / n
            if not core.close(x["cum_prop"], share, tcum, tcum):
                return f"unlinkables at p = {q / 1e5}: cum_prop {x['cum_prop']} but {share} of the records score at or below it"
            if not core.close(x["prop"], own, t32, t32):
                return f"unlinkables at p = {q / 1e5}: prop {x['prop']} but {own} of the records score exactly it"
            grp = [w for w, p in r["self"] if half_away(p, 1e5) == q]
            if not any(knife(w, 1e2) for w in grp) and not core.close(x["match_weight"], max(half_away(w, 1e2) for w in grp) / 100, 1e-9):
                return f"unlinkables at p = {q / 1e5}: match_weight {x['match_weight']} but the largest rounded weight of the group is {max(half_away(w, 1e2) for w in grp) / 100}"
    return None


# --------------------------------------------------------------------------- model
def model_request(case, r):
    recs = records(case)
    codes = {c: {} for c in ["unique_id"] + COLS}

    def code(c, v):
        return None if v is None else codes[c].setdefault(v, len(codes[c]))

    cols = [[code(c, x[c]) for x in recs] for c in ["unique_id"] + COLS]
    gcols = [f"gamma_{c['col']}{i}" for i, c in enumerate(case["comparisons"])]
    req = {
        "op": "descriptive", "sd": [x["_t"] for x in recs], "cols": cols, "tfcols": [1, 2, 3],
        "gammas": [[int(p[g]) for g in gcols] for p in r["predict"]],
        "weights": [core.f2b(p["match_weight"]) for p in r["predict"]], "nbins": case["nbins"],
        "self": [[core.f2b(w), core.f2b(p)] for w, p in r["self"]],
    }
    return req, codes


def compare_model(case, r, m, codes):
    """None, or how the real output differs from the Lean model."""
    recs = records(case)
    t32 = tol32(case)
    for ci, col in enumerate(COLS):
        inv = {v: k for k, v in codes[col].items()}
        mt = {inv[v]: num / den for v, num, den in m["tf"][ci]}
        rt = {v: t for v, t in r["tf"][col]}
        if set(mt) != set(rt) or any(not core.close(mt[v], rt[v], 1e-12) for v in mt):
            return f"tf table {col}: impl {rt} model {mt}"
    tfcols = sorted({c["col"] for c in case["comparisons"] if any("tf" in l for l in c["levels"])})
    by = {rkey(x): x for x in r["concat"]}
    for col in tfcols:
        mj = m["tfjoin"][COLS.index(col)]
        if len(mj) != len(recs) or len(r["concat"]) != len(recs):
            return f"tf join {col}: impl {len(r['concat'])} rows, model {len(mj)} rows, {len(recs)} records"
        for x, e in zip(recs, mj):
            got = by[(x["source_dataset"], x["unique_id"])].get(f"tf_{col}")
            if not core.close(got, None if e is None else e[0] / e[1], 1e-12):
                return f"tf join {col} record {x['source_dataset'], x['unique_id']}: impl {got} model {e}"
    if "compl" in r:
        allc = ["unique_id"] + COLS
        names = compl_names(case) or [f"input_data_{i + 1}" for i in range(len(case["tables"]))]
        mm = {}
        for col in case["compl_cols"] or allc:
            for sd, nul, tot, nn in m["compl"][allc.index(col)]:
                mm[(names[sd], col)] = (nul, tot, nn / tot)
        rr = {(x["source_dataset"], x["column_name"]): (x["total_null_rows"], x["total_rows_inc_nulls"], x["completeness"]) for x in r["compl"]}
        if set(mm) != set(rr) or len(rr) != len(r["compl"]) or any(mm[k][:2] != tuple(rr[k][:2]) or not core.close(mm[k][2], rr[k][2], t32, t32) for k in mm):
            return f"completeness: impl {rr} model {mm}"
    gcols = [f"gamma_{c['col']}{i}" for i, c in enumerate(case["comparisons"])]
    mc = {tuple(g): (sg, cnt, cnt / tot) for g, sg, cnt, tot in m["cvd"]}
    rc = {tuple(x[c] for c in gcols): (x["sum_gam"], x["count_rows_in_comparison_vector_group"], x["proportion_of_comparisons"]) for x in r["cvd"]}
    if set(mc) != set(rc) or len(rc) != len(r["cvd"]) or any(mc[k][:2] != tuple(rc[k][:2]) or not core.close(mc[k][2], rc[k][2], t32, t32) for k in mc):
        return f"comparison vector distribution: impl {rc} model {mc}"
    if (r["hist"] is None) != (m["hist"] is None):
        return f"histogram: impl {r['hist']} model {m['hist']}"
    if r["hist"] is not None:
        bw = core.b2f(m["hist"]["bw"])
        if any(x["binwidth"] != bw for x in r["hist"]):
            return f"histogram bin width: impl {[x['binwidth'] for x in r['hist']]} model {bw}"
        mb = sorted((core.b2f(k), cnt) for k, cnt in m["hist"]["bins"])
        rb = sorted((x["splink_score_bin_low"], x["count_rows"]) for x in r["hist"])
        if len(mb) != len(rb) or any(not core.close(a[0], b[0], 1e-12) or a[1] != b[1] for a, b in zip(mb, rb)):
            return f"histogram bins: impl {rb} model {mb}"
    if not any(knife(p, 1e5) for _, p in r["self"]) and not any(knife(w, 1e2) for w, _ in r["self"]):
        mu = sorted((p, w, cnt, cum, tot) for w, p, cnt, cum, tot in m["unl"])
        ru = sorted(r["unl"], key=lambda x: x["match_probability"])
        tcum = 1e-6 if case["engine"] == "duckdb" else 1e-12
        if len(mu) != len(ru) or any(
            not core.close(x["match_probability"], p / 1e5, 1e-9) or not core.close(x["match_weight"], w / 100, 1e-9, 1e-9)
            or not core.close(x["prop"], cnt / tot, t32, t32) or not core.close(x["cum_prop"], cum / tot, tcum, tcum)
            for x, (p, w, cnt, cum, tot) in zip(ru, mu)
        ):
            return f"unlinkables: impl {ru} model {mu}"
    return None


# --------------------------------------------------------------------------- exhaustive small domain
def wide_case(engine, split):
    """All 27 columns of length 3 over {NULL, x, y} as 27 columns of one 3-row dataset (split over 1 or 2 tables)."""
    import itertools

    cols = list(itertools.product([None, "x", "y"], repeat=3))
    rows = [dict({"unique_id": i}, **{f"c{j}": col[i] for j, col in enumerate(cols)}) for i in range(3)]
    tables = [rows] if split == 0 else [rows[:split], rows[split:]]
    return {"engine": engine, "tables": tables, "ncols": len(cols), "tag": "wide"}


def run_wide(case):
    from splink import Linker
    from splink.internals.completeness import completeness_data

    from harness import impl

    types = dict({"unique_id": "int"}, **{f"c{j}": "str" for j in range(case["ncols"])})
    k = len(case["tables"])
    dfs = lambda: [impl.typed_frame(t, types) for t in case["tables"]]  # noqa: E731
    out = {}
    if case["engine"] == "duckdb":
        api = impl.make_api("duckdb", threads=2)
        d = api.register_multiple_tables(dfs(), [f"in_{a}" for a in ALIASES[:k]])
        out["compl"] = [dict(r) for r in completeness_data(d, api, None, ALIASES[:k])]
    api = impl.make_api(case["engine"], threads=2)
    settings = {"link_type": "dedupe_only" if k == 1 else "link_and_dedupe", "blocking_rules_to_generate_predictions": [],
                "comparisons": [{"output_column_name": "c0", "comparison_levels": [
                    {"sql_condition": '"c0_l" IS NULL OR "c0_r" IS NULL', "is_null_level": True, "label_for_charts": "null"},
                    {"sql_condition": '"c0_l" = "c0_r"', "m_probability": 0.9, "u_probability": 0.1, "label_for_charts": "eq"},
                    {"sql_condition": "ELSE", "m_probability": 0.1, "u_probability": 0.9, "label_for_charts": "else"}]}]}
    linker = Linker(dfs(), settings, api, input_table_aliases=ALIASES[:k])
    out["tf"] = {}
    for j in range(case["ncols"]):
        recs = linker.table_management.compute_tf_table(f"c{j}").as_record_dict()
        out["tf"][f"c{j}"] = [[r[f"c{j}"], r[f"tf_c{j}"]] for r in recs]
    return out


run_wide_safe = core.safe(run_wide)


def check_wide(ctx, drv):
    cases = [wide_case(e, s) for e in ("duckdb", "sqlite") for s in (0, 1, 2)]
    res = core.pmap(run_wide_safe, cases)
    problems = []
    for c, r in zip(cases, res):
        recs = [dict(x, _t=ti) for ti, t in enumerate(c["tables"]) for x in t]
        names = [f"c{j}" for j in range(c["ncols"])]
        code = {None: None, "x": 0, "y": 1}
        req = {"op": "descriptive", "sd": [x["_t"] for x in recs], "cols": [[code[x[nm]] for x in recs] for nm in names],
               "tfcols": list(range(c["ncols"])), "gammas": [], "weights": [], "nbins": 1, "self": []}
        m = drv.batch([req])[0]
        if "error" in m:
            raise core.HarnessError("model driver error: " + m["error"])
        ctx.case({"wide": c["engine"], "tables": [len(t) for t in c["tables"]]}, True)
        ctx.count("family", "exhaustive_columns_len3")
        if core.impl_error(r):
            problems.append((c, f"real code raised {r['__error__']}: {r['text'][:300]}", True))
            continue
        bad = None
        for j, nm in enumerate(names):
            vals = [x[nm] for x in recs if x[nm] is not None]
            want = {v: vals.count(v) / len(vals) for v in set(vals)}
            got = {v: t for v, t in r["tf"][nm]}
            if len(got) != len(r["tf"][nm]) or set(got) != set(want) or any(not core.close(got[v], want[v], 1e-12) for v in want):
                problems.append((c, f"tf table of column {[x[nm] for x in recs]}: {r['tf'][nm]} but the relative frequencies are {want}", True))
                bad = True
                break
            mt = {("x", "y")[v]: num / den for v, num, den in m["tf"][j]}
            if set(mt) != set(got) or any(not core.close(mt[v], got[v], 1e-12) for v in mt):
                problems.append((c, f"tf table of column {[x[nm] for x in recs]}: impl {got} model {mt}", False))
                bad = True
                break
        if bad:
            continue
        if "compl" in r:
            got = {(x["source_dataset"], x["column_name"]): (x["total_null_rows"], x["total_rows_inc_nulls"], x["completeness"]) for x in r["compl"]}
            want, mm = {}, {}
            for ti, t in enumerate(c["tables"]):
                for nm in ["unique_id"] + names:
                    nn = sum(1 for x in t if x[nm] is not None)
                    want[(ALIASES[ti], nm)] = (len(t) - nn, len(t), nn / len(t))
            for j, nm in enumerate(names):
                for sd, nul, tot, nn in m["compl"][j]:
                    mm[(ALIASES[sd], nm)] = (nul, tot, nn / tot)
            if len(got) != len(r["compl"]) or set(got) != set(want) or any(got[k][:2] != want[k][:2] or not core.close(got[k][2], want[k][2], 2e-7, 2e-7) for k in want):
                problems.append((c, f"completeness (exhaustive columns) differs from a recount: {[(k, got.get(k), want[k]) for k in want if got.get(k) != want[k]][:3]}", True))
                continue
            if any(got[k][:2] != mm[k][:2] or not core.close(got[k][2], mm[k][2], 2e-7, 2e-7) for k in mm):
                problems.append((c, "completeness (exhaustive columns): impl differs from model", False))
                continue
        ctx.traces_validated += 1
    return problems


# --------------------------------------------------------------------------- driver of the comparison
def canon(case):
    return {k: case[k] for k in ("tables", "comparisons", "link_type", "engine", "blocking", "nbins", "thr", "prior", "compl_cols")}


def compare(ctx, cases, drv):
    res = core.pmap(run_impl_safe, cases)
    problems = []
    todo = []
    for c, r in zip(cases, res):
        n = sum(len(t) for t in c["tables"])
        ok = isinstance(r, dict) and "predict" in r
        ctx.case(canon(c), ok and len(r["predict"]) > 0 and n >= 3,
                 sample={"case": canon(c), "impl": {k: r[k] for k in ("tf", "cvd", "hist", "unl") if k in r}} if ok and n <= 3 else None)
        ctx.count("engine", c["engine"]); ctx.count("n_tables", len(c["tables"])); ctx.count("link_type", c["link_type"]); ctx.count("tag", c["tag"])
        ctx.count("n_records", n); ctx.count("n_comparisons", len(c["comparisons"])); ctx.count("nbins", c["nbins"]); ctx.count("thresholded", c["thr"] is not None)
        ctx.count("blocking_rules", len(c["blocking"]))
        for col, p in (c.get("profile") or {}).items():
            ctx.count("column_profile", p)
        ctx.count("tf_adjusted", any("tf" in l for cc in c["comparisons"] for l in cc["levels"]))
        if core.impl_error(r):
            ctx.count("impl_error", r["__error__"])
            problems.append((c, f"real code raised {r['__error__']}: {r['text'][:300]}", True))
            continue
        ctx.count("scored_pairs", min(len(r["predict"]), 50) // 10 * 10)
        if c["engine"] == "sqlite":
            ctx.count("excluded", "completeness_data on sqlite (parenthesised UNION ALL members are not SQLite syntax; loud, the test-suite excludes it)")
        if r["hist"] is None:
            ctx.count("excluded", "histogram of an empty prediction table (no scored pair to partition; _bins raises TypeError on min = max = None)")
        if any(knife(p, 1e5) for _, p in r["self"]):
            ctx.count("excluded", "unlinkables listing: a self-match probability within 1e-9 of a rounding boundary")
        v = verdict(c, r)
        if v is not None:
            problems.append((c, v, True))
            continue
        todo.append((c, r))
    built = [model_request(c, r) for c, r in todo]
    mres = drv.pbatch([b[0] for b in built])
    for (c, r), (req, codes), m in zip(todo, built, mres):
        if "error" in m:
            raise core.HarnessError("model driver error: " + m["error"])
        bad = compare_model(c, r, m, codes) or c20_sql.differs(ctx, m)
        if bad:
            problems.append((c, "descriptive outputs differ from Lean model Descriptive: " + bad, False))
            continue
        ctx.traces_validated += 1
    return problems


def impl_fails(case):
    r = run_impl_safe(case)
    return "__error__" in r or verdict(case, r) is not None


def shrink(case):
    cur = json.loads(json.dumps(case))
    budget = 30
    changed = True
    while changed and budget > 0:
        changed = False
        for ti in range(len(cur["tables"])):
            for ri in range(len(cur["tables"][ti]) - 1, -1, -1):
                if budget <= 0 or len(cur["tables"][ti]) <= 1:
                    break
                cand = json.loads(json.dumps(cur))
                del cand["tables"][ti][ri]
                budget -= 1
                if impl_fails(cand):
                    cur, changed = cand, True
        for ci in range(len(cur["comparisons"]) - 1, -1, -1):
            if budget <= 0 or len(cur["comparisons"]) <= 1:
                break
            cand = json.loads(json.dumps(cur))
            del cand["comparisons"][ci]
            budget -= 1
            if impl_fails(cand):
                cur, changed = cand, True
    return cur


def classify(what):
    for pat, cls in [("tf table", "term-frequency table is not the relative frequency"), ("tf_", "TF value used in scoring differs from the TF table"),
                     ("concat_with_tf", "TF join drops or duplicates records"), ("completeness", "completeness differs from a recount"),
                     ("predict scored", "scored pairs differ from the admissible blocked pairs"), ("gamma vectors", "gamma vectors differ"),
                     ("comparison vector", "comparison-vector distribution does not partition the scored pairs"), ("comparison-vector", "comparison-vector distribution does not partition the scored pairs"),
                     ("bin", "histogram does not partition the scored pairs"), ("histogram", "histogram does not partition the scored pairs"),
                     ("self-", "self-link scores differ"), ("unlinkables", "unlinkables is not the cumulative share"), ("real code raised", "real code raised")]:
        if pat in what:
            return cls
    return what[:60]


def run(ctx: core.Ctx):
    ctx.rule = (
        "cases = 1-3 tables (aliases ta/tb/tc, overlapping ids) x 1-9 rows x columns a, b (strings with near-duplicates), c (int) each drawn from a profile "
        "(mixed, NULL-heavy 70%, all-NULL, single-valued, all-distinct) x 1-3 comparisons (optional null level, exact, levenshtein<=1/2, else; random m/u; TF adjustment on the exact level with "
        "weight in {0,.3,.5,1} and minimum u in {0,.01,.2}) x prior x 0-2 equality blocking rules x link type x num_bins in {1,5,10,30,100} x optional probability threshold (20%) x "
        "completeness over all columns or a subset, default or given dataset names x TF tables computed before or after predict; duckdb 2/3, sqlite 1/3. "
        "+ adversarial families (all-NULL data, one record, identical records, probabilities rounding to 1, 1 and 100 bins) "
        "+ exhaustive: every column of length 3 over {NULL,x,y} (27 columns) in one dataset split 3 / 1+2 / 2+1 over tables, both engines. "
        "non-trivial = at least 3 records and at least one scored pair; distinct = hash of (tables, model, link type, engine, blocking, bins, threshold, columns)."
    )
    ctx.assumptions = [
        "SQL semantics of DuckDB / SQLite (GROUP BY, count(*) vs count(col), LEFT JOIN, window sum with RANGE framing, round, floor) are trusted for the atoms the model takes as given",
        "scores (gamma, match_weight, match_probability) are C02's subject: the model takes predict()/_self_link() rows as input; the oracle additionally recomputes gamma vectors and self-match probabilities independently",
        "columns cast to `float` are 32-bit in DuckDB: completeness, proportion_of_comparisons, prop are compared at 2e-7, cum_prop at 1e-6; float8 term frequencies at 1e-12",
        "round(x,5)/round(x,2): rows whose value is within 1e-9 (relative 1e-4 of a unit) of a rounding boundary are excepted (DuckDB rounds x*10^k half away from zero, SQLite rounds the decimal expansion)",
        "histogram: a weight within 1e-9 of a bin edge may be counted in either neighbouring bin (bw*floor(w/bw) at Float)",
        "completeness_data does not run on SQLite (syntax); histogram_data raises on an empty prediction table: both loud, excluded and counted",
    ]
    sql_errs = c20_sql.prepare()  # Generated/DescSql.lean: the TF-table and completeness statements the code emits now, as Rel terms (T-sql)
    ctx.lean = core.lean_check(PROP, ctx.thorough)
    if sql_errs:
        ctx.lean.ok = False
        ctx.lean.problems += ["T-sql: " + e for e in sql_errs]
    drv = core.Driver()
    if ctx.replay:
        cases = [json.loads(open(ctx.replay).read())["replay"]["case"]]
        problems = compare(ctx, cases, drv)
    else:
        from harness import graphs

        cases = list(graphs.load_corpus(PROP)) + adversarial_cases(ctx.rng) + [gen_case(ctx.rng) for _ in range(ctx.budget(600, 6000))]
        problems = check_wide(ctx, drv)
        ctx.exhaustive = True
        problems += compare(ctx, cases, drv)
    if (not ctx.lean.ok or any(not conc for _, _, conc in problems)) and not ctx.replay:
        ctx.notes.append("proof or correspondence broke: ran the widened failing-input search")
        rng2 = random.Random(ctx.seed + 7919)
        problems += compare(ctx, [gen_case(rng2) for _ in range(400)], drv)
    concrete = [(c, w) for c, w, conc in problems if conc]
    broken = [(c, w) for c, w, conc in problems if not conc]
    reported = set()
    for c, w in concrete:
        cls = classify(w)
        if cls in reported or len(reported) >= 4:
            continue
        reported.add(cls)
        if c.get("tag") == "wide":
            ctx.violation("real output violates C20: " + cls, {"case": c, "detail": w}, kind="concrete", match_info={"failure": cls, "engine": c["engine"]})
            continue
        small = shrink(c)
        rr = run_impl_safe(small)
        what = (verdict(small, rr) if "predict" in rr else f"real code raised {rr['__error__']}: {rr['text'][:300]}") or w
        ctx.violation("real output violates C20: " + classify(what),
                      {"case": small, "settings": settings_dict(small), "observed": rr, "detail": what},
                      kind="concrete", match_info={"failure": classify(what), "engine": small["engine"], "tag": small.get("tag")})
    if not concrete:
        if broken:
            c, w = broken[0]
            ctx.violation("correspondence Descriptive model <-> term_frequencies.py / completeness.py / comparison_vector_distribution.py / match_weights_histogram.py / unlinkables.py no longer checks",
                          {"correspondence": "harness/props/c20.py compare_model(): " + w[:3000], "case": c, "disagreeing_cases": len(broken), "searched_cases": ctx.evaluations, "lean": ctx.lean.as_dict()}, kind="unproved")
        elif not ctx.lean.ok:
            ctx.violation("Lean obligations for C20 no longer check",
                          {"theorems": ctx.lean.as_dict()["undischarged"], "problems": ctx.lean.problems, "build_log_tail": ctx.lean.build_log[-1500:], "searched_cases": ctx.evaluations}, kind="unproved")
