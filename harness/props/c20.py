"""C20 — descriptive outputs are exact recounts of the data.

Lean: Model/Descriptive.lean mirrors term_frequencies_for_single_column_sql + the LEFT JOIN of
_join_tf_to_df_concat_sql, completeness_data, comparison_vector_distribution_sql, _bins/_hist_sql and
unlinkables_data; Properties/C20.lean proves TF = relative frequency / sums to 1 / is the joined value,
completeness = recount per (dataset, column), the comparison-vector groups and histogram bins partition the scored
pairs, integer bins contain their weight and are unique, _bins picks a closest width, and the unlinkables window is
the cumulative count of records at or below each listed probability.
Tie: compute_tf_table / compute_df_concat_with_tf / predict() tf columns / completeness_data / the comparison-vector
SQL over predict() / histogram_data / unlinkables_data + _self_link on generated datasets x models, DuckDB + SQLite,
against the compiled model; an independent Python recount decides the property on the real output first.

Generator audit (branch audit-c20): every case additionally draws its input FORM (frames / names of tables the caller registered under
names that differ from the aliases / lists of records; with or without aliases; a single table bare or in a list), its LAYOUT (one
pre-concatenated table with its own source dataset column, columns in another order, an empty table, string ids, renamed columns incl.
blanks, upper case and reserved words, non-default id / source dataset column names), the ENTRY POINTS (internal data functions or the
public completeness_chart / match_weights_histogram / unlinkables_chart / tf_adjustment_chart with default and non-default arguments,
predictions registered with register_table_predict), DATA values (empty / blank strings, case variants, negative and wide ints, integer
match weights on bin edges) and a SEQUENCE (every call twice, failing calls first, invalidate_cache, other data first under the same
names followed by register_table(overwrite=True) and the same calls on the same or a new linker; completeness and linker on one API).
The oracle decides section by section (a standing defect in one output does not blind the others; the model comparison skips only the
rejected sections); profile_columns (anchored profile_data.py) is recounted by the oracle alone.
"""
from __future__ import annotations

import json
import math
import random

from harness import core
from harness.props import c20_sql

PROP = "C20"
ALIASES = ["ta", "tb", "tc"]
STR_DOM = ["ann", "anne", "bob", "bobb", "cy", "dee"]
INT_DOM = [0, 1, 2, 5]
COLS = ["a", "b", "c"]
TYPES = {"unique_id": "int", "a": "str", "b": "str", "c": "int"}
BIN_WIDTHS = [0.01, 0.1, 0.2, 0.25, 0.5, 1, 2, 5]
PROFILES = ["mixed", "mixed", "null_heavy", "all_null", "single", "distinct", "tricky"]
# audit: values a recount must treat as ordinary non-null values (empty / blank strings, case and trailing-blank variants, negative and wide ints)
TRICKY_STR = ["", "ann", "Ann", "ann ", " ", "bob"]
TRICKY_INT = [-1, 0, 1, 1 << 33]
# audit: names of the input columns as the user may have them (blank inside, upper case, reserved words); the canonical names stay a, b, c
NAME_CHOICES = {"unique_id": ["rid", "Rec_ID"], "a": ["first name", "Surname", "order"], "b": ["b 2", "B"], "c": ["group", "n"],
                "source_dataset": ["sds", "Source"]}
SESSIONS = ["invalidate", "rereg_same", "rereg_same_inv", "rereg_new", "new_noalias"]


def lev(a: str, b: str) -> int:
    if a == b:
        return 0
    prev = list(range(len(b) + 1))
    for i, ca in enumerate(a, 1):
        cur = [i]
        for j, cb in enumerate(b, 1):
            cur.append(min(prev[j] + 1, cur[j - 1] + 1, prev[j - 1] + (ca != cb)))
        prev = cur
    return prev[-1]


# --------------------------------------------------------------------------- generation
def gen_probs(rng, k):
    xs = [rng.uniform(0.02, 1.0) for _ in range(k)]
    s = sum(xs)
    return [round(x / s, 6) or 0.000001 for x in xs]


def gen_comparison(rng: random.Random, col: str, dyadic: bool = False):
    levels = []
    if rng.random() < 0.8:
        levels.append({"kind": "null"})
    levels.append({"kind": "eq"})
    if col != "c":
        r = rng.random()
        if r < 0.5:
            levels.append({"kind": "lev", "k": 1})
        if r < 0.2:
            levels.append({"kind": "lev", "k": 2})
    levels.append({"kind": "else"})
    nn = [l for l in levels if l["kind"] != "null"]
    if dyadic:
        # audit: m/u a power of two (with prior 0.5 every match weight is an integer: weights exactly on bin edges, weight 0, many ties)
        for l in nn:
            l["m"], l["u"] = rng.choice([0.5, 0.25, 0.125, 0.0625]), rng.choice([0.5, 0.25, 0.125, 0.0625])
        return {"col": col, "levels": levels}
    for l, m, u in zip(nn, gen_probs(rng, len(nn)), gen_probs(rng, len(nn))):
        l["m"], l["u"] = m, u
    if rng.random() < (0.6 if col != "c" else 0.3):  # audit: TF adjustment on the integer column too
        nn[0]["tf"] = {"weight": rng.choice([0.0, 0.3, 1.0, 1.0, 0.5]), "minU": rng.choice([0.0, 0.0, 0.01, 0.2])}
    return {"col": col, "levels": levels}


def gen_tables(rng: random.Random, k: int, max_rows: int, id_type: str = "int", empty: int | None = None):
    profile = {c: rng.choice(PROFILES) for c in COLS}
    fresh = iter(range(1000))
    tables = []
    single = {"a": rng.choice(STR_DOM), "b": rng.choice(STR_DOM[:4]), "c": rng.choice(INT_DOM)}
    for ti in range(k):
        n = rng.randint(1 if rng.random() < 0.15 else 2, max_rows)
        if ti == empty:
            n = 0  # audit: an empty input table next to non-empty ones
        ids = rng.sample(range(0, 14), n)  # ids overlap across tables
        rows = []
        for u in ids:
            row = {"unique_id": f"r{u}" if id_type == "str" else u}
            for c in COLS:
                p = profile[c]
                if p == "all_null":
                    v = None
                elif p == "single":
                    v = None if rng.random() < 0.15 else single[c]
                elif p == "distinct":
                    j = next(fresh)
                    v = (100 + j) if c == "c" else f"v{j}"
                elif p == "tricky":
                    v = None if rng.random() < 0.2 else rng.choice(TRICKY_INT if c == "c" else TRICKY_STR)
                else:
                    nr = 0.7 if p == "null_heavy" else rng.choice([0.0, 0.15, 0.3])
                    dom = INT_DOM if c == "c" else (STR_DOM if c == "a" else STR_DOM[:4])
                    v = None if rng.random() < nr else rng.choice(dom)
                row[c] = v
            rows.append(row)
        tables.append(rows)
    return tables, profile


def records_form_ok(tables):
    """A list of plain records carries no column types: only offered when every column of every table has a non-null value."""
    return all(t and all(any(r[c] is not None for r in t) for c in COLS) for t in tables)


def gen_case(rng: random.Random, engine=None):
    engine = engine or rng.choice(["duckdb", "duckdb", "sqlite"])
    k = rng.choice([1, 1, 2, 2, 3])
    o = random.Random(rng.randrange(1 << 30))  # the audit's dimensions draw from their own stream
    id_type = "str" if o.random() < 0.2 else "int"
    empty = o.randrange(k) if k >= 2 and o.random() < 0.06 else None
    tables, profile = gen_tables(rng, k, rng.choice([3, 5, 7, 9]), id_type, empty)
    link_type = "dedupe_only" if k == 1 else rng.choice(["link_only", "link_and_dedupe"])
    dyadic = o.random() < 0.1
    if o.random() < 0.15:
        cols = [rng.choice(COLS) for _ in range(rng.randint(2, 3))]  # audit: one column in several comparisons (each may be TF adjusted)
    else:
        cols = rng.sample(COLS, rng.randint(1, 3))
    comps = [gen_comparison(rng, c, dyadic) for c in cols]
    r = rng.random()
    usable = [c for c in COLS if profile[c] not in ("all_null", "distinct")] or COLS
    blocking = [] if r < 0.65 else ([[rng.choice(usable)]] if r < 0.9 else [[rng.choice(usable)], [rng.choice(COLS)]])
    case = {
        "engine": engine, "tables": tables, "profile": profile, "link_type": link_type, "comparisons": comps,
        "prior": 0.5 if dyadic else rng.choice([0.0001, 0.01, 0.3, 0.5, 0.9, round(rng.uniform(0.001, 0.999), 4)]),
        "blocking": blocking, "nbins": rng.choice([1, 5, 10, 30, 30, 100]),
        "thr": None if rng.random() < 0.8 else round(rng.uniform(0.001, 0.5), 3),
        "compl_cols": None if rng.random() < 0.6 else rng.sample(["unique_id"] + COLS, rng.randint(1, 3)),
        "compl_names": rng.random() < 0.5, "tf_first": rng.random() < 0.5, "shuffle": rng.randrange(1 << 30), "tag": "random",
    }
    case.update(gen_options(o, case))
    return sanitize(case)


def gen_options(o: random.Random, case: dict) -> dict:
    """The audit's dimensions: input forms and layouts, column names, public entry points, option boundaries, call sequences."""
    k = len(case["tables"])
    opt: dict = {"id_type": "str" if any(isinstance(r["unique_id"], str) for t in case["tables"] for r in t) else "int"}
    # --- layout
    opt["preconcat"] = k >= 2 and all(case["tables"]) and o.random() < 0.1  # ONE table carrying its own source dataset column
    opt["colperm"] = o.random() < 0.25  # later tables list the same columns in another order
    if o.random() < 0.3:
        names = {}
        for canon, choices in NAME_CHOICES.items():
            if o.random() < 0.6:
                names[canon] = o.choice(choices)
        opt["colnames"] = names
    # --- form in which the tables are handed over
    forms = ["frame", "frame", "name", "name"] + (["records"] if records_form_ok(case["tables"]) else [])
    opt["form"] = o.choice(forms)
    opt["aliases"] = o.random() < 0.75  # False: no input_table_aliases
    opt["bare_single"] = o.random() < 0.5 and opt["form"] != "records"  # a single input table is handed over bare, not in a list (a bare list of records would read as a list of tables)
    opt["api_shared"] = o.random() < 0.5  # completeness and the linker on ONE database API
    opt["via"] = o.choice(["internal", "public"])  # public: completeness_chart / match_weights_histogram / unlinkables_chart
    opt["x_col"] = o.choice(["match_weight", "match_weight", "match_probability"])
    opt["repeat"] = o.random() < 0.08  # every descriptive call twice: the second answer must equal the first
    opt["unl_first"] = o.random() < 0.3  # unlinkables before predict
    opt["pred_form"] = "registered" if o.random() < 0.15 else "computed"  # the predictions handed to the histogram / comparison-vector SQL: predict()'s table, or a pandas copy registered with register_table_predict
    opt["fail_first"] = o.random() < 0.1  # failing calls (unknown column, 0 bins) precede the real ones
    # --- tf_adjustment_chart (public entry points only): how many of the most / least frequent values, values asked for by name
    tfc = [ci for ci, c in enumerate(case["comparisons"]) if any("tf" in l for l in c["levels"])]
    if tfc:
        ci = o.choice(tfc)
        col = case["comparisons"][ci]["col"]
        present = sorted({r[col] for t in case["tables"] for r in t if r[col] is not None}, key=str)
        inc = o.choice([None, None, "present", "absent", "both"])
        include = None if inc is None else ([o.choice(present)] if present and inc in ("present", "both") else []) + ([999 if col == "c" else "zed"] if inc in ("absent", "both") else [])
        opt["tfchart"] = {"comp": ci, "n_most": o.choice(["default", "default", None, 1, 2]), "n_least": o.choice(["default", "default", None, 1, 3]), "include": include}
    # --- option boundaries
    if o.random() < 0.15:
        opt["nbins"] = o.choice([2, 3, 1000])
    if o.random() < 0.12:
        opt["thr_kind"] = "weight"
        opt["thr"] = o.choice([0.0, -2.0, 1.0, round(o.uniform(-6, 6), 2)])
    elif o.random() < 0.05:
        opt["thr_kind"], opt["thr"] = "prob", 0.0  # falsy but given: keeps every pair
    if opt["preconcat"] and case["compl_cols"] is not None and o.random() < 0.5:
        opt["compl_cols"] = case["compl_cols"] + ["source_dataset"]
    # --- sequences on one linker / one database API
    kinds = ["invalidate"]
    if opt["form"] == "name":
        kinds += ["rereg_same", "rereg_same_inv", "rereg_new", "rereg_new"]
    elif not opt["aliases"]:
        kinds += ["new_noalias", "new_noalias"]
    if o.random() < (0.06 if len(kinds) == 1 else 0.2):
        opt["session"] = o.choice(kinds)
        if opt["session"] != "invalidate":
            # the data registered FIRST under the same names: other rows in some (at least one) of the tables
            other, _ = gen_tables(random.Random(o.randrange(1 << 30)), k, 6, opt["id_type"])
            which = [ti for ti in range(k) if o.random() < 0.6] or [o.randrange(k)]
            opt["prelude"] = [other[ti] if ti in which else case["tables"][ti] for ti in range(k)]
            if opt["session"] == "new_noalias":
                opt["prelude"] = other  # a new linker registers every table anew
                if opt["form"] == "records" and not records_form_ok(other):
                    opt["form"] = "frame"
    return opt


def adversarial_cases(rng: random.Random):
    """Families aimed at the places a recount can go wrong."""
    out = []
    for engine in ("duckdb", "sqlite"):
        base = gen_case(rng, engine)
        # every column all-NULL: empty TF tables, completeness 0, every gamma on the null / else level
        c = json.loads(json.dumps(base))
        for t in c["tables"]:
            for r in t:
                r["a"] = r["b"] = r["c"] = None
        c["tag"] = "all_null"
        out.append(c)
        # one record only: no pair is scored
        c = json.loads(json.dumps(base))
        c["tables"] = [[{"unique_id": 1, "a": "ann", "b": None, "c": 2}]]
        c["link_type"] = "dedupe_only"
        c["tag"] = "single_record"
        out.append(c)
        # identical records: one comparison vector, one histogram bin (min = max), one unlinkables row
        c = json.loads(json.dumps(base))
        c["tables"] = [[{"unique_id": i, "a": "ann", "b": "bob", "c": 1} for i in range(5)]]
        c["link_type"] = "dedupe_only"
        c["thr"] = None
        c["tag"] = "identical_records"
        out.append(c)
        # probabilities rounding to 1.00000: the `match_probability < 1` filter of unlinkables
        c = json.loads(json.dumps(base))
        c["comparisons"] = [{"col": "a", "levels": [{"kind": "null"}, {"kind": "eq", "m": 0.999999, "u": 0.000001}, {"kind": "else", "m": 0.000001, "u": 0.999999}]}]
        c["prior"] = 0.9
        c["tag"] = "prob_rounds_to_one"
        out.append(c)
        # many bins / one bin
        for nb in (1, 100):
            c = json.loads(json.dumps(gen_case(rng, engine)))
            c["nbins"] = nb
            c["thr"] = None
            c["tag"] = f"nbins_{nb}"
            out.append(c)
        # ---- audit families
        # every self-match probability rounds to 1: the unlinkables listing is empty
        c = json.loads(json.dumps(base))
        c["tables"] = [[{"unique_id": i, "a": STR_DOM[i % 3], "b": STR_DOM[i % 2], "c": i % 2} for i in range(6)]]
        c.update(link_type="dedupe_only", prelude=None, session=None, preconcat=False, id_type="int", prior=0.9, tag="all_round_to_one",
                 comparisons=[{"col": col, "levels": [{"kind": "null"}, {"kind": "eq", "m": 0.999999, "u": 0.000001}, {"kind": "else", "m": 0.000001, "u": 0.999999}]} for col in COLS])
        out.append(c)
        # integer match weights (m/u powers of two, prior 0.5): weights exactly on bin edges for the widths 0.25, 0.5, 1, 2, 5; weight 0
        for nb in (1, 3, 10, 30):
            c = json.loads(json.dumps(gen_case(rng, engine)))
            c["comparisons"] = [gen_comparison(rng, cc["col"], dyadic=True) for cc in c["comparisons"]]
            c.update(prior=0.5, nbins=nb, thr=None, blocking=[], tag="integer_weights")
            out.append(c)
        # empty strings / blanks / case variants in every string column, negative and wide ints
        for _ in range(3):
            c = json.loads(json.dumps(gen_case(rng, engine)))
            if c.get("session") or c.get("id_type") == "str":
                continue
            for t in c["tables"]:
                for r in t:
                    for col in ("a", "b"):
                        r[col] = None if rng.random() < 0.2 else rng.choice(TRICKY_STR)
                    r["c"] = None if rng.random() < 0.2 else rng.choice(TRICKY_INT)
            c["tag"] = "tricky_values"
            out.append(c)
        # every sequence kind once per engine, over two tables handed over by name (or without aliases)
        for kind in SESSIONS:
            c = json.loads(json.dumps(gen_case(rng, engine)))
            while len(c["tables"]) != 2 or not all(c["tables"]):
                c = json.loads(json.dumps(gen_case(rng, engine)))
            other, _ = gen_tables(rng, 2, 6, c.get("id_type", "int"))
            c.update(session=kind, form="frame" if kind == "new_noalias" else "name", aliases=kind != "new_noalias", preconcat=False,
                     prelude=None if kind == "invalidate" else (other if kind == "new_noalias" else [other[0], c["tables"][1]]), tag="sequence_" + kind)
            if c.get("compl_cols"):
                c["compl_cols"] = [x for x in c["compl_cols"] if x != "source_dataset"] or None
            out.append(c)
        # the pre-concatenated layout with every link type that accepts it, and an empty table in each position
        for lt in ("link_only", "link_and_dedupe"):
            c = json.loads(json.dumps(gen_case(rng, engine)))
            while len(c["tables"]) < 2 or not all(c["tables"]) or c.get("session"):
                c = json.loads(json.dumps(gen_case(rng, engine)))
            c.update(link_type=lt, preconcat=True, tag="preconcatenated")
            out.append(c)
        for pos in (0, 1):
            c = json.loads(json.dumps(gen_case(rng, engine)))
            while len(c["tables"]) < 2 or c.get("session") or c.get("preconcat"):
                c = json.loads(json.dumps(gen_case(rng, engine)))
            c["tables"][pos] = []
            c["tag"] = "empty_table"
            out.append(c)
    return [sanitize(c) for c in out]


def sanitize(case):
    """Options that no longer fit a case whose tables were edited by hand are reset to their defaults."""
    k = len(case["tables"])
    pre = case.get("prelude")
    if pre is not None and (len(pre) != k or case.get("session") in (None, "invalidate")):
        case["prelude"] = pre = None
    if case.get("session") in ("rereg_same", "rereg_same_inv", "rereg_new") and (case.get("form") != "name" or pre is None):
        case["session"], case["prelude"] = None, None
    if case.get("session") == "new_noalias" and (case.get("form") == "name" or case.get("aliases", True) or pre is None):
        case["session"], case["prelude"] = None, None
    if case.get("preconcat") and (k < 2 or not all(case["tables"]) or (case.get("prelude") and not all(case["prelude"]))):
        case["preconcat"] = False
    if not case.get("preconcat") and case.get("compl_cols"):
        case["compl_cols"] = [c for c in case["compl_cols"] if c != "source_dataset"] or None
    if case.get("form") == "records" and not (records_form_ok(case["tables"]) and records_form_ok(case.get("prelude") or [[{"a": 0, "b": 0, "c": 0}]])):
        case["form"] = "frame"
    if case.get("form") == "records":
        case["bare_single"] = False
    tc = case.get("tfchart")
    if tc and not (tc["comp"] < len(case["comparisons"]) and any("tf" in l for l in case["comparisons"][tc["comp"]]["levels"])):
        case["tfchart"] = None  # the chart is only defined for a comparison with a TF adjusted level
    ids = [r["unique_id"] for t in case["tables"] + (case.get("prelude") or []) for r in t]
    case["id_type"] = "str" if any(isinstance(u, str) for u in ids) else "int"
    if case["id_type"] == "str" and not all(isinstance(u, str) for u in ids):
        for t in case["tables"] + (case.get("prelude") or []):
            for r in t:
                r["unique_id"] = str(r["unique_id"])
    return case


# --------------------------------------------------------------------------- settings / real code
def actual(case, col):
    """The name the input column `col` (canonical: unique_id, a, b, c, source_dataset) has in this case's tables."""
    return (case.get("colnames") or {}).get(col, col)


def q(name):
    return '"' + name + '"'


def level_sql(col, l, case=None):
    name = actual(case or {}, col)
    cl, cr = q(f"{name}_l"), q(f"{name}_r")
    k = l["kind"]
    if k == "null":
        return f"{cl} IS NULL OR {cr} IS NULL"
    if k == "eq":
        return f"{cl} = {cr}"
    if k == "lev":
        return f"levenshtein({cl}, {cr}) <= {l['k']}"
    return "ELSE"


def settings_dict(case):
    comps = []
    renamed = bool(case.get("colnames"))
    for ci, c in enumerate(case["comparisons"]):
        lv = []
        for l in c["levels"]:
            d = {"sql_condition": level_sql(c["col"], l, case), "label_for_charts": l["kind"] + str(l.get("k", ""))}
            if l["kind"] == "null":
                d["is_null_level"] = True
            else:
                d["m_probability"], d["u_probability"] = l["m"], l["u"]
            if "tf" in l:
                d["tf_adjustment_column"] = actual(case, c["col"])
                d["tf_adjustment_weight"] = l["tf"]["weight"]
                d["tf_minimum_u_value"] = l["tf"]["minU"]
            lv.append(d)
        comps.append({"output_column_name": f"{c['col']}{ci}", "comparison_levels": lv})
    col_sql = (lambda c: q(actual(case, c))) if renamed else (lambda c: c)
    out = {
        "link_type": case["link_type"], "comparisons": comps,
        "blocking_rules_to_generate_predictions": [" AND ".join(f"l.{col_sql(c)} = r.{col_sql(c)}" for c in rule) for rule in case["blocking"]],
        "probability_two_random_records_match": case["prior"], "retain_matching_columns": True,
        "retain_intermediate_calculation_columns": True,  # without them predict() carries no gamma columns: no comparison vectors to count
    }
    if actual(case, "unique_id") != "unique_id":
        out["unique_id_column_name"] = actual(case, "unique_id")
    if actual(case, "source_dataset") != "source_dataset":
        out["source_dataset_column_name"] = actual(case, "source_dataset")
    return out


def types_of(case):
    t = dict(TYPES)
    if case.get("id_type") == "str":
        t["unique_id"] = "str"
    return t


def layout(case, tables=None):
    """[(rows, column order, types)] of the tables as handed over: shuffled rows; one table with its own source dataset column for the
    pre-concatenated layout; later tables may list the same columns in another order."""
    tables = case["tables"] if tables is None else tables
    ty = types_of(case)
    rng = random.Random(case.get("shuffle", 0))
    groups = []
    for rows in tables:
        rows = list(rows)
        rng.shuffle(rows)
        groups.append(rows)
    if case.get("preconcat"):
        allrows = [dict(r, source_dataset=ALIASES[ti]) for ti, rows in enumerate(groups) for r in rows]
        rng.shuffle(allrows)
        groups = [allrows]
        ty = dict(ty, source_dataset="str")
    out = []
    for gi, rows in enumerate(groups):
        cols = list(ty)
        if case.get("colperm") and (gi > 0 or case.get("preconcat")):
            random.Random(case.get("shuffle", 0) + gi).shuffle(cols)
        out.append((rows, cols, ty))
    return out


def frames(case, tables=None):
    from harness import impl

    out = []
    for rows, cols, ty in layout(case, tables):
        df = impl.typed_frame([{k: r[k] for k in ty} for r in rows], ty)
        out.append(df[cols].rename(columns={c: actual(case, c) for c in cols}))
    return out


def input_data(case, tables=None):
    """Typed frames, or lists of plain records (form 'records')."""
    if case.get("form") != "records":
        return frames(case, tables)
    return [[{actual(case, c): r[c] for c in cols} for r in rows] for rows, cols, _ in layout(case, tables)]


def n_inputs(case):
    return 1 if case.get("preconcat") else len(case["tables"])


def table_names(case):
    """Names under which the caller registers the tables (form 'name'): they differ from the aliases."""
    return [f"tbl_{a}" for a in ALIASES[: n_inputs(case)]]


def sd_names(case):
    """The value of the source dataset column for the records of each table."""
    k = len(case["tables"])
    if case.get("preconcat") or case.get("aliases", True):
        return ALIASES[:k]
    return [f"__splink__input_table_{i}" for i in range(k)]


def compl_names(case):
    return ALIASES[: n_inputs(case)] if case["compl_names"] else None


def compl_canon_cols(case):
    return list(TYPES) + (["source_dataset"] if case.get("preconcat") else [])


def getci(row, key):
    if key in row:
        return row[key]
    lk = key.lower()
    for k, v in row.items():
        if k.lower() == lk:
            return v
    raise KeyError(key)


def canon_row(case, row):
    """Output columns renamed to the canonical input names (unique_id, source_dataset, a, b, c with _l/_r/tf_ affixes)."""
    if not case.get("colnames"):
        return row
    m = {}
    for canon in ("unique_id", "source_dataset", "a", "b", "c"):
        act = actual(case, canon)
        for pre in ("", "tf_"):
            for suf in ("", "_l", "_r"):
                m[(pre + act + suf).lower()] = pre + canon + suf
    return {m.get(k.lower(), k): v for k, v in row.items()}


class _Session:
    """One database API with the caller's registrations (form 'name': tables registered by the caller under table_names)."""

    def __init__(self, case, engine):
        from harness import impl

        self.case = case
        self.api = impl.make_api(engine, threads=2)
        self.registered = False
        self.current = None
        self.compl_calls = 0
        self.settings = None  # ONE settings dict for every linker of the sequence (object reuse)

    def hand_over(self, tables=None, again=False):
        """What the caller passes as `table_or_tables`; form 'name' registers (or, `again`, registers anew with overwrite=True) first."""
        case = self.case
        data = input_data(case, tables)
        if case.get("form") != "name":
            return data
        names = table_names(case)
        if not self.registered or again:
            prev = self.current if again else None
            for i, (d, nme) in enumerate(zip(data, names)):
                if again and prev is not None and tables_equal(prev[i], d):
                    continue  # only the tables whose content changed are registered again
                self.api.register_table(d, nme, overwrite=again)
            self.registered = True
            self.current = data
        return names


def guarded(raised, call, public, internal):
    """A public chart function with its internal data function as the fallback: what it raises is recorded (and reported as a
    violation), the case goes on with the data function so that the remaining outputs are still examined."""
    try:
        return public()
    except Exception as e:  # noqa: BLE001
        raised.append({"call": call, "error": f"{type(e).__name__}({str(e)[:200]!r})"})
        return internal()


def tables_equal(a, b):
    return a.equals(b) if hasattr(a, "equals") else a == b


def norm(x):
    """Order-insensitive form of a record list (or of a dict of record lists) for comparing two answers to the same call."""
    if isinstance(x, dict):
        return {k: norm(v) for k, v in x.items()}
    if isinstance(x, list):
        return sorted(json.dumps(e, sort_keys=True, default=str) for e in x)
    return x


def completeness_records(case, sess, tables=None, again=False, raised=None):
    from splink.exploratory import completeness_chart
    from splink.internals.completeness import completeness_data

    handed = sess.hand_over(tables, again)
    cols = None if case["compl_cols"] is None else [actual(case, c) for c in case["compl_cols"]]
    if case.get("fail_first"):
        try:
            completeness_data(sess.api.register_multiple_tables(handed), sess.api, ["no_such_column"], compl_names(case))
        except Exception:  # noqa: BLE001  the failing call is the point
            pass
    def internal():
        if case.get("form", "frame") == "name":
            d = sess.api.register_multiple_tables(handed)
        else:
            d = sess.api.register_multiple_tables(handed, [f"in_{a}" for a in ALIASES[: len(handed)]], overwrite=sess.compl_calls > 0)
        sess.compl_calls += 1
        return completeness_data(d, sess.api, cols, compl_names(case))

    def public():
        arg = handed[0] if len(handed) == 1 and case.get("bare_single") else handed
        kw = {}
        if cols is not None:
            kw["cols"] = cols
        if compl_names(case) is not None:
            kw["table_names_for_chart"] = compl_names(case)
        chart = completeness_chart(arg, sess.api, **kw).to_dict()
        return list(chart["datasets"].values())[0] if chart.get("datasets") else chart["data"].get("values", [])

    if case.get("via") == "public":
        recs = guarded(raised if raised is not None else [], f"completeness_chart({'cols, ' if cols else ''}{'table_names_for_chart' if compl_names(case) else ''})", public, internal)
    else:
        recs = internal()
    back = {actual(case, c).lower(): c for c in compl_canon_cols(case)}
    return [dict(r, column_name=back.get(str(r["column_name"]).lower(), r["column_name"])) for r in recs]


def make_linker(case, sess, tables=None, again=False):
    from splink import Linker

    handed = sess.hand_over(tables, again)
    kw = {}
    bare = len(handed) == 1 and case.get("bare_single")
    if case.get("aliases", True):
        kw["input_table_aliases"] = ALIASES[0] if bare else ALIASES[: len(handed)]
    if sess.settings is None:
        sess.settings = settings_dict(case)
    return Linker(handed[0] if bare else handed, sess.settings, sess.api, **kw)


def describe(case, linker, api, final=True) -> dict:
    """Every descriptive output of one linker, in the case's order and through the case's entry points."""
    from splink.internals.comparison_vector_distribution import comparison_vector_distribution_sql
    from splink.internals.match_weights_histogram import histogram_data
    from splink.internals.pipeline import CTEPipeline
    from splink.internals.unlinkables import unlinkables_data
    from splink.internals.vertically_concatenate import compute_df_concat_with_tf

    out: dict = {}
    public = case.get("via") == "public"
    twice = bool(case.get("repeat"))
    differs = []
    raised: list = []

    def tf_tables():
        res = {}
        for col in COLS:
            name = actual(case, col)
            recs = linker.table_management.compute_tf_table(name).as_record_dict()
            res[col] = [[getci(r, name), getci(r, f"tf_{name}")] for r in recs]
        return res

    def unl():
        if public:
            x_col = case.get("x_col", "match_weight")
            kw = {} if x_col == "match_weight" else {"x_col": x_col}
            return guarded(raised, f"unlinkables_chart({'x_col=' + repr(x_col) if kw else ''})",
                           lambda: linker.evaluation.unlinkables_chart(as_dict=True, **kw)["data"]["values"], lambda: unlinkables_data(linker))
        return unlinkables_data(linker)

    def hist(pred):
        nb = case["nbins"]
        data = lambda: (histogram_data(linker, pred) if nb == 100 else histogram_data(linker, pred, nb)).as_record_dict()  # noqa: E731  default num_bins = 100
        if public:  # default target_bins = 30
            kw = {} if nb == 30 else {"target_bins": nb}
            recs = guarded(raised, f"match_weights_histogram({'target_bins' if kw else ''})",
                           lambda: linker.visualisations.match_weights_histogram(pred, as_dict=True, **kw)["data"]["values"], data)
        else:
            recs = data()
        return [{kk: float(v) if kk != "count_rows" else int(v) for kk, v in r.items()} for r in recs]

    def rep(name, f):
        a = f()
        if twice:
            b = f()
            if norm(a) != norm(b):
                differs.append(name)
            return b
        return a

    if case.get("fail_first"):
        try:
            linker.table_management.compute_tf_table("no_such_column")
        except Exception:  # noqa: BLE001
            pass
    if case["tf_first"]:
        out["tf"] = rep("tf tables", tf_tables)
    if case.get("unl_first"):
        out["unl"] = rep("unlinkables", unl)
    cw = [canon_row(case, r) for r in compute_df_concat_with_tf(linker, CTEPipeline()).as_record_dict()]
    out["concat"] = [{kk: v for kk, v in r.items() if kk in ("unique_id", "source_dataset", "a", "b", "c") or kk.startswith("tf_")} for r in cw]
    kw = {}
    if case["thr"] is not None:
        kw = {"threshold_match_weight" if case.get("thr_kind") == "weight" else "threshold_match_probability": case["thr"]}
    pred = linker.inference.predict(**kw)
    out["predict"] = [{kk: v for kk, v in r.items() if kk.startswith(("gamma_", "tf_", "match_", "unique_id", "source_dataset")) or kk[:-2] in COLS}
                      for r in (canon_row(case, r) for r in pred.as_record_dict())]
    if not case["tf_first"]:
        out["tf"] = rep("tf tables", tf_tables)
    # only in the last round of a sequence: a registered prediction table is, by design, what later predict() calls on this database API
    # return (until invalidate_cache), whatever happens to the input tables
    if final and case.get("pred_form") == "registered" and out["predict"]:  # (an empty SQLite result reads back as a frame without columns)
        linker._c20_regs = getattr(linker, "_c20_regs", 0) + 1
        pred = linker.table_management.register_table_predict(pred.as_pandas_dataframe(), overwrite=linker._c20_regs > 1)

    def cvd():
        pipeline = CTEPipeline([pred])
        pipeline.enqueue_sql(comparison_vector_distribution_sql(linker), "__splink__df_comparison_vector_distribution")
        return api.sql_pipeline_to_splink_dataframe(pipeline).as_record_dict()

    out["cvd"] = rep("comparison vector distribution", cvd)
    tc = case.get("tfchart")
    if public and tc and tc["comp"] < len(case["comparisons"]) and any(r[case["comparisons"][tc["comp"]]["col"]] is not None for t in case["tables"] for r in t):
        kw = {}
        if tc["n_most"] != "default":
            kw["n_most_freq"] = tc["n_most"]
        if tc["n_least"] != "default":
            kw["n_least_freq"] = tc["n_least"]
        if tc["include"] is not None:
            kw["vals_to_include"] = tc["include"]

        def tfchart():
            import warnings

            with warnings.catch_warnings():
                warnings.simplefilter("ignore")
                ch = linker.visualisations.tf_adjustment_chart(f"{case['comparisons'][tc['comp']]['col']}{tc['comp']}", as_dict=True, **kw)
            keep = ("value", "tf", "gamma", "u_probability", "tf_adjustment_weight", "log2_bf_tf", "most_freq_rank", "least_freq_rank")
            return {"data": [{k: (v.item() if hasattr(v, "item") else v) for k, v in row.items() if k in keep} for row in ch["datasets"]["data"]],
                    "hist_total": int(sum(row["count"] for row in ch["datasets"]["hist"]))}

        out["tfchart"] = guarded(raised, f"tf_adjustment_chart({', '.join(sorted(kw))})", tfchart, lambda: None)
    if out["predict"]:
        if case.get("fail_first"):
            try:
                linker.visualisations.match_weights_histogram(pred, target_bins=0, as_dict=True)
            except Exception:  # noqa: BLE001
                pass
        out["hist"] = rep("histogram", lambda: hist(pred))
    else:
        out["hist"] = None  # _bins(None, None, n) raises TypeError on an empty prediction table: no scored pairs, nothing to partition
    if not case.get("unl_first"):
        out["unl"] = rep("unlinkables", unl)
    out["self"] = [[r["match_weight"], r["match_probability"]] for r in linker._self_link().as_record_dict()]
    if differs:
        out["repeat_differs"] = differs
    if raised:
        out["raised"] = raised
    return out


def run_impl(case: dict) -> dict:
    out: dict = {}
    raised: list = []
    sess = _Session(case, case["engine"])
    session = case.get("session")
    pre = case.get("prelude")
    do_compl = case["engine"] == "duckdb"  # completeness_data emits parenthesised UNION ALL members: not SQLite syntax (the test-suite excludes sqlite too)
    csess = sess if case.get("api_shared") or not do_compl else _Session(case, "duckdb")
    # ---- first round of a sequence: other data under the same names, or the same data before invalidate_cache()
    if session:
        first = pre if pre is not None else case["tables"]
        if do_compl:
            completeness_records(case, csess, first)
        linker = make_linker(case, sess, first)
        describe(case, linker, sess.api, final=False)
        again = pre is not None
        if do_compl:
            out["compl"] = completeness_records(case, csess, None, again=again, raised=raised)
        if session in ("rereg_new", "new_noalias"):
            linker = make_linker(case, sess, None, again=again)
        else:
            if again:
                sess.hand_over(None, again=True)
            if session in ("invalidate", "rereg_same_inv"):
                linker.table_management.invalidate_cache()
        out.update(describe(case, linker, sess.api))
        if raised:
            out["raised"] = raised + out.get("raised", [])
        return out
    if do_compl:
        out["compl"] = completeness_records(case, csess, raised=raised)
        if case.get("repeat"):
            if norm(completeness_records(case, csess)) != norm(out["compl"]):
                out["repeat_differs"] = ["completeness"]
    linker = make_linker(case, sess)
    d = describe(case, linker, sess.api)
    if "repeat_differs" in out and "repeat_differs" in d:
        d["repeat_differs"] = out["repeat_differs"] + d["repeat_differs"]
    out.update(d)
    if raised:
        out["raised"] = raised + d.get("raised", [])
    return out


run_impl_safe = core.safe(run_impl)


# --------------------------------------------------------------------------- independent oracle
def records(case):
    out = []
    names = sd_names(case)
    for ti, rows in enumerate(case["tables"]):
        for r in rows:
            out.append(dict(r, source_dataset=names[ti], _t=ti))
    return out


def compl_groups(case):
    """The datasets as completeness sees them: one per table handed over (the pre-concatenated table is ONE dataset)."""
    if case.get("preconcat"):
        return [[dict(r, source_dataset=ALIASES[ti]) for ti, rows in enumerate(case["tables"]) for r in rows]]
    return case["tables"]


def gamma_of(c, x, y):
    nn = [l for l in c["levels"] if l["kind"] != "null"]
    for l in c["levels"]:
        k = l["kind"]
        if k == "null":
            hit = x is None or y is None
        elif k == "else":
            hit = True
        elif x is None or y is None:
            hit = False
        elif k == "eq":
            hit = x == y
        else:
            hit = lev(x, y) <= l["k"]
        if hit:
            return (-1 if k == "null" else len(nn) - 1 - nn.index(l)), l
    raise AssertionError


def scored_pairs(case):
    """Unordered admissible pairs that some blocking rule accepts (no rule = all admissible pairs)."""
    recs = records(case)
    out = []
    for i in range(len(recs)):
        for j in range(i + 1, len(recs)):
            x, y = recs[i], recs[j]
            if case["link_type"] == "link_only" and x["_t"] == y["_t"]:
                continue
            if case["blocking"] and not any(all(x[c] is not None and x[c] == y[c] for c in rule) for rule in case["blocking"]):
                continue
            out.append((x, y))
    return out


def tf_of(case, col):
    vals = [r[col] for r in records(case) if r[col] is not None]
    return {v: vals.count(v) / len(vals) for v in set(vals)}


def self_probability(case, rec):
    bf = case["prior"] / (1 - case["prior"])
    for c in case["comparisons"]:
        v = rec[c["col"]]
        g, l = gamma_of(c, v, v)
        if l["kind"] == "null":
            continue
        bf *= l["m"] / l["u"]
        if "tf" in l and v is not None and l["kind"] != "else":
            t = tf_of(case, c["col"])[v]
            bf *= (l["u"] / max(t, l["tf"]["minU"])) ** l["tf"]["weight"]
    return bf / (1 + bf), math.log2(bf)


def tol32(case):
    """Columns Splink casts to `float`: 32-bit in DuckDB (relative 2^-24 per operation), double in SQLite."""
    return 2e-7 if case["engine"] == "duckdb" else 1e-12


def rkey(case, r):
    return (r["source_dataset"], r["unique_id"]) if "source_dataset" in r else (sd_names(case)[0], r["unique_id"])


def knife(x, scale):
    y = x * scale
    return abs(y - math.floor(y) - 0.5) < 1e-4


def half_away(x, scale):
    y = x * scale
    return int(math.floor(abs(y) + 0.5)) * (1 if y >= 0 else -1)


def verdicts(case, r):
    """The property decided on the real output only, section by section (each section stops at its first failure): list of messages,
    empty = holds."""
    recs = records(case)
    n = len(recs)
    t32 = tol32(case)
    gcols = [f"gamma_{c['col']}{i}" for i, c in enumerate(case["comparisons"])]
    pv = [tuple(p[g] for g in gcols) for p in r["predict"]]
    npairs = len(pv)

    def sec_sequence():
        if r.get("repeat_differs"):
            return f"the same call made twice on one linker / one database API gave two different answers: {r['repeat_differs']}"
        return None

    def sec_tf():
        for col in COLS:
            want = tf_of(case, col)
            got = r["tf"][col]
            if len({v for v, _ in got}) != len(got):
                return f"tf table of {col} lists a value twice: {got}"
            if {v for v, _ in got} != set(want):
                return f"tf table of {col} lists values {sorted(map(str, (v for v, _ in got)))} but the non-null values are {sorted(map(str, want))}"
            for v, t in got:
                if not core.close(t, want[v], 1e-12):
                    return f"tf_{col}({v}) = {t} but its relative frequency among non-null values is {want[v]}"
            if got and not core.close(sum(t for _, t in got), 1.0, 1e-9):
                return f"tf table of {col} sums to {sum(t for _, t in got)}"
        return None

    def sec_scoring():
        tfcols = sorted({c["col"] for c in case["comparisons"] if any("tf" in l for l in c["levels"])})
        if len(r["concat"]) != n or sorted(map(str, (rkey(case, x) for x in r["concat"]))) != sorted(str((x["source_dataset"], x["unique_id"])) for x in recs):
            return f"__splink__df_concat_with_tf has {len(r['concat'])} rows for {n} input records (the TF join must neither drop nor duplicate records)"
        for x in r["concat"]:
            for col in tfcols:
                w = None if x[col] is None else tf_of(case, col).get(x[col], float("nan"))  # nan: a value the data do not have
                if not core.close(x.get(f"tf_{col}"), w, 1e-12):
                    return f"record {rkey(case, x)} carries tf_{col} = {x.get(f'tf_{col}')} for value {x[col]!r}; the TF table says {w}"
        for p in r["predict"]:
            for col in tfcols:
                for side in ("l", "r"):
                    v = p.get(f"{col}_{side}")
                    w = None if v is None else tf_of(case, col).get(v, float("nan"))
                    if f"tf_{col}_{side}" not in p or not core.close(p[f"tf_{col}_{side}"], w, 1e-12):
                        return f"scored pair uses tf_{col}_{side} = {p.get(f'tf_{col}_{side}')} for value {v!r}; the TF table says {w}"
        return None

    def sec_completeness():
        if "compl" in r:
            cols = case["compl_cols"] or compl_canon_cols(case)
            names = compl_names(case) or [f"input_data_{i + 1}" for i in range(n_inputs(case))]
            want = {}
            for ti, rows in enumerate(compl_groups(case)):
                for col in cols:
                    nn = sum(1 for x in rows if x[col] is not None)
                    if rows:  # an empty table has no group: no row, no share
                        want[(names[ti], col)] = (len(rows) - nn, len(rows), nn / len(rows))
            got = {}
            if r["compl"] and all(x["source_dataset"] is None for x in r["compl"]):
                return f"completeness rows do not name their dataset (source_dataset is NULL in all {len(r['compl'])} rows); the datasets are {names}"
            for x in r["compl"]:
                key = (x["source_dataset"], x["column_name"])
                if key in got:
                    return f"completeness lists {key} twice"
                got[key] = (x["total_null_rows"], x["total_rows_inc_nulls"], x["completeness"])
            if set(got) != set(want):
                return f"completeness rows {sorted(map(str, got))} but the (dataset, column) pairs are {sorted(map(str, want))}"
            for key, (nul, tot, comp) in want.items():
                g = got[key]
                if g[0] != nul or g[1] != tot or not core.close(g[2], comp, t32, t32):
                    return f"completeness of {key}: (nulls, rows, completeness) = {g} but a recount gives {(nul, tot, comp)}"
        return None

    def sec_cvd():
        if case["thr"] is None or (case["thr"] == 0 and case.get("thr_kind", "prob") == "prob"):  # a probability threshold of 0 keeps every pair
            sp = scored_pairs(case)
            if npairs != len(sp):
                return f"predict scored {npairs} pairs; the blocking rules and link type admit {len(sp)}"
            indep = sorted(tuple(gamma_of(c, x[c["col"]], y[c["col"]])[0] for c in case["comparisons"]) for x, y in sp)
            if indep != sorted(pv):
                return "gamma vectors of the scored pairs differ from an independent evaluation of the levels"
        seen = set()
        tot, totp = 0, 0.0
        last = None
        for x in r["cvd"]:
            g = tuple(x[c] for c in gcols)
            if g in seen:
                return f"comparison vector {g} listed twice"
            seen.add(g)
            cnt = x["count_rows_in_comparison_vector_group"]
            if cnt != pv.count(g) or cnt == 0:
                return f"comparison vector {g}: count {cnt} but {pv.count(g)} scored pairs have it"
            if not core.close(x["proportion_of_comparisons"], cnt / npairs, t32, t32):
                return f"comparison vector {g}: proportion {x['proportion_of_comparisons']} but {cnt}/{npairs}"
            sg = sum(0 if v == -1 else (-1 if v == 0 else v) for v in g)
            if x["sum_gam"] != sg or str(x["gam_concat"]) != ",".join(str(v) for v in g):  # one comparison: gam_concat is the integer column itself
                return f"comparison vector {g}: sum_gam/gam_concat {x['sum_gam']}/{x['gam_concat']}"
            if last is not None and sg < last:
                return "comparison vector distribution is not ordered by sum_gam"
            last = sg
            tot += cnt
            totp += x["proportion_of_comparisons"]
        if tot != npairs or seen != set(pv):
            return f"comparison-vector counts add up to {tot} for {npairs} scored pairs"
        if npairs and abs(totp - 1.0) > max(1e-9, t32 * len(seen)):
            return f"comparison-vector proportions add up to {totp}"
        return None

    def sec_histogram():
        ws = [p["match_weight"] for p in r["predict"]]
        if r["hist"] is not None:
            bws = {x["binwidth"] for x in r["hist"]}
            if len(bws) != 1:
                return f"histogram rows carry different bin widths {bws}"
            bw = bws.pop()
            rough = (max(ws) - min(ws)) / case["nbins"]
            if bw not in BIN_WIDTHS or any(abs(b - rough) < abs(bw - rough) - 1e-12 for b in BIN_WIDTHS):
                return f"bin width {bw} is not the listed width closest to (max-min)/num_bins = {rough}"
            if sum(x["count_rows"] for x in r["hist"]) != npairs:
                return f"histogram counts add up to {sum(x['count_rows'] for x in r['hist'])} for {npairs} scored pairs"
            lows = [x["splink_score_bin_low"] for x in r["hist"]]
            if any(b <= a for a, b in zip(lows, lows[1:])):
                return "histogram bins are not strictly ascending (a bin is listed twice or out of order)"
            for x in r["hist"]:
                lo = x["splink_score_bin_low"]
                kq = lo / bw
                if abs(kq - round(kq)) > 1e-6:
                    return f"bin low {lo} is not a multiple of the width {bw}"
                if not core.close(x["splink_score_bin_high"], lo + bw, 1e-6, 1e-7):
                    return f"bin [{lo}, {x['splink_score_bin_high']}) is not {bw} wide"
                eps = 1e-9 * max(1.0, abs(lo))
                strict = sum(1 for w in ws if lo + eps <= w < lo + bw - eps)
                loose = sum(1 for w in ws if lo - eps <= w < lo + bw + eps)
                if not (strict <= x["count_rows"] <= loose) or x["count_rows"] == 0:
                    return f"bin [{lo}, {lo + bw}) reports {x['count_rows']} pairs; between {strict} and {loose} scored pairs have their weight in it"
        return None

    def sec_unlinkables():
        sp_ = sorted(p for _, p in r["self"])
        if len(sp_) != n:
            return f"self-link scores {len(sp_)} rows for {n} records"
        indep = sorted(self_probability(case, x)[0] for x in recs)
        if any(not core.close(a, b, 1e-9) for a, b in zip(sp_, indep)):
            return f"self-match probabilities {sp_} differ from the Fellegi-Sunter value of each record compared with itself {indep}"
        if not any(knife(p, 1e5) for p in sp_):
            rounded = [half_away(p, 1e5) for p in sp_]
            listed = sorted({q for q in rounded if q < 100000})
            got = r["unl"]
            gl = [x["match_probability"] for x in got]
            if len(gl) != len(listed) or any(not core.close(a, b / 1e5, 1e-9) for a, b in zip(gl, listed)):
                return f"unlinkables lists probabilities {gl}; the rounded self-match probabilities below 1 are {[q / 1e5 for q in listed]}"
            tcum = 1e-6 if case["engine"] == "duckdb" else 1e-12
            for x, q in zip(got, listed):
                share = sum(1 for v in rounded if v <= q) / n
                own = sum(1 for v in rounded if v == q) / n
                if not core.close(x["cum_prop"], share, tcum, tcum):
                    return f"unlinkables at p = {q / 1e5}: cum_prop {x['cum_prop']} but {share} of the records score at or below it"
                if not core.close(x["prop"], own, t32, t32):
                    return f"unlinkables at p = {q / 1e5}: prop {x['prop']} but {own} of the records score exactly it"
                grp = [w for w, p in r["self"] if half_away(p, 1e5) == q]
                if not any(knife(w, 1e2) for w in grp) and not core.close(x["match_weight"], max(half_away(w, 1e2) for w in grp) / 100, 1e-9):
                    return f"unlinkables at p = {q / 1e5}: match_weight {x['match_weight']} but the largest rounded weight of the group is {max(half_away(w, 1e2) for w in grp) / 100}"
        return None

    def sec_tfchart():
        ch = r.get("tfchart")
        if not ch:
            return None
        tc = case["tfchart"]
        comp = case["comparisons"][tc["comp"]]
        want = tf_of(case, comp["col"])
        nn = [l for l in comp["levels"] if l["kind"] != "null"]
        lvl = next(l for l in nn if "tf" in l)
        gam = len(nn) - 1 - nn.index(lvl)
        rows = ch["data"]
        big = len(want)
        vals = [x["value"] for x in rows]
        if len(set(vals)) != len(vals) or any(x["gamma"] != gam for x in rows):
            return f"tf_adjustment_chart lists a value twice or under another level than {gam}: {[(x['value'], x['gamma']) for x in rows]}"
        for x in rows:
            if x["value"] not in want or not core.close(x["tf"], want[x["value"]], 1e-12):
                return f"tf_adjustment_chart shows tf = {x['tf']} for {x['value']!r}; its relative frequency among non-null values is {want.get(x['value'])}"
            if x["most_freq_rank"] + x["least_freq_rank"] != big - 1:
                return f"tf_adjustment_chart ranks {x['value']!r} {x['most_freq_rank']} from the top and {x['least_freq_rank']} from the bottom among {big} values"
            if lvl["tf"]["minU"] <= x["tf"] and not core.close(x["log2_bf_tf"], math.log2(lvl["u"] / x["tf"]) * lvl["tf"]["weight"], 1e-9, 1e-9):
                return f"tf_adjustment_chart shows log2_bf_tf = {x['log2_bf_tf']} for {x['value']!r} (tf {x['tf']}, u {lvl['u']}, weight {lvl['tf']['weight']})"
        n_most = 10 if tc["n_most"] == "default" else tc["n_most"]
        n_least = 10 if tc["n_least"] == "default" else tc["n_least"]
        asked = [v for v in (tc["include"] or []) if v in want]
        if any(v not in vals for v in asked):
            return f"tf_adjustment_chart omits the values asked for {asked}: {vals}"
        if n_most is None or n_least is None:  # documented: all values are shown
            if len(rows) != big:
                return f"tf_adjustment_chart shows {len(rows)} of the {big} values although all were asked for (n_most_freq / n_least_freq None)"
        else:
            by_rank = [x for x in rows if x["most_freq_rank"] < n_most or x["least_freq_rank"] < n_least]
            extra = [x["value"] for x in rows if x not in by_rank]
            if len(by_rank) != min(big, n_most + n_least) or any(v not in asked for v in extra):
                return f"tf_adjustment_chart shows {len(by_rank)} values by rank (+ {extra}) for n_most_freq = {n_most}, n_least_freq = {n_least}, {big} values, asked for {asked}"
            tfs = sorted(want.values())
            top = sorted(x["tf"] for x in rows if x["most_freq_rank"] < n_most)
            low = sorted(x["tf"] for x in rows if x["least_freq_rank"] < n_least)
            # the chart ranks by the TF adjustment: with an adjustment weight of 0 every value ties and the ranks say nothing about frequency
            if lvl["tf"]["weight"] > 0 and (any(not core.close(a, b, 1e-12) for a, b in zip(top, tfs[-n_most:])) or any(not core.close(a, b, 1e-12) for a, b in zip(low, tfs[:n_least]))):
                return f"tf_adjustment_chart: the {n_most} most / {n_least} least frequent values shown have tf {top} / {low}; the term frequencies are {tfs}"
        if ch["hist_total"] > big:
            return f"tf_adjustment_chart histogram counts {ch['hist_total']} values; the column has {big}"
        return None

    out = [("raised", f"real code raised {e['error']} in {e['call']}") for e in r.get("raised") or []]
    for f in (sec_sequence, sec_tf, sec_scoring, sec_tfchart, sec_completeness, sec_cvd, sec_histogram, sec_unlinkables):
        m = f()
        if m is not None:
            out.append((f.__name__[4:], m))
    return out


def verdict(case, r):
    """The first failure (None = the property holds on this output)."""
    v = verdicts(case, r)
    return v[0][1] if v else None


# --------------------------------------------------------------------------- model
def model_request(case, r):
    recs = records(case)
    codes = {c: {} for c in ["unique_id"] + COLS}

    def code(c, v):
        return None if v is None else codes[c].setdefault(v, len(codes[c]))

    allc = compl_canon_cols(case)
    codes.setdefault("source_dataset", {})
    cols = [[code(c, x[c] if c != "source_dataset" else ALIASES[x["_t"]]) for x in recs] for c in allc]
    gcols = [f"gamma_{c['col']}{i}" for i, c in enumerate(case["comparisons"])]
    req = {
        "op": "descriptive", "sd": [0 if case.get("preconcat") else x["_t"] for x in recs], "cols": cols, "tfcols": [1, 2, 3],
        "gammas": [[int(p[g]) for g in gcols] for p in r["predict"]], "ngam": len(gcols),
        "weights": [core.f2b(p["match_weight"]) for p in r["predict"]], "nbins": case["nbins"],
        "self": [[core.f2b(w), core.f2b(p)] for w, p in r["self"]],
    }
    return req, codes


def compare_model(case, r, m, codes, skip=()):
    """None, or how the real output differs from the Lean model (`skip`: sections the oracle has already rejected on the real output)."""
    recs = records(case)
    t32 = tol32(case)
    for ci, col in enumerate(COLS if "tf" not in skip else []):
        inv = {v: k for k, v in codes[col].items()}
        mt = {inv[v]: num / den for v, num, den in m["tf"][ci]}
        rt = {v: t for v, t in r["tf"][col]}
        if set(mt) != set(rt) or any(not core.close(mt[v], rt[v], 1e-12) for v in mt):
            return f"tf table {col}: impl {rt} model {mt}"
    tfcols = sorted({c["col"] for c in case["comparisons"] if any("tf" in l for l in c["levels"])}) if "scoring" not in skip and "tf" not in skip else []
    by = {rkey(case, x): x for x in r["concat"]}
    for col in tfcols:
        mj = m["tfjoin"][COLS.index(col)]
        if len(mj) != len(recs) or len(r["concat"]) != len(recs):
            return f"tf join {col}: impl {len(r['concat'])} rows, model {len(mj)} rows, {len(recs)} records"
        for x, e in zip(recs, mj):
            got = by[(x["source_dataset"], x["unique_id"])].get(f"tf_{col}")
            if not core.close(got, None if e is None else e[0] / e[1], 1e-12):
                return f"tf join {col} record {x['source_dataset'], x['unique_id']}: impl {got} model {e}"
    if "compl" in r and "completeness" not in skip:
        allc = compl_canon_cols(case)
        names = compl_names(case) or [f"input_data_{i + 1}" for i in range(n_inputs(case))]
        mm = {}
        for col in case["compl_cols"] or allc:
            for sd, nul, tot, nn in m["compl"][allc.index(col)]:
                mm[(names[sd], col)] = (nul, tot, nn / tot)
        rr = {(x["source_dataset"], x["column_name"]): (x["total_null_rows"], x["total_rows_inc_nulls"], x["completeness"]) for x in r["compl"]}
        if set(mm) != set(rr) or len(rr) != len(r["compl"]) or any(mm[k][:2] != tuple(rr[k][:2]) or not core.close(mm[k][2], rr[k][2], t32, t32) for k in mm):
            return f"completeness: impl {rr} model {mm}"
    gcols = [f"gamma_{c['col']}{i}" for i, c in enumerate(case["comparisons"])]
    mc = {tuple(g): (sg, cnt, cnt / tot) for g, sg, cnt, tot in m["cvd"]}
    rc = {tuple(x[c] for c in gcols): (x["sum_gam"], x["count_rows_in_comparison_vector_group"], x["proportion_of_comparisons"]) for x in r["cvd"]}
    if "cvd" not in skip and (set(mc) != set(rc) or len(rc) != len(r["cvd"]) or any(mc[k][:2] != tuple(rc[k][:2]) or not core.close(mc[k][2], rc[k][2], t32, t32) for k in mc)):
        return f"comparison vector distribution: impl {rc} model {mc}"
    if "histogram" in skip:
        pass
    elif (r["hist"] is None) != (m["hist"] is None):
        return f"histogram: impl {r['hist']} model {m['hist']}"
    elif r["hist"] is not None:
        bw = core.b2f(m["hist"]["bw"])
        if any(x["binwidth"] != bw for x in r["hist"]):
            return f"histogram bin width: impl {[x['binwidth'] for x in r['hist']]} model {bw}"
        mb = sorted((core.b2f(k), cnt) for k, cnt in m["hist"]["bins"])
        rb = sorted((x["splink_score_bin_low"], x["count_rows"]) for x in r["hist"])
        if len(mb) != len(rb) or any(not core.close(a[0], b[0], 1e-12) or a[1] != b[1] for a, b in zip(mb, rb)):
            return f"histogram bins: impl {rb} model {mb}"
    if "unlinkables" not in skip and not any(knife(p, 1e5) for _, p in r["self"]) and not any(knife(w, 1e2) for w, _ in r["self"]):
        mu = sorted((p, w, cnt, cum, tot) for w, p, cnt, cum, tot in m["unl"])
        ru = sorted(r["unl"], key=lambda x: x["match_probability"])
        tcum = 1e-6 if case["engine"] == "duckdb" else 1e-12
        if len(mu) != len(ru) or any(
            not core.close(x["match_probability"], p / 1e5, 1e-9) or not core.close(x["match_weight"], w / 100, 1e-9, 1e-9)
            or not core.close(x["prop"], cnt / tot, t32, t32) or not core.close(x["cum_prop"], cum / tot, tcum, tcum)
            for x, (p, w, cnt, cum, tot) in zip(ru, mu)
        ):
            return f"unlinkables: impl {ru} model {mu}"
    return None


# --------------------------------------------------------------------------- exhaustive small domain
def wide_case(engine, split):
    """All 27 columns of length 3 over {NULL, x, y} as 27 columns of one 3-row dataset (split over 1 or 2 tables)."""
    import itertools

    cols = list(itertools.product([None, "x", "y"], repeat=3))
    rows = [dict({"unique_id": i}, **{f"c{j}": col[i] for j, col in enumerate(cols)}) for i in range(3)]
    tables = [rows] if split == 0 else [rows[:split], rows[split:]]
    return {"engine": engine, "tables": tables, "ncols": len(cols), "tag": "wide"}


def run_wide(case):
    from splink import Linker
    from splink.internals.completeness import completeness_data

    from harness import impl

    types = dict({"unique_id": "int"}, **{f"c{j}": "str" for j in range(case["ncols"])})
    k = len(case["tables"])
    dfs = lambda: [impl.typed_frame(t, types) for t in case["tables"]]  # noqa: E731
    out = {}
    if case["engine"] == "duckdb":
        api = impl.make_api("duckdb", threads=2)
        d = api.register_multiple_tables(dfs(), [f"in_{a}" for a in ALIASES[:k]])
        out["compl"] = [dict(r) for r in completeness_data(d, api, None, ALIASES[:k])]
    api = impl.make_api(case["engine"], threads=2)
    settings = {"link_type": "dedupe_only" if k == 1 else "link_and_dedupe", "blocking_rules_to_generate_predictions": [],
                "comparisons": [{"output_column_name": "c0", "comparison_levels": [
                    {"sql_condition": '"c0_l" IS NULL OR "c0_r" IS NULL', "is_null_level": True, "label_for_charts": "null"},
                    {"sql_condition": '"c0_l" = "c0_r"', "m_probability": 0.9, "u_probability": 0.1, "label_for_charts": "eq"},
                    {"sql_condition": "ELSE", "m_probability": 0.1, "u_probability": 0.9, "label_for_charts": "else"}]}]}
    linker = Linker(dfs(), settings, api, input_table_aliases=ALIASES[:k])
    out["tf"] = {}
    for j in range(case["ncols"]):
        recs = linker.table_management.compute_tf_table(f"c{j}").as_record_dict()
        out["tf"][f"c{j}"] = [[r[f"c{j}"], r[f"tf_c{j}"]] for r in recs]
    return out


run_wide_safe = core.safe(run_wide)


def check_wide(ctx, drv):
    cases = [wide_case(e, s) for e in ("duckdb", "sqlite") for s in (0, 1, 2)]
    res = core.pmap(run_wide_safe, cases)
    problems = []
    for c, r in zip(cases, res):
        recs = [dict(x, _t=ti) for ti, t in enumerate(c["tables"]) for x in t]
        names = [f"c{j}" for j in range(c["ncols"])]
        code = {None: None, "x": 0, "y": 1}
        req = {"op": "descriptive", "sd": [x["_t"] for x in recs], "cols": [[code[x[nm]] for x in recs] for nm in names],
               "tfcols": list(range(c["ncols"])), "gammas": [], "weights": [], "nbins": 1, "self": []}
        m = drv.batch([req])[0]
        if "error" in m:
            raise core.HarnessError("model driver error: " + m["error"])
        ctx.case({"wide": c["engine"], "tables": [len(t) for t in c["tables"]]}, True)
        ctx.count("family", "exhaustive_columns_len3")
        if core.impl_error(r):
            problems.append((c, f"real code raised {r['__error__']}: {r['text'][:300]}", True))
            continue
        bad = None
        for j, nm in enumerate(names):
            vals = [x[nm] for x in recs if x[nm] is not None]
            want = {v: vals.count(v) / len(vals) for v in set(vals)}
            got = {v: t for v, t in r["tf"][nm]}
            if len(got) != len(r["tf"][nm]) or set(got) != set(want) or any(not core.close(got[v], want[v], 1e-12) for v in want):
                problems.append((c, f"tf table of column {[x[nm] for x in recs]}: {r['tf'][nm]} but the relative frequencies are {want}", True))
                bad = True
                break
            mt = {("x", "y")[v]: num / den for v, num, den in m["tf"][j]}
            if set(mt) != set(got) or any(not core.close(mt[v], got[v], 1e-12) for v in mt):
                problems.append((c, f"tf table of column {[x[nm] for x in recs]}: impl {got} model {mt}", False))
                bad = True
                break
        if bad:
            continue
        if "compl" in r:
            got = {(x["source_dataset"], x["column_name"]): (x["total_null_rows"], x["total_rows_inc_nulls"], x["completeness"]) for x in r["compl"]}
            want, mm = {}, {}
            for ti, t in enumerate(c["tables"]):
                for nm in ["unique_id"] + names:
                    nn = sum(1 for x in t if x[nm] is not None)
                    want[(ALIASES[ti], nm)] = (len(t) - nn, len(t), nn / len(t))
            for j, nm in enumerate(names):
                for sd, nul, tot, nn in m["compl"][j]:
                    mm[(ALIASES[sd], nm)] = (nul, tot, nn / tot)
            if len(got) != len(r["compl"]) or set(got) != set(want) or any(got[k][:2] != want[k][:2] or not core.close(got[k][2], want[k][2], 2e-7, 2e-7) for k in want):
                problems.append((c, f"completeness (exhaustive columns) differs from a recount: {[(k, got.get(k), want[k]) for k in want if got.get(k) != want[k]][:3]}", True))
                continue
            if any(got[k][:2] != mm[k][:2] or not core.close(got[k][2], mm[k][2], 2e-7, 2e-7) for k in mm):
                problems.append((c, "completeness (exhaustive columns): impl differs from model", False))
                continue
        ctx.traces_validated += 1
    return problems


# --------------------------------------------------------------------------- completeness of extracts (no row identifier, repeated rows)
def extract_case(rng, k):
    """k tables WITHOUT any identifying column whose rows repeat in full (extracts of names): completeness counts ROWS, so repeated rows
    count as often as they occur."""
    dom_a, dom_b = ["ann", "bob", None], ["x", None, None]
    tables = []
    for _ in range(k):
        base = [{"a": rng.choice(dom_a), "b": rng.choice(dom_b)} for _ in range(rng.randint(1, 3))]
        tables.append([dict(rng.choice(base)) for _ in range(rng.randint(2, 9))])
    return {"engine": "duckdb", "tables": tables, "via": rng.choice(["public", "internal"]), "names": rng.random() < 0.5, "tag": "extracts"}


def run_extract(case):
    from splink.exploratory import completeness_chart
    from splink.internals.completeness import completeness_data

    from harness import impl

    k = len(case["tables"])
    api = impl.make_api("duckdb", threads=2)
    dfs = [impl.typed_frame(t, {"a": "str", "b": "str"}) for t in case["tables"]]
    names = ALIASES[:k] if case["names"] else None
    if case["via"] == "public":
        chart = completeness_chart(dfs if k > 1 else dfs[0], api, **({"table_names_for_chart": names} if names else {})).to_dict()
        recs = list(chart["datasets"].values())[0] if chart.get("datasets") else chart["data"].get("values", [])
    else:
        recs = completeness_data(api.register_multiple_tables(dfs), api, None, names)
    return {"compl": [dict(r) for r in recs]}


run_extract_safe = core.safe(run_extract)


def check_extracts(ctx):
    rng = ctx.rng
    cases = [extract_case(rng, k) for k in (1, 2, 2, 3) for _ in range(ctx.budget(4, 30))]
    problems = []
    for c, r in zip(cases, core.pmap(run_extract_safe, cases)):
        ctx.case({"extracts": [len(t) for t in c["tables"]], "via": c["via"]}, True)
        ctx.count("family", "extracts_without_row_id")
        ctx.count("extracts_tables", len(c["tables"]))
        ctx.count("extracts_rows_repeated_in_full", any(len({json.dumps(x, sort_keys=True) for x in t}) < len(t) for t in c["tables"]))
        if core.impl_error(r):
            problems.append((c, f"real code raised {r['__error__']}: {r['text'][:300]}", True))
            continue
        by_ds: dict = {}
        for x in r["compl"]:
            by_ds.setdefault(x["source_dataset"], {})[x["column_name"]] = (x["total_null_rows"], x["total_rows_inc_nulls"], x["completeness"])
        want = []
        for t in c["tables"]:
            want.append({nm: (sum(1 for x in t if x[nm] is None), len(t), sum(1 for x in t if x[nm] is not None) / len(t)) for nm in ("a", "b")})
        # the datasets carry the given names, or names of Splink's choosing: compare as a multiset of per-dataset figures
        if c["names"]:
            got = [by_ds.get(nm) for nm in ALIASES[: len(c["tables"])]]
        else:
            got = sorted(by_ds.values(), key=lambda d: json.dumps(d, sort_keys=True, default=str))
            want = sorted(want, key=lambda d: json.dumps(d, sort_keys=True, default=str))
        ok = len(got) == len(want) and all(g is not None and set(g) == set(w) and all(g[nm][:2] == w[nm][:2] and core.close(g[nm][2], w[nm][2], 2e-7, 2e-7) for nm in w)
                                           for g, w in zip(got, want))
        if not ok:
            problems.append((c, f"completeness of extracts without a row identifier differs from a recount of the rows: got {got} expected (nulls, rows, completeness) {want}", True))
            continue
        ctx.traces_validated += 1
    return problems


# --------------------------------------------------------------------------- profile_columns (audit: oracle only, no Lean model)
PROFILE_EXPRS = [None, None, ["a"], ["c", "a"], ["b", "unique_id"], [["a", "b"]], ["lower:a"], ["a", ["b", "c"]]]


def gen_profile_case(rng: random.Random, engine: str):
    """splink.exploratory.profile_columns (anchored file profile_data.py): per column expression the value counts, the distribution
    of value counts with cumulative shares, and the top / bottom n values."""
    k = rng.choice([1, 1, 2, 3])
    tables, profile = gen_tables(rng, k, rng.choice([4, 8, 12]), "str" if rng.random() < 0.2 else "int")
    exprs = rng.choice(PROFILE_EXPRS)
    if engine == "sqlite" and exprs and any(isinstance(e, list) for e in exprs):
        exprs = [e for e in exprs if not isinstance(e, list)] or None  # SQLite < 3.44 has no concat()
    case = {"engine": engine, "tables": tables, "profile": profile, "exprs": exprs, "top_n": rng.choice([None, None, 1, 2, 3, 10]),
            "bottom_n": rng.choice([None, None, 1, 2, 5]), "form": rng.choice(["frame", "frame", "name"]), "bare_single": rng.random() < 0.5,
            "colperm": rng.random() < 0.3, "shuffle": rng.randrange(1 << 30), "sequence": rng.choice([None, None, None, "twice", "rereg"]), "tag": "profile"}
    case["id_type"] = "str" if any(isinstance(r["unique_id"], str) for t in tables for r in t) else "int"
    if case["sequence"] == "rereg":
        case["form"] = "name"
        case["prelude"], _ = gen_tables(rng, k, 6, case["id_type"])
    return case


def run_profile(case):
    from splink.exploratory import profile_columns
    from splink.internals.column_expression import ColumnExpression

    sess = _Session(case, case["engine"])

    def exprs():
        if case["exprs"] is None:
            return None
        return [ColumnExpression(e[6:]).lower() if isinstance(e, str) and e.startswith("lower:") else e for e in case["exprs"]]

    def call(tables, again):
        handed = sess.hand_over(tables, again)
        arg = handed[0] if len(handed) == 1 and case["bare_single"] else handed
        kw = {}
        if exprs() is not None:
            kw["column_expressions"] = exprs()
        if case["top_n"] is not None:
            kw["top_n"] = case["top_n"]
        if case["bottom_n"] is not None:
            kw["bottom_n"] = case["bottom_n"]
        chart = profile_columns(arg, sess.api, **kw)
        if chart is None:
            return []
        return [[h["data"]["values"] for h in inner["hconcat"]] for inner in chart.to_dict()["vconcat"]]

    if case["sequence"] == "rereg":
        call(case["prelude"], False)
        return {"charts": call(None, True)}
    first = call(None, False)
    if case["sequence"] == "twice":
        return {"charts": call(None, False), "first": first}  # both answers are recounted (ties among the top / bottom values may be broken differently)
    return {"charts": first}


run_profile_safe = core.safe(run_profile)


def group_name(expr_sql):
    import re

    return re.sub(r"\s+", "_", re.sub(r"[^0-9a-zA-Z_]", " ", expr_sql))


def sql_text(v):
    """cast(v as varchar)"""
    return v if isinstance(v, str) else str(v)


def verdict_profile(case, r):
    """profile_columns recounted: None = every figure of every chart is a recount of the data."""
    if "first" in r:
        v = verdict_profile_charts(case, r["first"])
        if v is not None:
            return v
    v = verdict_profile_charts(case, r["charts"])
    return v if v is None or "first" not in r else "second call on the same database API: " + v


def verdict_profile_charts(case, charts):
    from collections import Counter

    rows = [x for t in case["tables"] for x in t]
    t32 = 2e-7 if case["engine"] == "duckdb" else 1e-12
    exprs = case["exprs"] if case["exprs"] is not None else list(types_of(case))
    top_n = 10 if case["top_n"] is None else case["top_n"]
    bottom_n = 10 if case["bottom_n"] is None else case["bottom_n"]
    want = []
    for e in exprs:
        if isinstance(e, list):
            vals = [None if any(x[c] is None for c in e) else " ".join(sql_text(x[c]) for c in e) for x in rows]
            gn = group_name("concat(" + ", ' ', ".join(e) + ")")
        elif e.startswith("lower:"):
            vals = [None if x[e[6:]] is None else x[e[6:]].lower() for x in rows]
            gn = None
        else:
            vals = [x[e] for x in rows]
            gn = group_name(f'"{e}"') if case["exprs"] is None else group_name(e)
        nn = [v for v in vals if v is not None]
        if nn:
            want.append((e, gn, Counter(sql_text(v) for v in nn), len(nn), len(vals)))
    if len(charts) != len(want):
        return f"profile_columns drew {len(charts)} charts; {len(want)} of the expressions {exprs} have a non-null value"
    for (e, gn, counts, nnn, tot), (perc, top, bottom) in zip(want, charts):
        def totals_ok(x):
            return x["total_non_null_rows"] == nnn and x["total_rows_inc_nulls"] == tot and x["distinct_value_count"] == len(counts) and (gn is None or x["group_name"] == gn)
        for x in perc + top + bottom:
            if not totals_ok(x):
                return f"profile of {e}: row {x} but the column has {nnn} non-null of {tot} rows, {len(counts)} distinct values (group {gn})"
        # distribution of value counts: one row per distinct count, cumulative from the most frequent values down, plus the 100% row
        by_count = Counter(counts.values())
        levels = sorted(by_count, reverse=True)
        exp, cum = [], 0
        for vc in levels:
            cum += vc * by_count[vc]
            exp.append((vc, vc * by_count[vc], 1 - cum / nnn, 1 - cum / tot))
        exp.append((levels[0], levels[0] * by_count[levels[0]], 1.0, 1.0))
        got = sorted(((x["value_count"], x["sum_tokens_in_value_count_group"], x["percentile_ex_nulls"], x["percentile_inc_nulls"]) for x in perc), key=lambda t: (-t[0], t[2]))
        exp_sorted = sorted(exp, key=lambda t: (-t[0], t[2]))
        if len(got) != len(exp_sorted) or any(a[0] != b[0] or a[1] != b[1] or not core.close(a[2], b[2], t32, t32) or not core.close(a[3], b[3], t32, t32) for a, b in zip(got, exp_sorted)):
            return f"profile of {e}: distribution rows (value_count, tokens, percentile_ex_nulls, percentile_inc_nulls) {got} but a recount gives {exp_sorted}"
        for name, listed, n_, rev in (("top", top, top_n, True), ("bottom", bottom, bottom_n, False)):
            vals = [x["value"] for x in listed]
            if len(set(vals)) != len(vals) or any(v not in counts or counts[v] != x["value_count"] for v, x in zip(vals, listed)):
                return f"profile of {e}: {name} values {[(x['value'], x['value_count']) for x in listed]} but the value counts are {dict(counts)}"
            best = sorted(counts.values(), reverse=rev)[:n_]
            if sorted((x["value_count"] for x in listed), reverse=rev) != best:
                return f"profile of {e}: the {name} {n_} values have counts {[x['value_count'] for x in listed]}; the {name} {n_} counts are {best}"
    return None


def check_profile(ctx, cases=None):
    if cases is None:
        cases = [gen_profile_case(ctx.rng, e) for e in ("duckdb", "sqlite") for _ in range(ctx.budget(25, 250))]
    res = core.pmap(run_profile_safe, cases)
    problems = []
    for c, r in zip(cases, res):
        n = sum(len(t) for t in c["tables"])
        ctx.case({k: c[k] for k in ("tables", "exprs", "top_n", "bottom_n", "engine", "form", "sequence")}, n >= 3)
        ctx.count("family", "profile_columns")
        ctx.count("profile_expressions", "all columns" if c["exprs"] is None else "+".join("concat" if isinstance(e, list) else ("lower" if e.startswith("lower:") else "column") for e in c["exprs"]))
        ctx.count("profile_top_n", c["top_n"]); ctx.count("profile_bottom_n", c["bottom_n"]); ctx.count("profile_sequence", c["sequence"]); ctx.count("profile_form", c["form"])
        ctx.count("profile_engine", c["engine"]); ctx.count("profile_tables", len(c["tables"]))
        if core.impl_error(r):
            problems.append((c, f"real code raised {r['__error__']} in profile_columns: {r['text'][:300]}", True))
            continue
        v = verdict_profile(c, r)
        if v is not None:
            problems.append((c, v, True))
            continue
        ctx.traces_validated += 1
    return problems


# --------------------------------------------------------------------------- driver of the comparison
OPTION_KEYS = ("tfchart", "pred_form", "id_type", "preconcat", "colperm", "colnames", "form", "aliases", "bare_single", "api_shared", "via", "x_col", "repeat", "unl_first",
               "fail_first", "thr_kind", "session", "prelude")


def canon(case):
    out = {k: case[k] for k in ("tables", "comparisons", "link_type", "engine", "blocking", "nbins", "thr", "prior", "compl_cols")}
    out.update({k: case[k] for k in OPTION_KEYS if case.get(k) not in (None, False)})
    return out


def count_options(ctx, c):
    """Evidence for the audit's families."""
    ctx.count("input_form", c.get("form", "frame"))
    ctx.count("input_aliases", "given" if c.get("aliases", True) else "none")
    ctx.count("entry_points", c.get("via", "internal"))
    ctx.count("id_type", c.get("id_type", "int"))
    ctx.count("layout", "preconcatenated_with_source_dataset_column" if c.get("preconcat") else "one_table_per_dataset")
    if any(not t for t in c["tables"]):
        ctx.count("layout", "with_an_empty_table")
    if c.get("colperm"):
        ctx.count("layout", "columns_in_another_order")
    if len(c["tables"]) == 1 or c.get("preconcat"):
        ctx.count("single_input", "bare" if c.get("bare_single") else "in_a_list")
    for canon_name, act in (c.get("colnames") or {}).items():
        ctx.count("renamed_column", f"{canon_name}->{act}")
    ctx.count("columns_renamed", bool(c.get("colnames")))
    ctx.count("one_api_for_completeness_and_linker", bool(c.get("api_shared")))
    ctx.count("sequence", c.get("session") or ("each_call_twice" if c.get("repeat") else "none"))
    if c.get("prelude") is not None:
        ctx.count("tables_registered_anew", sum(1 for a, b in zip(c["prelude"], c["tables"]) if a != b))
    if c.get("via") == "public" and c.get("tfchart"):
        tc = c["tfchart"]
        ctx.count("tf_adjustment_chart_n_most_freq", tc["n_most"]); ctx.count("tf_adjustment_chart_n_least_freq", tc["n_least"])
        ctx.count("tf_adjustment_chart_vals_to_include", "not given" if tc["include"] is None else f"{len(tc['include'])} values")
    ctx.count("predictions_table", c.get("pred_form", "computed"))
    ctx.count("unlinkables_before_predict", bool(c.get("unl_first")))
    ctx.count("failing_calls_first", bool(c.get("fail_first")))
    ctx.count("threshold", "none" if c["thr"] is None else f"{c.get('thr_kind', 'prob')}{'=0' if c['thr'] == 0 else ''}")
    cols = [cc["col"] for cc in c["comparisons"]]
    ctx.count("column_in_several_comparisons", len(set(cols)) < len(cols))
    ctx.count("tf_adjusted_int_column", any("tf" in l for cc in c["comparisons"] if cc["col"] == "c" for l in cc["levels"]))
    ctx.count("dyadic_m_u", all(l["m"] in (0.5, 0.25, 0.125, 0.0625) and l["u"] in (0.5, 0.25, 0.125, 0.0625) for cc in c["comparisons"] for l in cc["levels"] if "m" in l))
    vals = [r[col] for t in c["tables"] for r in t for col in ("a", "b")]
    ctx.count("has_empty_string", "" in vals)
    ctx.count("has_case_or_blank_variants", any(v in ("Ann", "ann ", " ") for v in vals))


def compare(ctx, cases, drv):
    res = core.pmap(run_impl_safe, cases)
    problems = []
    todo = []
    for c, r in zip(cases, res):
        n = sum(len(t) for t in c["tables"])
        ok = isinstance(r, dict) and "predict" in r
        ctx.case(canon(c), ok and len(r["predict"]) > 0 and n >= 3,
                 sample={"case": canon(c), "impl": {k: r[k] for k in ("tf", "cvd", "hist", "unl") if k in r}} if ok and n <= 3 else None)
        ctx.count("engine", c["engine"]); ctx.count("n_tables", len(c["tables"])); ctx.count("link_type", c["link_type"]); ctx.count("tag", c["tag"])
        ctx.count("n_records", n); ctx.count("n_comparisons", len(c["comparisons"])); ctx.count("nbins", c["nbins"]); ctx.count("thresholded", c["thr"] is not None)
        ctx.count("blocking_rules", len(c["blocking"]))
        count_options(ctx, c)
        for col, p in (c.get("profile") or {}).items():
            ctx.count("column_profile", p)
        ctx.count("tf_adjusted", any("tf" in l for cc in c["comparisons"] for l in cc["levels"]))
        if core.impl_error(r):
            ctx.count("impl_error", r["__error__"])
            problems.append((c, f"real code raised {r['__error__']}: {r['text'][:300]}", True))
            continue
        ctx.count("scored_pairs", min(len(r["predict"]), 50) // 10 * 10)
        if c["engine"] == "sqlite":
            ctx.count("excluded", "completeness_data on sqlite (parenthesised UNION ALL members are not SQLite syntax; loud, the test-suite excludes it)")
        if r["hist"] is not None and any(abs(p["match_weight"] / x["binwidth"] - round(p["match_weight"] / x["binwidth"])) < 1e-9 for p in r["predict"] for x in r["hist"][:1]):
            ctx.count("weight_exactly_on_a_bin_edge", True)
        if not r["unl"]:
            ctx.count("unlinkables_listing", "empty")
        if r["hist"] is None:
            ctx.count("excluded", "histogram of an empty prediction table (no scored pair to partition; _bins raises TypeError on min = max = None)")
        tc = c.get("tfchart")
        if r.get("tfchart") and tc:
            lvl = next(l for l in c["comparisons"][tc["comp"]]["levels"] if "tf" in l)
            if any(x["tf"] < lvl["tf"]["minU"] for x in r["tfchart"]["data"]):
                ctx.count("excluded", "tf_adjustment_chart: log2_bf_tf of a value rarer than tf_minimum_u_value (the chart ignores the minimum; the frequency itself is still recounted)")
            if lvl["tf"]["weight"] == 0:
                ctx.count("excluded", "tf_adjustment_chart: which values rank as most / least frequent when the adjustment weight is 0 (all tie)")
        if any(knife(p, 1e5) for _, p in r["self"]):
            ctx.count("excluded", "unlinkables listing: a self-match probability within 1e-9 of a rounding boundary")
        vs = verdicts(c, r)
        for _, v in vs:
            problems.append((c, v, True))
        # the sections the oracle accepts are still compared with the model (a standing defect in one output must not blind the others)
        todo.append((c, r, tuple(sec for sec, _ in vs)))
    built = [model_request(c, r) for c, r, _ in todo]
    mres = drv.pbatch([b[0] for b in built])
    for (c, r, skip), (req, codes), m in zip(todo, built, mres):
        if "error" in m:
            raise core.HarnessError("model driver error: " + m["error"])
        bad = compare_model(c, r, m, codes, skip) or c20_sql.differs(ctx, m) or c20_sql.differs_engine(ctx, m, c, r, skip)
        if bad:
            problems.append((c, "descriptive outputs differ from Lean model Descriptive: " + bad, False))
            continue
        if not skip:
            ctx.traces_validated += 1
    return problems


def failures(case):
    r = run_impl_safe(case)
    if "__error__" in r:
        return [classify(f"real code raised {r['__error__']}: {r['text'][:300]}")]
    return [classify(v) for _, v in verdicts(case, r)]


def shrink(case, cls=None):
    """Greedy shrinking that keeps the failure class `cls` (any failure when None)."""
    def impl_fails(cand):
        f = failures(cand)
        return bool(f) if cls is None else cls in f

    cur = json.loads(json.dumps(case))
    budget = 30
    changed = True
    while changed and budget > 0:
        changed = False
        for ti in range(len(cur["tables"])):
            for ri in range(len(cur["tables"][ti]) - 1, -1, -1):
                if budget <= 0 or len(cur["tables"][ti]) <= 1:
                    break
                cand = json.loads(json.dumps(cur))
                del cand["tables"][ti][ri]
                cand = sanitize(cand)
                budget -= 1
                if impl_fails(cand):
                    cur, changed = cand, True
        for ci in range(len(cur["comparisons"]) - 1, -1, -1):
            if budget <= 0 or len(cur["comparisons"]) <= 1:
                break
            cand = json.loads(json.dumps(cur))
            del cand["comparisons"][ci]
            cand = sanitize(cand)
            budget -= 1
            if impl_fails(cand):
                cur, changed = cand, True
    return cur


def classify(what):
    if what.startswith("real code raised") and " in " in what[:400] and what.rstrip().endswith(")"):
        return "real code raised in " + what.rsplit(" in ", 1)[1]  # a guarded public entry point: one class per call shape
    for pat, cls in [("the same call made twice", "a repeated call gave a different answer"),
                     ("do not name their dataset", "completeness rows do not name their dataset"), ("tf_adjustment_chart", "tf_adjustment_chart is not a view of the term-frequency table"), ("profile", "profile_columns figures differ from a recount"),
                     ("tf table", "term-frequency table is not the relative frequency"), ("tf_", "TF value used in scoring differs from the TF table"),
                     ("concat_with_tf", "TF join drops or duplicates records"), ("completeness", "completeness differs from a recount"),
                     ("predict scored", "scored pairs differ from the admissible blocked pairs"), ("gamma vectors", "gamma vectors differ"),
                     ("comparison vector", "comparison-vector distribution does not partition the scored pairs"), ("comparison-vector", "comparison-vector distribution does not partition the scored pairs"),
                     ("bin", "histogram does not partition the scored pairs"), ("histogram", "histogram does not partition the scored pairs"),
                     ("self-", "self-link scores differ"), ("unlinkables", "unlinkables is not the cumulative share"), ("real code raised", "real code raised")]:
        if pat in what:
            return cls
    return what[:60]


def run(ctx: core.Ctx):
    ctx.rule = (
        "cases = 1-3 tables (aliases ta/tb/tc, overlapping ids) x 1-9 rows x columns a, b (strings with near-duplicates), c (int) each drawn from a profile "
        "(mixed, NULL-heavy 70%, all-NULL, single-valued, all-distinct) x 1-3 comparisons (optional null level, exact, levenshtein<=1/2, else; random m/u; TF adjustment on the exact level with "
        "weight in {0,.3,.5,1} and minimum u in {0,.01,.2}) x prior x 0-2 equality blocking rules x link type x num_bins in {1,5,10,30,100} x optional probability threshold (20%) x "
        "completeness over all columns or a subset, default or given dataset names x TF tables computed before or after predict; duckdb 2/3, sqlite 1/3. "
        "+ adversarial families (all-NULL data, one record, identical records, probabilities rounding to 1, 1 and 100 bins) "
        "+ audit dimensions drawn for every case: column profile 'tricky' (empty / blank strings, case and trailing-blank variants, negative and 2^33 ints), string ids (20%), an empty table (6% of "
        "multi-table cases), ONE pre-concatenated table with its own source dataset column (10%), later tables listing the columns in another order (25%), renamed input columns "
        "(blank inside, upper case, reserved words; unique id / source dataset column names non-default; 30%), tables handed over as frames / names of tables the caller registered "
        "(names != aliases) / lists of records, with or without input_table_aliases, a single table bare or in a list, completeness and linker on one database API or two, internal data "
        "functions or the public completeness_chart / match_weights_histogram (default target_bins when 30) / unlinkables_chart (x_col), one column in several comparisons, TF on the int column, "
        "power-of-two m/u with prior 0.5 (integer weights on bin edges; 10%), num_bins 2/3/1000, predict(threshold_match_weight) and threshold_match_probability=0.0, unlinkables before predict, "
        "failing calls first (unknown column, 0 bins), every call twice (8%), sequences (12%): invalidate_cache and again / other data first under the same names, then register_table(overwrite=True) "
        "and the same calls on the same linker (with or without invalidate_cache) or on a new linker / a new linker over new frames without aliases "
        "+ audit adversarial families (all probabilities round to 1, integer weights x bins, tricky values, every sequence kind, pre-concatenated x link type, empty table first / second) "
        "+ profile_columns (oracle only): 1-3 tables x expressions (all columns, columns, concatenations, lower()) x top_n / bottom_n in {default,1,2,3,5,10} x frames / names x twice / re-registered data. "
        "+ exhaustive: every column of length 3 over {NULL,x,y} (27 columns) in one dataset split 3 / 1+2 / 2+1 over tables, both engines. "
        "non-trivial = at least 3 records and at least one scored pair; distinct = hash of (tables, model, link type, engine, blocking, bins, threshold, columns)."
    )
    ctx.assumptions = [
        "SQL semantics of DuckDB / SQLite (GROUP BY, count(*) vs count(col), LEFT JOIN, window sum with RANGE framing, round, floor) are trusted for the atoms the model takes as given",
        "scores (gamma, match_weight, match_probability) are C02's subject: the model takes predict()/_self_link() rows as input; the oracle additionally recomputes gamma vectors and self-match probabilities independently",
        "columns cast to `float` are 32-bit in DuckDB: completeness, proportion_of_comparisons, prop are compared at 2e-7, cum_prop at 1e-6; float8 term frequencies at 1e-12",
        "round(x,5)/round(x,2): rows whose value is within 1e-9 (relative 1e-4 of a unit) of a rounding boundary are excepted (DuckDB rounds x*10^k half away from zero, SQLite rounds the decimal expansion)",
        "histogram: a weight within 1e-9 of a bin edge may be counted in either neighbouring bin (bw*floor(w/bw) at Float)",
        "completeness_data does not run on SQLite (syntax); histogram_data raises on an empty prediction table: both loud, excluded and counted",
        "a public chart function that raises is recorded and reported as a violation; the case continues with the internal data function so that the other outputs are still examined",
        "tf_adjustment_chart (public entry points): every shown value carries its relative frequency, the values asked for are shown, the number shown follows n_most_freq / n_least_freq (None = all); "
        "its log2_bf_tf is compared with log2(u/tf)*weight only where tf >= tf_minimum_u_value (the chart ignores the minimum), its ranking only for a positive adjustment weight",
        "profile_columns has no Lean model: its figures are decided by the recount oracle alone; ties among equally frequent values may be broken either way in the top / bottom lists",
        "a list of plain records carries no column types: that input form is only generated when every column of every table has a non-null value",
    ]
    sql_errs = c20_sql.prepare()  # Generated/DescSql.lean: the TF-table, completeness, comparison-vector distribution, histogram and unlinkables statements the code emits now, as Rel terms (T-sql)
    ctx.lean = core.lean_check(PROP, ctx.thorough)
    if sql_errs:
        ctx.lean.ok = False
        ctx.lean.problems += ["T-sql: " + e for e in sql_errs]
    drv = core.Driver()
    if ctx.replay:
        cases = [json.loads(open(ctx.replay).read())["replay"]["case"]]
        problems = check_profile(ctx, cases) if cases[0].get("tag") == "profile" else compare(ctx, cases, drv)
    else:
        from harness import graphs

        cases = list(graphs.load_corpus(PROP)) + adversarial_cases(ctx.rng) + [gen_case(ctx.rng) for _ in range(ctx.budget(600, 6000))]
        problems = check_wide(ctx, drv)
        problems += check_extracts(ctx)
        ctx.exhaustive = True
        problems += compare(ctx, cases, drv)
        problems += check_profile(ctx)
    if (not ctx.lean.ok or any(not conc for _, _, conc in problems)) and not ctx.replay:
        ctx.notes.append("proof or correspondence broke: ran the widened failing-input search")
        rng2 = random.Random(ctx.seed + 7919)
        problems += compare(ctx, [gen_case(rng2) for _ in range(400)], drv)
    concrete = [(c, w) for c, w, conc in problems if conc]
    broken = [(c, w) for c, w, conc in problems if not conc]
    reported = set()
    for c, w in concrete:
        cls = classify(w)
        if cls in reported or len(reported) >= 5:
            continue
        reported.add(cls)
        if c.get("tag") in ("wide", "profile", "extracts"):
            ctx.violation("real output violates C20: " + cls, {"case": c, "detail": w}, kind="concrete", match_info={"failure": cls, "engine": c["engine"]})
            continue
        small = shrink(c, cls)
        rr = run_impl_safe(small)
        msgs = [v for _, v in verdicts(small, rr)] if "predict" in rr else [f"real code raised {rr['__error__']}: {rr['text'][:300]}"]
        what = next((v for v in msgs if classify(v) == cls), None) or (msgs[0] if msgs else w)
        ctx.violation("real output violates C20: " + classify(what),
                      {"case": small, "settings": settings_dict(small), "observed": rr, "detail": what},
                      kind="concrete", match_info={"failure": classify(what), "engine": small["engine"], "tag": small.get("tag"),
                                                   "input_form": small.get("form", "frame"), "entry_points": small.get("via", "internal"),
                                                   "several_input_tables": n_inputs(small) > 1,
                                                   "error": what[len("real code raised "):].rsplit(" in ", 1)[0] if what.startswith("real code raised ") and " in " in what else None})
    # a broken correspondence is reported next to concrete failures: the model comparison skips only the sections the oracle rejected
    if broken:
        c, w = broken[0]
        ctx.violation("correspondence Descriptive model <-> term_frequencies.py / completeness.py / comparison_vector_distribution.py / match_weights_histogram.py / unlinkables.py no longer checks",
                      {"correspondence": "harness/props/c20.py compare_model(): " + w[:3000], "case": c, "disagreeing_cases": len(broken), "searched_cases": ctx.evaluations, "lean": ctx.lean.as_dict()}, kind="unproved")
    elif not ctx.lean.ok:
        ctx.violation("Lean obligations for C20 no longer check",
                      {"theorems": ctx.lean.as_dict()["undischarged"], "problems": ctx.lean.problems, "build_log_tail": ctx.lean.build_log[-1500:], "searched_cases": ctx.evaluations}, kind="unproved")
