"""C12 — single-best-link clusters respect duplicate-free datasets.

Lean: Model/OneToOne.lean mirrors one_to_one_clustering statement by statement, with the two
`row_number()` windows' tie-breaks as explicit oracles; Properties/C12.lean proves partition,
the duplicate-free constraint (all oracles), termination, maximality (tie-free), and that
connectivity FAILS with ties (6-node witness, finding K4).
Tie: this correspondence check runs `linker.clustering.cluster_using_single_best_links` (DuckDB
with 1/4(/16) threads, SQLite) and the compiled model on the same node/edge tables.
* tie-free inputs: the real cluster table and the per-iteration `needs_updating` counts from
  Splink's log must EQUAL the model's; the naive oracle checks partition / constraint /
  connectivity (BFS over kept edges inside the cluster) / maximality on the real output;
* tie-containing inputs: the real output must satisfy partition + constraint and, for <= 7
  records, be one of the tables the model returns under SOME oracle pair (enumerated by the
  driver op `sbl_all`); a disconnected cluster on such an input is the known finding K4.
"""
from __future__ import annotations

import itertools
import json
import random

from harness import core, graphs

PROP = "C12"
LOGGER = "splink.internals.one_to_one_clustering"
ENTRY = "cluster_using_single_best_links"
K4_FAILURE = "cluster not connected through kept edges"
NAMES = ["a", "b", "c", "d"]


# --------------------------------------------------------------------------- real code
def run_impl(case: dict) -> dict:
    """Run the real Splink code on one case; returns (node index, cluster node index) rows + iteration trace."""
    from splink import Linker, SettingsCreator

    from harness import impl

    api = impl.make_api(case["engine"], threads=case.get("threads", 2))
    ids, sds = case["ids"], case["sds"]
    n = len(ids)
    node_order = list(range(n))
    edges = list(case["edges"])
    if case.get("shuffle") is not None:  # corpus cases may pin the row order (tie-breaks depend on it)
        rng = random.Random(case["shuffle"])
        rng.shuffle(node_order)
        rng.shuffle(edges)
    names = sorted(set(sds))
    frames = []
    for nm in names:
        rows_ = [{"unique_id": ids[i], "v": "x"} for i in node_order if sds[i] == nm]
        frames.append(impl.typed_frame(rows_, {"unique_id": "int", "v": "str"}))
    settings = SettingsCreator(link_type=case.get("link_type", "link_and_dedupe"), comparisons=[], blocking_rules_to_generate_predictions=[])
    linker = Linker(frames, settings, api, input_table_aliases=names)
    erows = [
        {"source_dataset_l": sds[a], "unique_id_l": ids[a], "source_dataset_r": sds[b], "unique_id_r": ids[b], "match_probability": p}
        for a, b, p in edges
    ]
    types = {"source_dataset_l": "str", "unique_id_l": "int", "source_dataset_r": "str", "unique_id_r": "int", "match_probability": "float"}
    df_predict = linker.table_management.register_table_predict(impl.typed_frame(erows, types), overwrite=True)
    kw = {"threshold_match_weight" if case.get("thr_kind") == "weight" else "threshold_match_probability": case["thr"]}
    with impl.capture_log(LOGGER) as msgs:
        out = linker.clustering.cluster_using_single_best_links(df_predict, duplicate_free_datasets=list(case["dupfree"]), **kw)
        rows = out.as_record_dict()
    key = {f"{sds[i]}{impl.SEP}{ids[i]}": i for i in range(n)}
    res = [(key.get(f"{r['source_dataset']}{impl.SEP}{r['unique_id']}", -1), key.get(str(r["cluster_id"]), -1)) for r in rows]
    return {"rows": sorted(res), "trace": impl.cc_trace(msgs)}


run_impl_safe = core.safe(run_impl)


# --------------------------------------------------------------------------- model side
def threshold_prob(case: dict) -> float:
    """`threshold_args_to_match_prob`: a weight w is the probability 2^w / (1 + 2^w)."""
    if case.get("thr_kind") == "weight":
        bf = 2.0 ** case["thr"]
        return bf / (1.0 + bf)
    return case["thr"]


def node_keys(case: dict) -> list[str]:
    return [f"{case['sds'][i]}-__-{case['ids'][i]}" for i in range(len(case["ids"]))]


def model_request(case: dict, op: str = "sbl") -> tuple[dict, list[int]]:
    keys = node_keys(case)
    order = sorted(range(len(keys)), key=lambda i: keys[i])  # order[rank] = node index
    rank = [0] * len(keys)
    for r, i in enumerate(order):
        rank[i] = r
    names = sorted(set(case["sds"]) | set(case["dupfree"]))
    dsi = {nm: k for k, nm in enumerate(names)}
    req = {
        "op": op,
        "n": len(keys),
        "ds": [dsi[case["sds"][order[r]]] for r in range(len(keys))],
        "dupfree": [dsi[d] for d in case["dupfree"]],
        "edges": [[rank[a], rank[b], core.f2b(p)] for a, b, p in case["edges"]],
        "thr": core.f2b(threshold_prob(case)),
    }
    if op == "sbl_all":
        req["cap"] = 300
    return req, order


# --------------------------------------------------------------------------- naive oracle
def kept_edges(case: dict):
    t = threshold_prob(case)
    return [(a, b, p) for a, b, p in case["edges"] if p >= t]


def has_ties(case: dict) -> bool:
    """Two kept edges (self loops aside: they never join anything) with the same probability."""
    ps = [p for a, b, p in kept_edges(case) if a != b]
    return len(ps) != len(set(ps))


def is_threshold_fragile(case: dict) -> bool:
    if case.get("thr_kind") != "weight":
        return False
    t = threshold_prob(case)
    return any(p != t and abs(p - t) <= 1e-12 for _, _, p in case["edges"])


def oracle_verdicts(case: dict, rows) -> list[str]:
    """Every clause of C12 the real output breaks on this case (empty list = property holds).
    Maximality is only demanded of tie-free inputs (the property's wording)."""
    n = len(case["ids"])
    out = []
    seen = sorted(i for i, _ in rows)
    if seen != list(range(n)):
        return [f"records not returned exactly once: got node indices {seen} for {n} records"]
    cl = dict(rows)
    members: dict[int, list[int]] = {}
    for i in range(n):
        members.setdefault(cl[i], []).append(i)
    dup = set(case["dupfree"])
    for c, mem in sorted(members.items()):
        got = [case["sds"][i] for i in mem if case["sds"][i] in dup]
        if len(got) != len(set(got)):
            out.append(f"cluster holds two records of a duplicate-free dataset: cluster {c} members {mem} datasets {[case['sds'][i] for i in mem]}")
            break
    adj = {i: set() for i in range(n)}
    for a, b, _ in kept_edges(case):
        adj[a].add(b)
        adj[b].add(a)
    for c, mem in sorted(members.items()):
        inside = set(mem)
        reach, todo = {mem[0]}, [mem[0]]
        while todo:
            x = todo.pop()
            for y in adj[x]:
                if y in inside and y not in reach:
                    reach.add(y)
                    todo.append(y)
        if reach != inside:
            out.append(f"{K4_FAILURE}: cluster {c} members {mem}, reachable from {mem[0]} inside the cluster: {sorted(reach)}")
            break
    if not has_ties(case):
        for a, b, p in kept_edges(case):
            if cl[a] != cl[b]:
                da = {case["sds"][i] for i in members[cl[a]]} & dup
                db = {case["sds"][i] for i in members[cl[b]]} & dup
                if not (da & db):
                    out.append(f"not maximal on a tie-free input: kept edge {a}-{b} (p={p}) joins clusters {cl[a]} and {cl[b]} that share no duplicate-free dataset")
                    break
    return out


# --------------------------------------------------------------------------- generators
def make_nodes(rng: random.Random, n: int, k: int):
    """n records over exactly k datasets (each non-empty), unique ids overlapping across datasets."""
    names = NAMES[:k]
    sds = names + [rng.choice(names) for _ in range(n - k)]
    rng.shuffle(sds)
    pool = list(range(0, max(3, n)))
    used, ids = set(), []
    for i in range(n):
        cand = [x for x in pool if (sds[i], x) not in used]
        x = rng.choice(cand)
        used.add((sds[i], x))
        ids.append(x)
    return sds, ids


def all_subsets(names):
    return [list(c) for r in range(1, len(names) + 1) for c in itertools.combinations(names, r)]


def finish_case(rng: random.Random, sds, ids, edges, dupfree, thr, thr_kind, engine, tag, threads=None):
    edges = [((b, a, p) if rng.random() < 0.5 else (a, b, p)) for a, b, p in edges]  # orientation is arbitrary
    return {
        "sds": sds, "ids": ids, "edges": edges, "dupfree": dupfree, "thr": thr, "thr_kind": thr_kind, "engine": engine,
        "threads": threads if threads is not None else rng.choice([1, 4]), "shuffle": rng.randrange(1 << 30),
        "link_type": rng.choice(["link_and_dedupe", "link_only"]), "tag": tag,
    }


def pick_threshold(rng: random.Random, probs):
    r = rng.random()
    ps = sorted(set(probs))
    if ps and r < 0.4:
        return rng.choice(ps), "prob"  # exactly on an edge probability (>= keeps it)
    if r < 0.55:
        return 0.0, "prob"
    if r < 0.85:
        return round(rng.uniform(0.05, 0.9), 3), "prob"
    return round(rng.uniform(-4, 4), 2), "weight"


def gen_tiefree(rng: random.Random, nmax: int, engine: str, dupfree_cycle, threads=None):
    n = rng.randint(3, nmax)
    k = rng.randint(2, min(4, n))
    sds, ids = make_nodes(rng, n, k)
    pairs = [(a, b) for a in range(n) for b in range(a + 1, n)]
    fam = rng.choice(["dense", "gnp", "gnp", "bip"])
    if fam == "bip":  # only cross-dataset edges, the shape predict() of link_only produces
        pairs = [(a, b) for a, b in pairs if sds[a] != sds[b]] or pairs
    m = min(len(pairs), rng.randint(1, {"dense": 3 * n, "gnp": 2 * n, "bip": 2 * n}[fam]))
    chosen = rng.sample(pairs, m)
    grid = rng.sample(range(1, 1000), m)  # pairwise distinct probabilities
    edges = [(a, b, g / 1000.0) for (a, b), g in zip(chosen, grid)]
    if rng.random() < 0.15:
        v = rng.randrange(n)
        edges.append((v, v, 0.9995))  # self loop (distinct probability)
    subs = all_subsets(NAMES[:k])
    dupfree = subs[next(dupfree_cycle) % len(subs)]
    thr, kind = pick_threshold(rng, [p for _, _, p in edges])
    return finish_case(rng, sds, ids, edges, dupfree, thr, kind, engine, f"tiefree-{fam}", threads)


def gen_tied(rng: random.Random, nmax: int, engine: str, dupfree_cycle, threads=None):
    n = rng.randint(3, nmax)
    k = rng.randint(2, min(4, n))
    sds, ids = make_nodes(rng, n, k)
    pairs = [(a, b) for a in range(n) for b in range(a + 1, n)]
    m = min(len(pairs), rng.randint(2, 2 * n))
    chosen = rng.sample(pairs, m)
    levels = rng.sample([0.6, 0.7, 0.8, 0.9, 0.95], rng.randint(1, 3))
    edges = [(a, b, rng.choice(levels)) for a, b in chosen]
    extra = []
    for a, b, p in edges:
        r = rng.random()
        if r < 0.1:
            extra.append((a, b, p))  # duplicate row
        elif r < 0.2:
            extra.append((b, a, p))  # reversed duplicate
    edges += extra
    subs = all_subsets(NAMES[:k])
    dupfree = subs[next(dupfree_cycle) % len(subs)]
    thr = rng.choice([0.5, min(levels), sorted(levels)[len(levels) // 2]])
    return finish_case(rng, sds, ids, edges, dupfree, thr, "prob", engine, "tied", threads)


def gen_k4like(rng: random.Random, engine: str, threads=None):
    """The shape of the K4 witness: 6-7 records over two datasets, ONE of them duplicate-free, 8-10 edges over
    three probability levels, threshold below all of them (this family hits disconnected clusters at random)."""
    n = rng.randint(6, 7)
    sds, ids = make_nodes(rng, n, 2)
    pairs = [(a, b) for a in range(n) for b in range(a + 1, n)]
    chosen = rng.sample(pairs, min(len(pairs), rng.randint(8, 10)))
    edges = [(a, b, rng.choice([0.6, 0.7, 0.8])) for a, b in chosen]
    return finish_case(rng, sds, ids, edges, [rng.choice(["a", "b"])], 0.5, "prob", engine, "tied-k4like", threads)


def gen_exhaustive(rng: random.Random, count: int):
    """Every labelled graph on 4 records x dataset layouts x every non-empty duplicate-free subset, tie-free
    (a random bijection of edges to probabilities); `count` of them drawn without replacement."""
    layouts = [["a", "a", "b", "b"], ["a", "b", "a", "b"], ["a", "b", "b", "a"], ["a", "a", "a", "b"], ["a", "b", "c", "a"], ["a", "b", "c", "c"]]
    space = []
    for gi, g in enumerate(graphs.all_graphs(4)):
        if not g:
            continue
        for li, lay in enumerate(layouts):
            for sub in all_subsets(sorted(set(lay))):
                space.append((g, lay, sub))
    rng.shuffle(space)
    out = []
    for g, lay, sub in space[:count]:
        ps = rng.sample([0.55, 0.6, 0.65, 0.7, 0.75, 0.8, 0.85, 0.9], len(g))
        edges = [(a, b, p) for (a, b), p in zip(g, ps)]
        ids = rng.sample(range(0, 6), 4)
        out.append(finish_case(rng, list(lay), ids, edges, sub, rng.choice([0.5, sorted(ps)[0], sorted(ps)[len(ps) // 2]]), "prob",
                               rng.choice(["duckdb", "sqlite"]), "exh4"))
    return out, len(space)


def gen_cases(ctx: core.Ctx) -> list[dict]:
    rng = ctx.rng
    cyc = itertools.count(rng.randrange(1000))
    cases = []

    def eng():
        return rng.choice(["duckdb", "duckdb", "sqlite"])

    exh, space = gen_exhaustive(rng, ctx.budget(150, 2000))
    ctx.extra_cov["exhaustive_space_4_records"] = {"size": space, "drawn_this_run": len(exh)}
    ctx.exhaustive = len(exh) == space  # thorough: the whole 4-record space is enumerated
    cases += exh
    for _ in range(ctx.budget(260, 3000)):
        cases.append(gen_tiefree(rng, 30 if ctx.thorough else 12, eng(), cyc))
    for _ in range(ctx.budget(170, 2000)):
        cases.append(gen_tied(rng, 7, eng(), cyc))
    for _ in range(ctx.budget(40, 500)):
        cases.append(gen_tied(rng, 14, eng(), cyc))
    for _ in range(ctx.budget(80, 800)):
        cases.append(gen_k4like(rng, eng()))
    if ctx.thorough:
        for _ in range(300):
            cases.append(gen_tiefree(rng, 12, "duckdb", cyc, threads=16))
        for _ in range(300):
            cases.append(gen_tied(rng, 7, "duckdb", cyc, threads=16))
    return cases


# --------------------------------------------------------------------------- comparison
def canon(case: dict):
    return {k: case[k] for k in ("sds", "ids", "edges", "dupfree", "thr", "thr_kind", "engine", "threads")}


def compare(ctx: core.Ctx, cases: list[dict], drv: core.Driver):
    """Run impl + model on all cases; returns list of (case, problem, concrete?, impl result, match_info)."""
    reqs, orders = [], []
    for c in cases:
        r, o = model_request(c)
        reqs.append(r)
        orders.append(o)
    res = core.pmap(run_impl_safe, cases, chunksize=4)
    mres = drv.pbatch(reqs)
    # tied inputs with <= 7 records: all outputs of the model over all oracle pairs
    tied_small = [i for i, c in enumerate(cases) if has_ties(c) and len(c["ids"]) <= 7]
    allres = dict(zip(tied_small, drv.pbatch([model_request(cases[i], "sbl_all")[0] for i in tied_small])))
    problems = []
    for idx, (c, order, r, m) in enumerate(zip(cases, orders, res, mres)):
        n = len(c["ids"])
        ties = has_ties(c)
        kept = kept_edges(c)
        nontrivial = len([1 for a, b, _ in kept if a != b]) >= 2
        ctx.case(canon(c), nontrivial,
                 sample={"case": {k: c[k] for k in c if k != "shuffle"}, "has_ties": ties,
                         "impl_rows": r.get("rows") if isinstance(r, dict) else None, "impl_trace": r.get("trace") if isinstance(r, dict) else None} if n <= 8 else None)
        ctx.count("family", c["tag"])
        ctx.count("engine", f"{c['engine']}/threads={c['threads']}" if c["engine"] == "duckdb" else c["engine"])
        ctx.count("n_records", "3-4" if n <= 4 else "5-7" if n <= 7 else "8-12" if n <= 12 else ">12")
        ctx.count("n_datasets", len(set(c["sds"])))
        ctx.count("dupfree_subset", f"{len(c['dupfree'])} of {len(set(c['sds']))}")
        ctx.count("threshold", "on an edge probability" if any(p == threshold_prob(c) for _, _, p in c["edges"]) else c["thr_kind"])
        ctx.count("ties", "tie-containing" if ties else "tie-free")
        ctx.count("link_type", c["link_type"])
        if core.impl_error(r):
            ctx.count("impl_error", r["__error__"])
            problems.append((c, f"real code raised {r['__error__']}: {r['text'][:300]}", True, r, {"failure": "real code raised", "entry": ENTRY, "has_ties": ties}))
            continue
        if "error" in m:
            raise RuntimeError(f"model driver error: {m['error']}")
        if not m["done"]:
            raise RuntimeError("model ran out of fuel (contradicts theorem C12.terminates)")
        if is_threshold_fragile(c):
            ctx.count("excluded", "weight threshold within 1e-12 of an edge probability")
            continue
        ctx.count("iterations", len(r["trace"]) if len(r["trace"]) < 7 else ">=7")
        verdicts = oracle_verdicts(c, r["rows"])
        conc = False
        for v in verdicts:
            failure = v.split(":")[0]
            problems.append((c, v, True, r, {"failure": failure, "entry": ENTRY, "has_ties": ties}))
            conc = True
        ctx.count("oracle", "holds" if not verdicts else "; ".join(v.split(":")[0] for v in verdicts))
        if conc and any(not v.startswith(K4_FAILURE) or not ties for v in verdicts):
            continue
        # model output is in rank space
        mrows = sorted((order[a], order[rep]) for a, rep in enumerate(m["rep"]))
        if not ties:
            if mrows != r["rows"]:
                problems.append((c, f"tie-free input: cluster table differs from Lean model OneToOne.cluster: impl {r['rows']} model {mrows}", False, r, None))
                continue
            if m["trace"] != r["trace"]:
                problems.append((c, f"tie-free input: per-iteration needs_updating counts differ from Lean model OneToOne.trace: impl {r['trace'][:12]} model {m['trace'][:12]}", False, r, None))
                continue
            ctx.traces_validated += 1
            ctx.count("correspondence", "tie-free: table and trace equal the model's")
        elif idx in allres:
            a = allres[idx]
            if "error" in a:
                raise RuntimeError(f"model driver error: {a['error']}")
            if a.get("overflow"):
                ctx.count("excluded", "tied input whose all-oracles enumeration exceeds its budget (> 300 tie-break combinations of one window in a pass, or > 300 reachable tables): membership not tested, invariants still checked")
                continue
            outs = {tuple(sorted((order[v], order[rep]) for v, rep in enumerate(o))) for o in a["outs"]}
            ctx.count("model_outputs_over_all_oracles", len(outs) if len(outs) < 6 else ">=6")
            if tuple(r["rows"]) not in outs:
                problems.append((c, f"tie-containing input: real cluster table {r['rows']} is none of the {len(outs)} tables the Lean model returns over all oracle pairs", False, r, None))
                continue
            ctx.count("correspondence", "tied: table is one of the model's outputs over all oracle pairs")
        else:
            ctx.count("correspondence", "tied, > 7 records: invariants only")
    return problems


def shrink(case: dict, still_fails) -> dict:
    """Greedy delta-debugging over edges then unused records (bounded)."""
    cur = dict(case)
    budget = 60
    changed = True
    while changed and budget > 0:
        changed = False
        for k in range(len(cur["edges"]) - 1, -1, -1):
            if budget <= 0:
                break
            cand = dict(cur)
            cand["edges"] = cur["edges"][:k] + cur["edges"][k + 1:]
            budget -= 1
            if still_fails(cand):
                cur, changed = cand, True
        used = {a for a, _, _ in cur["edges"]} | {b for _, b, _ in cur["edges"]}
        for v in range(len(cur["ids"]) - 1, -1, -1):
            if v in used or budget <= 0:
                continue
            sds2 = cur["sds"][:v] + cur["sds"][v + 1:]
            if len(set(sds2)) < 2:
                continue
            cand = dict(cur)
            cand["ids"] = cur["ids"][:v] + cur["ids"][v + 1:]
            cand["sds"] = sds2
            cand["edges"] = [(a - (a > v), b - (b > v), p) for a, b, p in cur["edges"]]
            budget -= 1
            if still_fails(cand):
                cur, changed = cand, True
                break
    return cur


def load_case(d: dict) -> dict:
    d = dict(d)
    d["edges"] = [tuple(e) for e in d["edges"]]
    return d


# --------------------------------------------------------------------------- entry
def run(ctx: core.Ctx):
    ctx.rule = (
        "cases = corpus (the 6-record tie witness K4) + a random sample of the finite space {every non-empty labelled graph on 4 records} x "
        "{6 dataset layouts over 2-3 datasets} x {every non-empty duplicate-free subset} with a random bijection edges->probabilities + random "
        "tie-free inputs (3-12 records, 30 in thorough; 2-4 datasets each non-empty; dense / G(n,p) / cross-dataset-only edges; pairwise "
        "distinct probabilities; optional self loop) + tie-heavy inputs (1-3 distinct probabilities, duplicate and reversed rows; <= 7 records "
        "for the all-oracles membership test, <= 14 for the invariants); the duplicate-free subset cycles through every non-empty subset of the "
        "datasets; thresholds equal to an edge probability / 0 / random / match weight; every edge randomly oriented; node and edge rows "
        "shuffled; link_only and link_and_dedupe; engines duckdb (1/4 threads; 16 in thorough) + sqlite; unique ids overlap across datasets. "
        "non-trivial = at least two kept non-loop edges; distinct = hash of (records, edges, subset, threshold, engine, threads)."
    )
    ctx.assumptions = [
        "edge endpoints are records of the input tables, (source_dataset, unique_id) distinct and non-NULL, match_probability non-NULL in [0,1]",
        "dataset names are SQL-identifier safe (the code splices them into column names `contains_<name>`); duplicate_free_datasets non-empty "
        "(an empty list yields `AND NOT ()`, a loud parser error outside the quantifier)",
        "composite ids map to ranks order-isomorphically (ASCII strings; engine collation = code-point order)",
        "probabilities map to the model's naturals by their IEEE bit pattern (order-isomorphic for non-negative doubles)",
        "SQL semantics of DuckDB/SQLite for joins, GROUP BY, min, row_number() (rank 1 = some row of maximal match_probability in its partition) are trusted",
        "weight thresholds whose probability lies within 1e-12 of an edge probability are excluded (floating point)",
        "which tie-break an engine realises is not modelled: tie-containing inputs are checked against the set of model outputs over all oracle pairs",
    ]
    ctx.lean = core.lean_check(PROP, ctx.thorough)
    drv = core.Driver()
    if ctx.replay:
        body = json.loads(open(ctx.replay).read())
        cases = [load_case(body["replay"]["case"])]
    else:
        cases = [load_case(c) for c in graphs.load_corpus(PROP)] + gen_cases(ctx)
    problems = compare(ctx, cases, drv)
    lean_broken = not ctx.lean.ok
    if not ctx.replay and (lean_broken or any(not conc for _, _, conc, _, _ in problems)):
        ctx.notes.append("proof or correspondence broke: ran the widened failing-input search")
        save, ctx.rng = ctx.rng, random.Random(ctx.seed + 7919)
        was, ctx.thorough = ctx.thorough, True
        try:
            more = gen_cases(ctx)[:2500]
        finally:
            ctx.thorough, ctx.rng = was, save
        problems += compare(ctx, more, drv)
    concrete = [(c, w, r, mi) for c, w, conc, r, mi in problems if conc]
    broken = [(c, w, r) for c, w, conc, r, _ in problems if not conc]
    # known finding K4 first (one report is enough: it is suppressed or not as a whole), then anything else
    k4 = [(c, w, r, mi) for c, w, r, mi in concrete if mi["failure"] == K4_FAILURE and mi["has_ties"]]
    other = [(c, w, r, mi) for c, w, r, mi in concrete if not (mi["failure"] == K4_FAILURE and mi["has_ties"])]
    ctx.extra_cov["tie_containing_cases_with_a_disconnected_cluster"] = len(k4)
    for c, w, r, mi in sorted(k4, key=lambda t: len(t[0]["ids"]))[:1]:
        ctx.violation(
            "real output violates C12 on a tie-containing input: " + K4_FAILURE,
            {"case": c, "observed": r, "detail": w, "model_theorem": "SplinkVerif.C12.connected_counter_ties"},
            kind="concrete",
            match_info=mi,
        )
    for c, w, r, mi in other[:3]:
        failure = mi["failure"]

        def still_fails(cand, failure=failure):
            rr = run_impl_safe(cand)
            if "__error__" in rr:
                return failure == "real code raised"
            return any(v.split(":")[0] == failure for v in oracle_verdicts(cand, rr["rows"])) and has_ties(cand) == mi["has_ties"]

        small = shrink(c, still_fails)
        rr = run_impl_safe(small)
        vs = oracle_verdicts(small, rr["rows"]) if "rows" in rr else [f"real code raised {rr.get('__error__')}: {rr.get('text', '')[:200]}"]
        ctx.violation(
            "real output violates C12: " + failure + (" (tie-free input)" if not mi["has_ties"] else ""),
            {"case": small, "observed": rr, "detail": vs or [w], "has_ties": has_ties(small), "original_case_size": len(c["ids"])},
            kind="concrete",
            match_info=dict(mi, has_ties=has_ties(small)),
        )
    if not other:
        if broken:
            c, w, r = broken[0]
            ctx.violation(
                "correspondence OneToOne model <-> one_to_one_clustering no longer checks",
                {"correspondence": "harness/props/c12.py compare(): " + w, "case": c, "observed": r,
                 "disagreeing_cases": len(broken), "searched_cases": ctx.evaluations, "lean": ctx.lean.as_dict()},
                kind="unproved",
            )
        elif lean_broken:
            ctx.violation(
                "Lean obligations for C12 no longer check",
                {"theorems": ctx.lean.as_dict()["undischarged"], "problems": ctx.lean.problems, "build_log_tail": ctx.lean.build_log[-1500:],
                 "searched_cases": ctx.evaluations},
                kind="unproved",
            )
