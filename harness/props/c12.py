"""C12 — single-best-link clusters respect duplicate-free datasets.

Lean: Model/OneToOne.lean mirrors one_to_one_clustering statement by statement, with the two
`row_number()` windows' tie-breaks as explicit oracles; Properties/C12.lean proves partition,
the duplicate-free constraint (all oracles), termination, maximality (tie-free), and that
connectivity FAILS with ties (6-node witness, finding K4).
Tie: this correspondence check runs `linker.clustering.cluster_using_single_best_links` (DuckDB
with 1/4(/16) threads, SQLite) and the compiled model on the same node/edge tables.
* tie-free inputs: the real cluster table and the per-iteration `needs_updating` counts from
  Splink's log must EQUAL the model's; the naive oracle checks partition / constraint /
  connectivity (BFS over kept edges inside the cluster) / maximality on the real output;
* tie-containing inputs: the real output must satisfy partition + constraint and, for <= 7
  records, be one of the tables the model returns under SOME oracle pair (enumerated by the
  driver op `sbl_all`); a disconnected cluster on such an input is the known finding K4.
Presentation (audit round): the same records reach `Linker(...)` in every input form the signature accepts - frames,
lists of dicts / dicts of lists, NAMES of tables already in the database with input_table_aliases equal to / different from /
a permutation of the table names, several tables carrying their own source_dataset column, ONE pre-concatenated table (frame
or name) - with varying dataset names, id types, column names and orders, shapes of the duplicate_free_datasets argument, edge
tables labelled by the caller or by Splink's own predict(), and an earlier call on the same linker.  The oracle identifies
records by a payload column and takes their datasets from the case (never from Splink's labels); that every record's
source_dataset value IS its dataset name is a clause of its own, and all presentations of one tie-free input must return the
same clusters.
"""
from __future__ import annotations

import itertools
import json
import random

from harness import core, graphs

PROP = "C12"
LOGGER = "splink.internals.one_to_one_clustering"
ENTRY = "cluster_using_single_best_links"
K4_FAILURE = "cluster not connected through kept edges"
LABEL_FAILURE = "source_dataset value of a record is not the name of its dataset"
SWEEP_FAILURE = "the same data presented in different input forms gives different clusters"
NAMES = ["a", "b", "c", "d"]
PAY = "pay"  # payload column (the record's index in the case): the oracle identifies records by it, never by Splink's labels
DEFAULT_COLS = {"uid": "unique_id", "sds": "source_dataset"}
# dataset names (they become input_table_aliases / source_dataset values and are spliced into `contains_<name>`)
NAME_POOLS = {
    "a,b,c,d": NAMES,
    "A,B,C,D": ["A", "B", "C", "D"],
    "df_left,df_right,...": ["df_left", "df_right", "df_3", "df_4"],
    "mixed case": ["customers", "Callers", "web_forms", "X1"],
    "one a prefix of another": ["a", "ab", "a_b", "abc"],
}
# how the SAME records are handed to Linker(...):
PER_DATASET_FORMS = [
    "frames",          # one pandas frame per dataset, input_table_aliases = dataset names (the classic form)
    "pylist",          # one list-of-dicts / dict-of-lists per dataset, aliases = dataset names
    "names-same",      # tables already in the database, passed as NAMES (strings); aliases = the table names
    "names-diff",      # tables already in the database under OTHER names (tbl_<j>_<name>), passed as strings; aliases = dataset names
    "names-permuted",  # tables already in the database, named like the datasets but cyclically shifted; aliases = dataset names
]
OWN_COLUMN_FORMS = [
    "own-sds-tables",    # several frames that each carry their own source_dataset column (aliases arbitrary or absent)
    "concat-one-frame",  # ONE pre-concatenated frame carrying source_dataset
    "concat-one-name",   # ONE pre-concatenated table already in the database, passed as its name
]
FORMS = PER_DATASET_FORMS + OWN_COLUMN_FORMS


# --------------------------------------------------------------------------- real code
def _create_table(api, engine: str, frame, name: str, how: str):
    """Put `frame` into the database as table `name` BEFORE the Linker exists (so that it is handed over by name)."""
    if how == "register_table":
        api.register_table(frame, name)
    elif engine == "duckdb":
        api._con.register("__c12_src", frame)
        api._con.execute(f"create table {name} as select * from __c12_src")
        api._con.unregister("__c12_src")
    else:
        frame.to_sql(name, api.con, index=False)


def build_inputs(case: dict, api, node_order):
    """(input_table_or_tables, input_table_aliases) for the case's input form; every record carries its case index in PAY."""
    from harness import impl

    ids, sds = case["ids"], case["sds"]
    cols = {**DEFAULT_COLS, **(case.get("cols") or {})}
    uc, sc = cols["uid"], cols["sds"]
    form = case.get("form", "frames")
    idt = case.get("id_type", "int")
    own = form in OWN_COLUMN_FORMS
    types = {uc: idt, "v": "str", PAY: "int", **({sc: "str"} if own else {})}

    def rows_of(members):
        return [{uc: (str(ids[i]) if idt == "str" else ids[i]), "v": "x", PAY: i, **({sc: sds[i]} if own else {})} for i in members]

    def frame(members, j):
        keys = list(types)
        if case.get("col_order") is not None:  # the tables list the same columns in different orders
            random.Random(case["col_order"] * 31 + j).shuffle(keys)
        return impl.typed_frame(rows_of(members), {c: types[c] for c in keys})

    if form in PER_DATASET_FORMS:
        names = sorted(set(sds))
        if case.get("empty_ds"):
            names.append(case["empty_ds"])  # a dataset without records (an empty input table)
        if case.get("shuffle") is not None:
            random.Random(case["shuffle"] + 1).shuffle(names)  # the order of the input tables is arbitrary
        groups = [[i for i in node_order if sds[i] == nm] for nm in names]
        if form == "frames":
            return [frame(g, j) for j, g in enumerate(groups)], names
        if form == "pylist":
            tabs = []
            for j, g in enumerate(groups):
                rs = rows_of(g)
                tabs.append(rs if j % 2 == 0 else {c: [r[c] for r in rs] for c in types})
            return tabs, names
        k = len(names)
        phys = {"names-same": names, "names-diff": [f"tbl_{j}_{nm}" for j, nm in enumerate(names)],
                "names-permuted": [names[(j + 1) % k] for j in range(k)]}[form]
        for j, g in enumerate(groups):
            _create_table(api, case["engine"], frame(g, j), phys[j], case.get("created_by", "sql"))
        return list(phys), names
    if form == "own-sds-tables":
        split = case["table_split"]
        m = max(split) + 1
        groups = [[i for i in node_order if split[i] == t] for t in range(m)]
        return [frame(g, j) for j, g in enumerate(groups)], ([f"t{j}" for j in range(m)] if case.get("aliases") else None)
    alias = "all_records" if case.get("aliases") else None  # a bare string, as the signature allows
    fr = frame(list(node_order), 0)
    if form == "concat-one-frame":
        return (fr if case.get("bare", True) else [fr]), alias
    _create_table(api, case["engine"], fr, "tbl_all", case.get("created_by", "sql"))
    return ("tbl_all" if case.get("bare", True) else ["tbl_all"]), alias


def threshold_kw(c: dict) -> dict:
    if c.get("thr_kind") == "none":
        return {}  # both thresholds left at their default None
    return {"threshold_match_weight" if c.get("thr_kind") == "weight" else "threshold_match_probability": c["thr"]}


def run_impl(case: dict) -> dict:
    """Run the real Splink code on one case; returns (record index, record index of the cluster id) rows, the
    (record index, source_dataset label) pairs and the iteration trace.  Records are identified by their payload column."""
    import logging

    import splink.comparison_library as cl
    from splink import Linker, SettingsCreator

    from harness import impl

    api = impl.make_api(case["engine"], threads=case.get("threads", 2))
    ids, sds = case["ids"], case["sds"]
    n = len(ids)
    cols = {**DEFAULT_COLS, **(case.get("cols") or {})}
    uc, sc = cols["uid"], cols["sds"]
    idt = case.get("id_type", "int")
    node_order = list(range(n))
    edges = list(case["edges"])
    if case.get("shuffle") is not None:  # corpus cases may pin the row order (tie-breaks depend on it)
        rng = random.Random(case["shuffle"])
        rng.shuffle(node_order)
        rng.shuffle(edges)
    tables, aliases = build_inputs(case, api, node_order)
    from_predict = case.get("edge_labels") == "predict"
    extra = {}
    if cols != DEFAULT_COLS:
        extra = {"unique_id_column_name": uc, "source_dataset_column_name": sc}
    settings = SettingsCreator(
        link_type=case.get("link_type", "link_and_dedupe"),
        comparisons=[cl.ExactMatch("v")] if from_predict else [],
        blocking_rules_to_generate_predictions=["1=1"] if from_predict else [],
        additional_columns_to_retain=[PAY], **extra)
    linker = Linker(tables, settings, api, input_table_aliases=aliases)
    # how a record is named in the edge table: by the dataset names the caller declared, or exactly as Splink's own predict() names it
    label = {i: (sds[i], str(ids[i]) if idt == "str" else ids[i]) for i in range(n)}
    if from_predict:
        old = logging.root.manager.disable
        logging.disable(logging.CRITICAL)
        try:
            pairs = linker.inference.predict().as_record_dict()
        finally:
            logging.disable(old)
        for r in pairs:
            for side in "lr":
                if r.get(f"{PAY}_{side}") is not None:
                    label[int(r[f"{PAY}_{side}"])] = (r[f"{sc}_{side}"], r[f"{uc}_{side}"])
    erows = [
        {f"{sc}_l": label[a][0], f"{uc}_l": label[a][1], f"{sc}_r": label[b][0], f"{uc}_r": label[b][1], "match_probability": p}
        for a, b, p in edges
    ]
    types = {f"{sc}_l": "str", f"{uc}_l": idt, f"{sc}_r": "str", f"{uc}_r": idt, "match_probability": "float"}
    df_predict = linker.table_management.register_table_predict(impl.typed_frame(erows, types), overwrite=True)

    def dupfree_arg(c):
        return tuple(c["dupfree"]) if case.get("dupfree_as") == "tuple" else list(c["dupfree"])

    if case.get("warmup"):  # an earlier call on the same linker with other arguments (its intermediate tables must not leak)
        w = case["warmup"]
        old = logging.root.manager.disable
        logging.disable(logging.CRITICAL)
        try:
            linker.clustering.cluster_using_single_best_links(df_predict, duplicate_free_datasets=dupfree_arg(w), **threshold_kw(w)).as_record_dict()
        finally:
            logging.disable(old)
    with impl.capture_log(LOGGER) as msgs:
        out = linker.clustering.cluster_using_single_best_links(df_predict, duplicate_free_datasets=dupfree_arg(case), **threshold_kw(case))
        rows = out.as_record_dict()

    def idx(x):
        return int(x) if isinstance(x, (int, float)) and x == x and 0 <= int(x) < n else -1

    comp: dict[str, int] = {}
    for r in rows:  # composite id -> record, read off the OUTPUT's own columns (whatever labels Splink gave)
        k = f"{r.get(sc)}{impl.SEP}{r.get(uc)}"
        comp[k] = -1 if k in comp else idx(r.get(PAY))
    res = [(idx(r.get(PAY)), comp.get(str(r.get("cluster_id")), -1)) for r in rows]
    labels = [(idx(r.get(PAY)), r.get(sc)) for r in rows]
    return {"rows": sorted(res), "labels": sorted(labels, key=str), "trace": impl.cc_trace(msgs)}


run_impl_safe = core.safe(run_impl)


# --------------------------------------------------------------------------- model side
def threshold_prob(case: dict) -> float:
    """`threshold_args_to_match_prob`: a weight w is the probability 2^w / (1 + 2^w)."""
    if case.get("thr_kind") == "weight":
        bf = 2.0 ** case["thr"]
        return bf / (1.0 + bf)
    if case.get("thr_kind") == "none":
        return 0.0  # no threshold given: every edge is kept (probabilities are non-negative)
    return float(case["thr"])


def node_keys(case: dict) -> list[str]:
    return [f"{case['sds'][i]}-__-{case['ids'][i]}" for i in range(len(case["ids"]))]


def model_request(case: dict, op: str = "sbl") -> tuple[dict, list[int]]:
    keys = node_keys(case)
    order = sorted(range(len(keys)), key=lambda i: keys[i])  # order[rank] = node index
    rank = [0] * len(keys)
    for r, i in enumerate(order):
        rank[i] = r
    names = sorted(set(case["sds"]) | set(case["dupfree"]))
    dsi = {nm: k for k, nm in enumerate(names)}
    req = {
        "op": op,
        "n": len(keys),
        "ds": [dsi[case["sds"][order[r]]] for r in range(len(keys))],
        "dupfree": sorted({dsi[d] for d in case["dupfree"]}),  # the argument may repeat a name
        "edges": [[rank[a], rank[b], core.f2b(p)] for a, b, p in case["edges"]],
        "thr": core.f2b(threshold_prob(case)),
    }
    if op == "sbl_all":
        req["cap"] = 300
    return req, order


# --------------------------------------------------------------------------- naive oracle
def kept_edges(case: dict):
    t = threshold_prob(case)
    return [(a, b, p) for a, b, p in case["edges"] if p >= t]


def has_ties(case: dict) -> bool:
    """Two kept edges (self loops aside: they never join anything) with the same probability."""
    ps = [p for a, b, p in kept_edges(case) if a != b]
    return len(ps) != len(set(ps))


def is_threshold_fragile(case: dict) -> bool:
    if case.get("thr_kind") != "weight":
        return False
    t = threshold_prob(case)
    return any(p != t and abs(p - t) <= 1e-12 for _, _, p in case["edges"])


def oracle_verdicts(case: dict, rows, labels=None) -> list[str]:
    """Every clause of C12 the real output breaks on this case (empty list = property holds).
    Maximality is only demanded of tie-free inputs (the property's wording).  Records are the case's indices (read from the
    payload column of the output), their datasets are the case's `sds` (the names the caller gave: input_table_aliases or the
    tables' own source_dataset column) - not whatever Splink wrote into source_dataset, which is checked as a clause of its own."""
    n = len(case["ids"])
    out = []
    seen = sorted(i for i, _ in rows)
    if seen != list(range(n)):
        return [f"records not returned exactly once: got node indices {seen} for {n} records"]
    if labels is not None:
        bad = [(i, lab, case["sds"][i]) for i, lab in labels if 0 <= i < n and lab != case["sds"][i]]
        if bad:
            i, lab, want = bad[0]
            out.append(f"{LABEL_FAILURE}: record {i} (dataset {want!r}, id {case['ids'][i]}) is labelled {lab!r}; {len(bad)} of {n} records mislabelled "
                       f"(duplicate_free_datasets={list(case['dupfree'])} names datasets, so the constraint cannot apply to them)")
    cl = dict(rows)
    members: dict[int, list[int]] = {}
    for i in range(n):
        members.setdefault(cl[i], []).append(i)
    dup = set(case["dupfree"])
    for c, mem in sorted(members.items()):
        got = [case["sds"][i] for i in mem if case["sds"][i] in dup]
        if len(got) != len(set(got)):
            out.append(f"cluster holds two records of a duplicate-free dataset: cluster {c} members {mem} datasets {[case['sds'][i] for i in mem]}")
            break
    adj = {i: set() for i in range(n)}
    for a, b, _ in kept_edges(case):
        adj[a].add(b)
        adj[b].add(a)
    for c, mem in sorted(members.items()):
        inside = set(mem)
        reach, todo = {mem[0]}, [mem[0]]
        while todo:
            x = todo.pop()
            for y in adj[x]:
                if y in inside and y not in reach:
                    reach.add(y)
                    todo.append(y)
        if reach != inside:
            out.append(f"{K4_FAILURE}: cluster {c} members {mem}, reachable from {mem[0]} inside the cluster: {sorted(reach)}")
            break
    if not has_ties(case):
        for a, b, p in kept_edges(case):
            if cl[a] != cl[b]:
                da = {case["sds"][i] for i in members[cl[a]]} & dup
                db = {case["sds"][i] for i in members[cl[b]]} & dup
                if not (da & db):
                    out.append(f"not maximal on a tie-free input: kept edge {a}-{b} (p={p}) joins clusters {cl[a]} and {cl[b]} that share no duplicate-free dataset")
                    break
    return out


# --------------------------------------------------------------------------- generators
def make_nodes(rng: random.Random, n: int, k: int):
    """n records over exactly k datasets (each non-empty), unique ids overlapping across datasets."""
    names = NAMES[:k]
    sds = names + [rng.choice(names) for _ in range(n - k)]
    rng.shuffle(sds)
    pool = list(range(0, max(3, n)))
    used, ids = set(), []
    for i in range(n):
        cand = [x for x in pool if (sds[i], x) not in used]
        x = rng.choice(cand)
        used.add((sds[i], x))
        ids.append(x)
    return sds, ids


def all_subsets(names):
    return [list(c) for r in range(1, len(names) + 1) for c in itertools.combinations(names, r)]


def finish_case(rng: random.Random, sds, ids, edges, dupfree, thr, thr_kind, engine, tag, threads=None):
    edges = [((b, a, p) if rng.random() < 0.5 else (a, b, p)) for a, b, p in edges]  # orientation is arbitrary
    return {
        "sds": sds, "ids": ids, "edges": edges, "dupfree": dupfree, "thr": thr, "thr_kind": thr_kind, "engine": engine,
        "threads": threads if threads is not None else rng.choice([1, 4]), "shuffle": rng.randrange(1 << 30),
        "link_type": rng.choice(["link_and_dedupe", "link_only"]), "tag": tag,
    }


def pick_threshold(rng: random.Random, probs):
    r = rng.random()
    ps = sorted(set(probs))
    if ps and r < 0.36:
        return rng.choice(ps), "prob"  # exactly on an edge probability (>= keeps it)
    if r < 0.48:
        return 0.0, "prob"
    if r < 0.52:
        return 0, "prob"  # the integer 0: given, but falsy
    if r < 0.56:
        return 1.0, "prob"  # keeps only edges of probability 1
    if r < 0.58:
        return 1, "prob"
    if r < 0.84:
        return round(rng.uniform(0.05, 0.9), 3), "prob"
    if r < 0.88:
        return 0, "weight"  # weight 0 = probability 0.5 (given, but falsy)
    return round(rng.uniform(-4, 4), 2), "weight"


# --------------------------------------------------------------------------- presentation of a case (input forms)
def rename_datasets(case: dict, pool_name: str) -> dict:
    m = dict(zip(NAMES, NAME_POOLS[pool_name]))
    c = dict(case)
    c["sds"] = [m[x] for x in case["sds"]]
    c["dupfree"] = [m[x] for x in case["dupfree"]]
    c["names"] = pool_name
    return c


def present(rng: random.Random, case: dict, form: str | None = None, edge_labels: str | None = None, pool: str | None = None) -> dict:
    """The same records / edges / subset in another PRESENTATION: input form of the linker, dataset names, id type, column
    names and orders, the shape of the duplicate_free_datasets argument, an earlier call on the same linker.
    `case` must still use the dataset names a, b, c, d."""
    c = rename_datasets(case, pool or rng.choice(list(NAME_POOLS)))
    pool_names = NAME_POOLS[c["names"]]
    form = form or rng.choice(FORMS)
    c["form"] = form
    c["edge_labels"] = edge_labels or rng.choice(["declared", "predict"])
    c["id_type"] = rng.choice(["int", "int", "str"])
    if rng.random() < 0.3:
        c["cols"] = {"uid": "rid", "sds": "src"}  # unique_id_column_name / source_dataset_column_name of the settings
    if rng.random() < 0.4:
        c["col_order"] = rng.randrange(1000)
    c["created_by"] = rng.choice(["sql", "register_table"])
    c["aliases"] = rng.random() < 0.5
    c["bare"] = rng.random() < 0.5
    n = len(c["ids"])
    if form == "own-sds-tables":
        if rng.random() < 0.5:  # one table per dataset ...
            order = sorted(set(c["sds"]))
            c["table_split"] = [order.index(x) for x in c["sds"]]
        else:  # ... or the records spread over 2-3 tables regardless of their dataset
            m = rng.randint(2, min(3, n))
            split = list(range(m)) + [rng.randrange(m) for _ in range(n - m)]
            rng.shuffle(split)
            c["table_split"] = split
    # the duplicate_free_datasets argument: order, container, a repeated name, a dataset without records
    dup = list(c["dupfree"])
    rng.shuffle(dup)
    absent = [x for x in pool_names if x not in set(c["sds"])]
    r = rng.random()
    if r < 0.12:
        dup.insert(rng.randrange(len(dup) + 1), rng.choice(dup))
    elif r < 0.3 and absent:
        nm = rng.choice(absent)
        dup.insert(rng.randrange(len(dup) + 1), nm)
        if form in PER_DATASET_FORMS and form != "pylist" and rng.random() < 0.6:
            c["empty_ds"] = nm  # ... that is an (empty) input table of its own
    c["dupfree"] = dup
    c["dupfree_as"] = rng.choice(["list", "list", "tuple"])
    if rng.random() < 0.12:
        others = [d for d in all_subsets(sorted(set(c["sds"]))) if sorted(d) != sorted(set(c["dupfree"]))]
        c["warmup"] = {"dupfree": rng.choice(others), "thr": rng.choice([0.0, 0.5, c["thr"] if c["thr_kind"] == "prob" else 0.3]),
                       "thr_kind": "prob"}
    return c


def gen_tiefree(rng: random.Random, nmax: int, engine: str, dupfree_cycle, threads=None):
    n = rng.randint(3, nmax)
    k = rng.randint(2, min(4, n))
    sds, ids = make_nodes(rng, n, k)
    pairs = [(a, b) for a in range(n) for b in range(a + 1, n)]
    fam = rng.choice(["dense", "gnp", "gnp", "bip"])
    if fam == "bip":  # only cross-dataset edges, the shape predict() of link_only produces
        pairs = [(a, b) for a, b in pairs if sds[a] != sds[b]] or pairs
    m = min(len(pairs), rng.randint(1, {"dense": 3 * n, "gnp": 2 * n, "bip": 2 * n}[fam]))
    chosen = rng.sample(pairs, m)
    grid = rng.sample(range(1, 1000), m)  # pairwise distinct probabilities
    if rng.random() < 0.12:
        grid[grid.index(max(grid))] = 1000  # probability exactly 1
    if rng.random() < 0.12:
        grid[grid.index(min(grid))] = 0  # probability exactly 0 (kept by a threshold of 0)
    edges = [(a, b, g / 1000.0) for (a, b), g in zip(chosen, grid)]
    if rng.random() < 0.15:
        v = rng.randrange(n)
        edges.append((v, v, 0.9995))  # self loop (distinct probability)
    subs = all_subsets(NAMES[:k])
    dupfree = subs[next(dupfree_cycle) % len(subs)]
    thr, kind = pick_threshold(rng, [p for _, _, p in edges])
    return finish_case(rng, sds, ids, edges, dupfree, thr, kind, engine, f"tiefree-{fam}", threads)


def gen_tied(rng: random.Random, nmax: int, engine: str, dupfree_cycle, threads=None):
    n = rng.randint(3, nmax)
    k = rng.randint(2, min(4, n))
    sds, ids = make_nodes(rng, n, k)
    pairs = [(a, b) for a in range(n) for b in range(a + 1, n)]
    m = min(len(pairs), rng.randint(2, 2 * n))
    chosen = rng.sample(pairs, m)
    levels = rng.sample([0.6, 0.7, 0.8, 0.9, 0.95], rng.randint(1, 3))
    edges = [(a, b, rng.choice(levels)) for a, b in chosen]
    extra = []
    for a, b, p in edges:
        r = rng.random()
        if r < 0.1:
            extra.append((a, b, p))  # duplicate row
        elif r < 0.2:
            extra.append((b, a, p))  # reversed duplicate
    edges += extra
    subs = all_subsets(NAMES[:k])
    dupfree = subs[next(dupfree_cycle) % len(subs)]
    thr = rng.choice([0.5, min(levels), sorted(levels)[len(levels) // 2]])
    return finish_case(rng, sds, ids, edges, dupfree, thr, "prob", engine, "tied", threads)


def gen_k4like(rng: random.Random, engine: str, threads=None):
    """The shape of the K4 witness: 6-7 records over two datasets, ONE of them duplicate-free, 8-10 edges over
    three probability levels, threshold below all of them (this family hits disconnected clusters at random)."""
    n = rng.randint(6, 7)
    sds, ids = make_nodes(rng, n, 2)
    pairs = [(a, b) for a in range(n) for b in range(a + 1, n)]
    chosen = rng.sample(pairs, min(len(pairs), rng.randint(8, 10)))
    edges = [(a, b, rng.choice([0.6, 0.7, 0.8])) for a, b in chosen]
    return finish_case(rng, sds, ids, edges, [rng.choice(["a", "b"])], 0.5, "prob", engine, "tied-k4like", threads)


def gen_exhaustive(rng: random.Random, count: int):
    """Every labelled graph on 4 records x dataset layouts x every non-empty duplicate-free subset, tie-free
    (a random bijection of edges to probabilities); `count` of them drawn without replacement."""
    layouts = [["a", "a", "b", "b"], ["a", "b", "a", "b"], ["a", "b", "b", "a"], ["a", "a", "a", "b"], ["a", "b", "c", "a"], ["a", "b", "c", "c"]]
    space = []
    for gi, g in enumerate(graphs.all_graphs(4)):
        if not g:
            continue
        for li, lay in enumerate(layouts):
            for sub in all_subsets(sorted(set(lay))):
                space.append((g, lay, sub))
    rng.shuffle(space)
    out = []
    for g, lay, sub in space[:count]:
        ps = rng.sample([0.55, 0.6, 0.65, 0.7, 0.75, 0.8, 0.85, 0.9], len(g))
        edges = [(a, b, p) for (a, b), p in zip(g, ps)]
        ids = rng.sample(range(0, 6), 4)
        out.append(finish_case(rng, list(lay), ids, edges, sub, rng.choice([0.5, sorted(ps)[0], sorted(ps)[len(ps) // 2]]), "prob",
                               rng.choice(["duckdb", "sqlite"]), "exh4"))
    return out, len(space)


_DUCK_LIT: dict = {}


def literal_exact(engine: str, x: float) -> bool:
    """Does the engine read the decimal literal repr(x) as the double x?  Splink inlines thresholds as text.  DuckDB types a
    literal of <= 18 digits DECIMAL and converts it to DOUBLE inexactly (about 6% of 17-digit literals arrive one ulp off, none
    of <= 6 digits; design_probes/audit_c12_2.py); SQLite 3.40 has the same quirk for a few literals (core.sqlite_literal_exact).
    Both are engine behaviour (trusted base), so a threshold meant to lie exactly ON an edge probability is drawn among the
    values the engine reads exactly."""
    if engine == "sqlite":
        return core.sqlite_literal_exact(x)
    key = repr(float(x))
    if key not in _DUCK_LIT:
        import duckdb

        con = duckdb.connect()
        try:
            _DUCK_LIT[key] = bool(con.execute(f"select {key} = ?", [float(x)]).fetchone()[0])
        finally:
            con.close()
    return _DUCK_LIT[key]


def gen_fine(rng: random.Random, engine: str, dupfree_cycle):
    """Tie-free inputs whose probabilities differ only from the 8th decimal on, threshold exactly on one of them or between
    two neighbours: the threshold must reach the SQL with all its digits."""
    n = rng.randint(3, 8)
    k = rng.randint(2, min(4, n))
    sds, ids = make_nodes(rng, n, k)
    pairs = [(a, b) for a in range(n) for b in range(a + 1, n)]
    chosen = rng.sample(pairs, min(len(pairs), rng.randint(2, 2 * n)))
    base = rng.choice([0.5, 0.9, 0.123456, 0.75])
    steps = rng.sample(range(1, 400), len(chosen))
    edges = [(a, b, base + st * 1e-9) for (a, b), st in zip(chosen, steps)]
    ps = sorted(p for _, _, p in edges)
    j = rng.randrange(len(ps))
    resampled = False
    if rng.random() < 0.6:
        thr = ps[j]  # exactly on an edge probability ...
        if not literal_exact(engine, thr):  # ... that the engine must read exactly (see literal_exact)
            exact = [p for p in ps if literal_exact(engine, p)]
            thr, resampled = (rng.choice(exact) if exact else (ps[0] + ps[1]) / 2), True
    else:  # between two neighbours (one ulp more or less is immaterial there)
        thr = (ps[j] + (ps[j + 1] if j + 1 < len(ps) else ps[j] + 2e-9)) / 2
    subs = all_subsets(NAMES[:k])
    c = finish_case(rng, sds, ids, edges, subs[next(dupfree_cycle) % len(subs)], thr, "prob", engine, "tiefree-fine")
    c["literal_resampled"] = resampled
    return c


def gen_formsweeps(rng: random.Random, count: int, dupfree_cycle):
    """`count` tie-free bases, each presented in EVERY input form (edge labels alternately declared / taken from predict(),
    engines and the other presentation options varying): all presentations of a base must return the same clusters."""
    out = []
    for sid in range(count):
        base = gen_tiefree(rng, 8, "duckdb", dupfree_cycle)
        base["tag"] = "formsweep"
        pool = rng.choice(list(NAME_POOLS))
        for j, form in enumerate(FORMS):
            c = present(rng, base, form=form, edge_labels=["declared", "predict"][(sid + j) % 2], pool=pool)
            c["engine"] = rng.choice(["duckdb", "sqlite"])
            c["threads"] = rng.choice([1, 4])
            c["sweep"] = sid
            out.append(c)
    return out


def gen_cases(ctx: core.Ctx) -> list[dict]:
    rng = ctx.rng
    cyc = itertools.count(rng.randrange(1000))
    cases = []

    def eng():
        return rng.choice(["duckdb", "duckdb", "sqlite"])

    exh, space = gen_exhaustive(rng, ctx.budget(150, 2000))
    ctx.extra_cov["exhaustive_space_4_records"] = {"size": space, "drawn_this_run": len(exh)}
    ctx.exhaustive = len(exh) == space  # thorough: the whole 4-record space is enumerated
    cases += exh
    for _ in range(ctx.budget(260, 3000)):
        cases.append(gen_tiefree(rng, 30 if ctx.thorough else 12, eng(), cyc))
    for _ in range(ctx.budget(170, 2000)):
        cases.append(gen_tied(rng, 7, eng(), cyc))
    for _ in range(ctx.budget(40, 500)):
        cases.append(gen_tied(rng, 14, eng(), cyc))
    for _ in range(ctx.budget(80, 800)):
        cases.append(gen_k4like(rng, eng()))
    if ctx.thorough:
        for _ in range(300):
            cases.append(gen_tiefree(rng, 12, "duckdb", cyc, threads=16))
        for _ in range(300):
            cases.append(gen_tied(rng, 7, "duckdb", cyc, threads=16))
    for _ in range(ctx.budget(30, 300)):
        cases.append(gen_fine(rng, eng(), cyc))
    # half of the cases above keep the classic presentation (frames, aliases = a..d, int ids, default column names, edges
    # labelled by the caller); the other half is re-presented in a random input form
    cases = [present(rng, c) if rng.random() < 0.5 else c for c in cases]
    cases += gen_formsweeps(rng, ctx.budget(12, 100), cyc)
    # both thresholds left at their default None (the signature's defaults)
    for _ in range(ctx.budget(6, 40)):
        c = gen_tiefree(rng, 7, eng(), cyc)
        c.update(thr=None, thr_kind="none", tag="tiefree-no-threshold")
        cases.append(c if rng.random() < 0.5 else present(rng, c))
    return cases


# --------------------------------------------------------------------------- comparison
PRESENTATION_KEYS = ("form", "edge_labels", "id_type", "cols", "col_order", "created_by", "aliases", "bare", "table_split", "empty_ds",
                     "dupfree_as", "warmup", "link_type")


def canon(case: dict):
    d = {k: case[k] for k in ("sds", "ids", "edges", "dupfree", "thr", "thr_kind", "engine", "threads")}
    d.update({k: case[k] for k in PRESENTATION_KEYS if case.get(k) is not None and "form" in case})
    return d


def compare(ctx: core.Ctx, cases: list[dict], drv: core.Driver):
    """Run impl + model on all cases; returns list of (case, problem, concrete?, impl result, match_info)."""
    reqs, orders = [], []
    for c in cases:
        r, o = model_request(c)
        reqs.append(r)
        orders.append(o)
    res = core.pmap(run_impl_safe, cases, chunksize=4)
    mres = drv.pbatch(reqs)
    # tied inputs with <= 7 records: all outputs of the model over all oracle pairs
    tied_small = [i for i, c in enumerate(cases) if has_ties(c) and len(c["ids"]) <= 7]
    allres = dict(zip(tied_small, drv.pbatch([model_request(cases[i], "sbl_all")[0] for i in tied_small])))
    problems = []
    sql_items = []  # tie-free cases for the translation validation of the regenerated SQL (c12_sql)
    for idx, (c, order, r, m) in enumerate(zip(cases, orders, res, mres)):
        n = len(c["ids"])
        ties = has_ties(c)
        kept = kept_edges(c)
        nontrivial = len([1 for a, b, _ in kept if a != b]) >= 2
        ctx.case(canon(c), nontrivial,
                 sample={"case": {k: c[k] for k in c if k != "shuffle"}, "has_ties": ties,
                         "impl_rows": r.get("rows") if isinstance(r, dict) else None, "impl_trace": r.get("trace") if isinstance(r, dict) else None} if n <= 8 else None)
        ctx.count("family", c["tag"])
        ctx.count("engine", f"{c['engine']}/threads={c['threads']}" if c["engine"] == "duckdb" else c["engine"])
        ctx.count("n_records", "3-4" if n <= 4 else "5-7" if n <= 7 else "8-12" if n <= 12 else ">12")
        ctx.count("n_datasets", len(set(c["sds"])))
        ctx.count("dupfree_subset", f"{len(set(c['dupfree']) & set(c['sds']))} of {len(set(c['sds']))}")
        ctx.count("threshold", "both thresholds left at None" if c["thr_kind"] == "none" else
                  "on an edge probability" if any(p == threshold_prob(c) for _, _, p in c["edges"]) else c["thr_kind"])
        if c["thr_kind"] != "none":
            ctx.count("threshold_boundary_value", "int 0" if c["thr"] == 0 and isinstance(c["thr"], int) else "int 1" if c["thr"] == 1 and isinstance(c["thr"], int)
                      else "0.0" if c["thr"] == 0 else "1.0" if c["thr"] == 1 and c["thr_kind"] == "prob" else "needs > 6 decimals" if round(c["thr"], 6) != c["thr"] else "other")
        ctx.count("edge_probability_extremes", "/".join(x for x, on in (("has p=0", any(p == 0 for _, _, p in c["edges"])), ("has p=1", any(p == 1 for _, _, p in c["edges"]))) if on) or "neither")
        ctx.count("ties", "tie-containing" if ties else "tie-free")
        ctx.count("link_type", c["link_type"])
        if c.get("literal_resampled"):
            ctx.count("excluded", "fine-grained threshold on an edge probability whose decimal literal the engine reads one ulp off: another edge probability drawn")
        form = c.get("form", "frames")
        ctx.count("input_form", form + (" (classic)" if "form" not in c else ""))
        if form.startswith("names-") or form == "concat-one-name":
            ctx.count("tables_passed_by_name_created_by", c.get("created_by", "sql"))
        if form in OWN_COLUMN_FORMS:
            ctx.count("input_table_aliases_with_own_source_dataset_column", "given" if c.get("aliases") else "None")
        if form == "own-sds-tables":
            ctx.count("own_column_tables", "one table per dataset" if len(set(zip(c["table_split"], c["sds"]))) == len(set(c["sds"])) else "datasets spread over the tables")
        ctx.count("edge_labels", c.get("edge_labels", "declared") + (" (labels of the library's own predict())" if c.get("edge_labels") == "predict" else " (by the caller, = dataset names)"))
        ctx.count("dataset_names", c.get("names", "a,b,c,d"))
        ctx.count("id_type", c.get("id_type", "int"))
        ctx.count("column_names", "rid / src (settings)" if c.get("cols") else "unique_id / source_dataset")
        ctx.count("column_order", "differs between tables" if c.get("col_order") is not None else "same")
        ctx.count("dupfree_argument", ("tuple" if c.get("dupfree_as") == "tuple" else "list") + (", a name repeated" if len(c["dupfree"]) != len(set(c["dupfree"])) else "")
                  + (", names an empty input table" if c.get("empty_ds") else ", names a dataset without records" if set(c["dupfree"]) - set(c["sds"]) else ""))
        ctx.count("earlier_call_on_same_linker", "yes" if c.get("warmup") else "no")
        if core.impl_error(r):
            ctx.count("impl_error", r["__error__"] + (" (both thresholds None)" if c["thr_kind"] == "none" else ""))
            fail = "real code raised" + (" with both thresholds left at their default None" if c["thr_kind"] == "none" else "")
            problems.append((c, f"{fail} {r['__error__']}: {r['text'][:300]}", True, r, {"failure": fail, "entry": ENTRY, "has_ties": ties}))
            continue
        if "error" in m:
            raise RuntimeError(f"model driver error: {m['error']}")
        if not m["done"]:
            raise RuntimeError("model ran out of fuel (contradicts theorem C12.terminates)")
        if is_threshold_fragile(c):
            ctx.count("excluded", "weight threshold within 1e-12 of an edge probability")
            continue
        ctx.count("iterations", len(r["trace"]) if len(r["trace"]) < 7 else ">=7")
        verdicts = oracle_verdicts(c, r["rows"], r.get("labels"))
        conc = False
        for v in verdicts:
            failure = v.split(":")[0]
            problems.append((c, v, True, r, {"failure": failure, "entry": ENTRY, "has_ties": ties}))
            conc = True
        ctx.count("oracle", "holds" if not verdicts else "; ".join(v.split(":")[0] for v in verdicts))
        if conc and any(not v.startswith(K4_FAILURE) or not ties for v in verdicts):
            continue
        # model output is in rank space
        mrows = sorted((order[a], order[rep]) for a, rep in enumerate(m["rep"]))
        if not ties and not verdicts:
            sql_items.append((c, order, r, None if c["thr_kind"] == "none" else threshold_prob(c)))
        if not ties:
            if mrows != r["rows"]:
                problems.append((c, f"tie-free input: cluster table differs from Lean model OneToOne.cluster: impl {r['rows']} model {mrows}", False, r, None))
                continue
            if m["trace"] != r["trace"]:
                problems.append((c, f"tie-free input: per-iteration needs_updating counts differ from Lean model OneToOne.trace: impl {r['trace'][:12]} model {m['trace'][:12]}", False, r, None))
                continue
            ctx.traces_validated += 1
            ctx.count("correspondence", "tie-free: table and trace equal the model's")
        elif idx in allres:
            a = allres[idx]
            if "error" in a:
                raise RuntimeError(f"model driver error: {a['error']}")
            if a.get("overflow"):
                ctx.count("excluded", "tied input whose all-oracles enumeration exceeds its budget (> 300 tie-break combinations of one window in a pass, or > 300 reachable tables): membership not tested, invariants still checked")
                continue
            outs = {tuple(sorted((order[v], order[rep]) for v, rep in enumerate(o))) for o in a["outs"]}
            ctx.count("model_outputs_over_all_oracles", len(outs) if len(outs) < 6 else ">=6")
            if tuple(r["rows"]) not in outs:
                problems.append((c, f"tie-containing input: real cluster table {r['rows']} is none of the {len(outs)} tables the Lean model returns over all oracle pairs", False, r, None))
                continue
            ctx.count("correspondence", "tied: table is one of the model's outputs over all oracle pairs")
        else:
            ctx.count("correspondence", "tied, > 7 records: invariants only")
    from harness.props import c12_sql

    problems += c12_sql.validate(ctx, sql_items, drv)
    # the same (tie-free) data in every input form: one cluster table
    sweeps: dict[int, list[int]] = {}
    for idx, c in enumerate(cases):
        if c.get("sweep") is not None and isinstance(res[idx], dict) and "rows" in res[idx]:
            sweeps.setdefault(c["sweep"], []).append(idx)
    for sid, idxs in sorted(sweeps.items()):
        tables = {json.dumps(res[i]["rows"]) for i in idxs}
        ctx.count("form_sweeps", f"all {len(idxs)} presentations agree" if len(tables) == 1 else "presentations DISAGREE")
        if len(tables) > 1:
            first = idxs[0]
            other = next(i for i in idxs if res[i]["rows"] != res[first]["rows"])
            problems.append((cases[other], f"{SWEEP_FAILURE}: form {cases[first].get('form')} ({cases[first]['engine']}) gives {res[first]['rows']}, form "
                             f"{cases[other].get('form')} ({cases[other]['engine']}) gives {res[other]['rows']}", True, res[other],
                             {"failure": SWEEP_FAILURE, "entry": ENTRY, "has_ties": False, "no_shrink": True, "other_case": cases[first]}))
    return problems


def shrink(case: dict, still_fails) -> dict:
    """Greedy delta-debugging over edges then unused records (bounded)."""
    cur = dict(case)
    budget = 60
    changed = True
    while changed and budget > 0:
        changed = False
        for k in range(len(cur["edges"]) - 1, -1, -1):
            if budget <= 0:
                break
            cand = dict(cur)
            cand["edges"] = cur["edges"][:k] + cur["edges"][k + 1:]
            budget -= 1
            if still_fails(cand):
                cur, changed = cand, True
        used = {a for a, _, _ in cur["edges"]} | {b for _, b, _ in cur["edges"]}
        for v in range(len(cur["ids"]) - 1, -1, -1):
            if v in used or budget <= 0:
                continue
            sds2 = cur["sds"][:v] + cur["sds"][v + 1:]
            if len(set(sds2)) < 2:
                continue
            cand = dict(cur)
            cand["ids"] = cur["ids"][:v] + cur["ids"][v + 1:]
            cand["sds"] = sds2
            if cur.get("table_split") is not None:
                ts = cur["table_split"][:v] + cur["table_split"][v + 1:]
                if sorted(set(ts)) != list(range(max(ts) + 1)):
                    continue  # would leave one of the own-column tables empty
                cand["table_split"] = ts
            cand["edges"] = [(a - (a > v), b - (b > v), p) for a, b, p in cur["edges"]]
            budget -= 1
            if still_fails(cand):
                cur, changed = cand, True
                break
    return cur


def load_case(d: dict) -> dict:
    d = dict(d)
    d["edges"] = [tuple(e) for e in d["edges"]]
    return d


# --------------------------------------------------------------------------- entry
def run(ctx: core.Ctx):
    ctx.rule = (
        "cases = corpus (the 6-record tie witness K4) + a random sample of the finite space {every non-empty labelled graph on 4 records} x "
        "{6 dataset layouts over 2-3 datasets} x {every non-empty duplicate-free subset} with a random bijection edges->probabilities + random "
        "tie-free inputs (3-12 records, 30 in thorough; 2-4 datasets each non-empty; dense / G(n,p) / cross-dataset-only edges; pairwise "
        "distinct probabilities; optional self loop) + tie-heavy inputs (1-3 distinct probabilities, duplicate and reversed rows; <= 7 records "
        "for the all-oracles membership test, <= 14 for the invariants); the duplicate-free subset cycles through every non-empty subset of the "
        "datasets; thresholds equal to an edge probability / 0 / random / match weight; every edge randomly oriented; node and edge rows "
        "shuffled; link_only and link_and_dedupe; engines duckdb (1/4 threads; 16 in thorough) + sqlite; unique ids overlap across datasets; "
        "+ tie-free inputs whose probabilities differ from the 8th decimal on (threshold on / between them); probabilities exactly 0 and 1; thresholds "
        "0.0 / int 0 / 1.0 / int 1 / weight 0 / both thresholds left at None.  Half of all cases are RE-PRESENTED: input form of the linker (frames; "
        "lists of dicts / dicts of lists; names of existing tables with aliases equal to / different from / a cyclic shift of the table names, the "
        "tables made by SQL or by db_api.register_table; several tables with their own source_dataset column, one per dataset or datasets spread "
        "over them, aliases given or None; one pre-concatenated frame or table name, bare or in a list, alias a bare string or None), 5 pools of "
        "dataset names (upper / mixed case, underscores and digits, one a prefix of another), int / str ids, custom unique_id / source_dataset "
        "column names, per-table column orders, the order of the input tables, duplicate_free_datasets as list / tuple, shuffled, with a repeated "
        "name, naming a dataset without records or an empty input table, edge labels as declared by the caller or as returned by the library's "
        "predict() (joined back by a payload column), an earlier call with other arguments on the same linker; + form sweeps: a tie-free base in "
        "every one of the 8 input forms (engines varying) must give one cluster table. "
        "non-trivial = at least two kept non-loop edges; distinct = hash of (records, edges, subset, threshold, engine, threads)."
    )
    ctx.assumptions = [
        "edge endpoints are records of the input tables, (source_dataset, unique_id) distinct and non-NULL, match_probability non-NULL in [0,1]",
        "dataset names are SQL-identifier safe (the code splices them into column names `contains_<name>`); duplicate_free_datasets non-empty "
        "(an empty list yields `AND NOT ()`, a loud parser error outside the quantifier)",
        "composite ids map to ranks order-isomorphically (ASCII strings; engine collation = code-point order)",
        "probabilities map to the model's naturals by their IEEE bit pattern (order-isomorphic for non-negative doubles)",
        "SQL semantics of DuckDB/SQLite for joins, GROUP BY, min, row_number() (rank 1 = some row of maximal match_probability in its partition) are trusted",
        "weight thresholds whose probability lies within 1e-12 of an edge probability are excluded (floating point)",
        "which tie-break an engine realises is not modelled: tie-containing inputs are checked against the set of model outputs over all oracle pairs",
        "a record's dataset is the name its caller gave it: the input_table_aliases entry of its table, or the value of the table's own "
        "source_dataset column when the tables carry one; with several tables and no aliases no names are declared, so that form is only generated "
        "for tables with their own column; link_type dedupe_only has no source datasets and is outside the property",
        "the engines read the inlined threshold literal as the caller's double: DuckDB converts DECIMAL literals of 17-18 digits inexactly (~6% one "
        "ulp off), SQLite 3.40 a few (core.sqlite_literal_exact); the fine-grained family draws its on-an-edge thresholds among exactly-read values",
    ]
    from harness.props import c12_sql

    sql_errs = c12_sql.prepare()  # Generated/OtoSql.lean: the SQL one_to_one_clustering emits now, as Rel terms (T-sql); Properties/C12Sql.lean is re-checked against it
    ctx.lean = core.lean_check(PROP, ctx.thorough)
    if sql_errs:
        ctx.lean.ok = False
        ctx.lean.problems += ["T-sql: " + e for e in sql_errs]
    drv = core.Driver()
    if ctx.replay:
        body = json.loads(open(ctx.replay).read())
        cases = [load_case(body["replay"]["case"])]
    else:
        cases = [load_case(c) for c in graphs.load_corpus(PROP)] + gen_cases(ctx)
    problems = compare(ctx, cases, drv)
    lean_broken = not ctx.lean.ok
    if not ctx.replay and (lean_broken or any(not conc for _, _, conc, _, _ in problems)):
        ctx.notes.append("proof or correspondence broke: ran the widened failing-input search")
        save, ctx.rng = ctx.rng, random.Random(ctx.seed + 7919)
        was, ctx.thorough = ctx.thorough, True
        try:
            more = gen_cases(ctx)[:2500]
        finally:
            ctx.thorough, ctx.rng = was, save
        problems += compare(ctx, more, drv)
    concrete = [(c, w, r, mi) for c, w, conc, r, mi in problems if conc]
    broken = [(c, w, r) for c, w, conc, r, _ in problems if not conc]
    # known finding K4 first (one report is enough: it is suppressed or not as a whole), then anything else
    k4 = [(c, w, r, mi) for c, w, r, mi in concrete if mi["failure"] == K4_FAILURE and mi["has_ties"]]
    other = [(c, w, r, mi) for c, w, r, mi in concrete if not (mi["failure"] == K4_FAILURE and mi["has_ties"])]
    ctx.extra_cov["tie_containing_cases_with_a_disconnected_cluster"] = len(k4)
    for c, w, r, mi in sorted(k4, key=lambda t: len(t[0]["ids"]))[:1]:
        ctx.violation(
            "real output violates C12 on a tie-containing input: " + K4_FAILURE,
            {"case": c, "observed": r, "detail": w, "model_theorem": "SplinkVerif.C12.connected_counter_ties"},
            kind="concrete",
            match_info=mi,
        )
    picked, seen_f = [], set()
    for t in other:  # one report per distinct failing clause (at most 4), in the order found
        if t[3]["failure"] not in seen_f and len(picked) < 4:
            seen_f.add(t[3]["failure"])
            picked.append(t)
    for c, w, r, mi in picked:
        failure = mi["failure"]
        if mi.get("no_shrink"):
            ctx.violation("real output violates C12: " + failure, {"case": c, "observed": r, "detail": w, "other_presentation": mi["other_case"]},
                          kind="concrete", match_info={k: v for k, v in mi.items() if k not in ("no_shrink", "other_case")})
            continue

        def still_fails(cand, failure=failure):
            rr = run_impl_safe(cand)
            if "__error__" in rr:
                return failure.startswith("real code raised")
            return any(v.split(":")[0] == failure for v in oracle_verdicts(cand, rr["rows"], rr.get("labels"))) and has_ties(cand) == mi["has_ties"]

        small = shrink(c, still_fails)
        rr = run_impl_safe(small)
        vs = oracle_verdicts(small, rr["rows"], rr.get("labels")) if "rows" in rr else [f"real code raised {rr.get('__error__')}: {rr.get('text', '')[:200]}"]
        ctx.violation(
            "real output violates C12: " + failure + (" (tie-free input)" if not mi["has_ties"] else ""),
            {"case": small, "observed": rr, "detail": vs or [w], "has_ties": has_ties(small), "original_case_size": len(c["ids"])},
            kind="concrete",
            match_info=dict(mi, has_ties=has_ties(small)),
        )
    if not other:
        if broken:
            c, w, r = broken[0]
            ctx.violation(
                "correspondence OneToOne model <-> one_to_one_clustering no longer checks",
                {"correspondence": "harness/props/c12.py compare(): " + w, "case": c, "observed": r,
                 "disagreeing_cases": len(broken), "searched_cases": ctx.evaluations, "lean": ctx.lean.as_dict()},
                kind="unproved",
            )
        elif lean_broken:
            ctx.violation(
                "Lean obligations for C12 no longer check",
                {"theorems": ctx.lean.as_dict()["undischarged"], "problems": ctx.lean.problems, "build_log_tail": ctx.lean.build_log[-1500:],
                 "searched_cases": ctx.evaluations},
                kind="unproved",
            )
