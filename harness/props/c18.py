"""C18 — Splink never damages data it did not create and can clean up after itself.

Lean: Model/Tables.lean (C07's table-cache state machine + an owner tag per catalog entry, register_table's existence check,
the created_by_splink guard); Properties/C18.lean proves, for every history respecting the explicit name discipline `WF`,
that user tables keep their contents, that registrations/drops are refused exactly as stated, that the bulk deletion removes
every Splink-derived table and nothing else, and that dropped tables are gone.
Tie: random operation histories (C07's catalogue + registrations onto existing names + guarded drops + cleanup calls at
arbitrary points) on a real linker over PERSISTENT DuckDB / SQLite files pre-populated with user tables (some empty) and a view
(names similar to Splink's included).  Registrations go through every registering entry point the anchors name (register_table with
the data in every accepted form incl. the NAME of an existing table, register_table_predict / _input_nodes_concat_with_tf /
register_labels_table / register_term_frequency_lookup with both overwrite values and repeated, DatabaseAPI.register_multiple_tables
with several tables, Linker(frame, input_table_aliases=<existing name>)); the linker's own input arrives as a table name, a name
with a different alias, a frame, or a frame with an alias.  After EVERY step the catalog is snapshotted (names, kinds, column lists, row checksums):
(a) oracle = the property itself, decided on the snapshots; (b) the observed request / registration / drop / named-store /
cleanup events are replayed through the compiled Lean state machine (driver op `tables_trace`), which must predict every
cache hit, every refusal and the catalog (names, owners, contents of user and caller tables) after every step.
"""
from __future__ import annotations

import contextlib
import hashlib
import io
import json
import math
import os
import random
import traceback

from harness import core, histories as H

PROP = "C18"
CLEANUP_OPS = {"invalidate": "invalidate", "mutate_invalidate": "invalidate", "delete_splink_tables": "delete_created"}
LOCAL_OPS = ("reg_table", "drop_df", "debug_on", "debug_off", "reg_special", "prep_concat_tf", "reg_multi", "linker_alias")
GUARDED_OPS = ("reg_table", "drop_df", "reg_special", "reg_multi", "linker_alias")
USER_NAME_POOL = ["__splink__mine", "__splink__df_concat", "__splink__df_concat_with_tf", "people_copy", "predictions", "__splink__df_predict",
                  "__splink__input_table_0", "__splink__df_tf_a"]
DEBUG_NAME_POOL = ["r", "blocked_with_cols", "representatives", "__splink__df_concat_with_tf", "__splink__df_predict", "nodes_ids_only"]
REG_TYPES = {"id": "int", "nm": "str"}
EDGE_TYPES = {"unique_id_l": "int", "unique_id_r": "int", "match_weight": "float", "match_probability": "float"}
LABEL_TYPES = {"unique_id_l": "int", "unique_id_r": "int", "clerical_match_score": "float"}
# the forms of AcceptableInputTableType: a frame, record-level dicts, a dict of columns, a pyarrow table (DuckDB), the NAME of an existing table
REG_FORMS = ["frame", "frame", "records", "dict", "arrow", "str"]
# how the linker's own input reaches it: the name of a table | that name + an alias different from it | a frame (registered by Splink as
# __splink__input_table_0, overwrite=True) | a frame + input_table_aliases (registered under the alias, overwrite=False)
INPUT_FORMS = ["name", "name", "name_alias", "frame", "frame_alias"]
INPUT_NAME = {"name": "people", "name_alias": "people", "frame": "__splink__input_table_0", "frame_alias": "people"}


# --------------------------------------------------------------------------- generators
def gen_rows(rng, lo=1, hi=4):
    return [{"id": i + 1, "nm": rng.choice(["x", "y", "zed", None, "o'k", ""])} for i in range(rng.randint(lo, hi))]


def gen_reg_rows(rng):
    """rows handed to a registration: now and then none at all (an empty table still 'exists')"""
    return gen_rows(rng, lo=0 if rng.random() < 0.15 else 1)


def gen_user_objects(rng, debug=False, empty=True):
    objs = [{"name": "customers", "kind": "table", "rows": gen_rows(rng)}, {"name": "v_customers", "kind": "view", "of": "customers"}]
    pool = USER_NAME_POOL + (DEBUG_NAME_POOL if debug else [])
    for nm in sorted(set(rng.sample(pool, rng.randint(2, 4)) + (rng.sample(DEBUG_NAME_POOL, 2) if debug else []))):
        # an EMPTY user table (a staging table with a declared schema) is as much the user's as a full one
        objs.append({"name": nm, "kind": "table", "rows": [] if empty and rng.random() < 0.2 else gen_rows(rng)})
    return objs


def gen_edges(rng, world):
    """a small pairwise table over the ids of the input (what a caller keeps from an earlier predict())"""
    ids = [r["unique_id"] for r in world["rows"]]
    out = {}
    for _ in range(rng.randint(1, 5)):
        l, r = sorted(rng.sample(ids, 2))
        pr = rng.choice([0.05, 0.3, 0.5, 0.7, 0.95])
        out[(l, r)] = {"unique_id_l": l, "unique_id_r": r, "match_weight": round(math.log2(pr / (1 - pr)), 6), "match_probability": pr}
    return [out[k] for k in sorted(out)]


def gen_reg_item(rng, targets):
    return {"target": rng.choice(targets), "idx": rng.randint(0, 5), "rows": gen_reg_rows(rng), "form": rng.choice(REG_FORMS), "src": rng.randint(0, 5)}


def gen_local(rng, world=None):
    """One of the operations C18 adds to C07's catalogue; returns a LIST of steps (a registration of df_concat_with_tf is preceded by
    the step that obtains the frame)."""
    x = rng.random()
    if x < 0.40:
        target = rng.choice(["user_table", "user_table", "user_view", "fresh", "own", "derived", "derived", "user_table_case"])
        ow = rng.random() < 0.4
        # target == "derived" and ow: defect F24 (repaired; corpus/C18/overwrite_onto_derived_name_*.json): register_table(...,
        # overwrite=True) under the physical name of a cached Splink table left the dict entry; the bulk deletion then dropped
        # the caller's table.  Generated again since the repair.
        if target == "user_view" and ow:
            ow = False  # engine-specific: SQLite's DROP TABLE on a view raises, DuckDB drops the view on the caller's request
        if target == "user_table_case":
            ow = False  # CUSTOMERS names the user's table `customers`: must be refused; replacing on purpose is the caller's business
        it = gen_reg_item(rng, [target])
        steps = [{"op": "reg_table", "p": {"target": target, "overwrite": ow, "idx": it["idx"], "rows": it["rows"], "form": it["form"], "src": it["src"]}}]
        if target != "user_view" and rng.random() < 0.2:
            # the same name again (other data, any form but a name): refused without overwrite now that it exists, replaced with it
            it2 = gen_reg_item(rng, ["again"])
            steps.append({"op": "reg_table", "p": {"target": "again", "overwrite": rng.random() < 0.5, "idx": it2["idx"], "rows": it2["rows"],
                                                   "form": it2["form"] if it2["form"] != "str" else "frame", "src": 0}})
        return steps
    if x < 0.52 and world is not None:
        tfcols = sorted({c["col"] for c in world["comparisons"] if any("tf" in l for l in c["levels"])})
        which = rng.choice(["predict", "predict", "concat_tf", "concat_tf", "labels", "tf_lookup"])
        if which == "tf_lookup" and not tfcols:
            which = "labels"
        p = {"which": which, "overwrite": rng.random() < 0.4, "edges": gen_edges(rng, world)}
        if which == "tf_lookup":
            from harness.props import c02
            p["col"] = rng.choice(tfcols)
            p["table"] = {v: round(rng.uniform(0.05, 0.5), 3) for v in c02.STR_DOM[:5] if rng.random() < 0.8} or {c02.STR_DOM[0]: 0.25}
        steps = [{"op": "reg_special", "p": p}]
        if which == "concat_tf":
            steps.insert(0, {"op": "prep_concat_tf", "p": {}})
        if which in ("concat_tf", "predict") and rng.random() < 0.35:  # the same call again: refused without overwrite, carried out with it
            steps.append({"op": "reg_special", "p": dict(p, overwrite=rng.random() < 0.5, edges=gen_edges(rng, world))})
        return steps
    if x < 0.60:
        ow = rng.random() < 0.4
        targets = ["fresh", "fresh", "user_table", "own", "derived"]
        return [{"op": "reg_multi", "p": {"items": [gen_reg_item(rng, targets) for _ in range(rng.randint(2, 3))], "aliases": rng.random() < 0.8, "overwrite": ow,
                                           "shared": rng.random() < 0.3}}]  # shared: ONE data object handed in under several names
    if x < 0.65:
        return [{"op": "linker_alias", "p": {"target": rng.choice(["user_table", "user_view", "own", "derived", "input"]), "idx": rng.randint(0, 5), "pair": rng.random() < 0.4}}]
    target = rng.choice(["derived", "derived", "registered", "registered", "user", "input", "named_registered", "named_registered", "result"])
    force = (target in ("registered", "named_registered", "result") and rng.random() < 0.4) or (target == "derived" and rng.random() < 0.3)
    return [{"op": "drop_df", "p": {"target": target, "force": force, "idx": rng.randint(0, 5)}}]


def fit_input_form(case):
    """the histories' in-place mutation of the input needs a real table `people`; a frame handed to the linker cannot be mutated by SQL.
    Splink registers a frame input as __splink__input_table_0 with overwrite=True (documented exclusion of the name-form hypothesis):
    no user table of that name then."""
    if case["input_form"] in ("frame", "frame_alias"):
        case["history"] = [{"op": "invalidate", "p": {}} if s["op"] == "mutate_invalidate" else s for s in case["history"]]
    if case["input_form"] == "frame":
        case["user"] = [o for o in case["user"] if o["name"] != "__splink__input_table_0"]
    return case


def gen_case(rng, thorough=False, debug=False):
    world = H.gen_world(rng)
    n = rng.randint(2, 10 if thorough else 6)
    base = H.gen_history(rng, world, length=n, ops=H.OPS + ["invalidate", "delete_splink_tables", "delete_splink_tables", "predict", "predict"])
    hist = []
    dbg = False
    for st in base:
        if rng.random() < 0.4:
            hist.extend(gen_local(rng, world))
        if debug and rng.random() < 0.3:
            dbg = not dbg
            hist.append({"op": "debug_on" if dbg else "debug_off", "p": {}})
        hist.append(st)
    if rng.random() < 0.6:
        hist.extend(gen_local(rng, world))
    if rng.random() < 0.6:
        hist.append({"op": rng.choice(["invalidate", "delete_splink_tables"]), "p": {}})
    return fit_input_form({"world": world, "user": gen_user_objects(rng, debug), "history": hist, "tag": "debug" if debug else "history", "input_form": rng.choice(INPUT_FORMS)})


def adversarial_cases(rng):
    """Fixed shapes: every guarded entry point right after tables exist, cleanup twice, cleanup first; re-registration under the same name
    followed by the same call again, for every registering function of table_management."""
    out = []
    for engine in ("duckdb", "sqlite"):
        world = H.gen_world(rng, engine=engine)
        user = gen_user_objects(rng)
        rows = gen_rows(rng)
        out.append({"world": world, "user": user, "tag": "adversarial", "history": [
            {"op": "delete_splink_tables", "p": {}}, {"op": "predict", "p": {}},
            {"op": "reg_table", "p": {"target": "derived", "overwrite": False, "idx": 0, "rows": rows}},
            {"op": "reg_table", "p": {"target": "user_table", "overwrite": False, "idx": 0, "rows": rows}},
            {"op": "reg_table", "p": {"target": "user_view", "overwrite": False, "idx": 0, "rows": rows}},
            {"op": "reg_table", "p": {"target": "fresh", "overwrite": False, "idx": 0, "rows": rows}},
            {"op": "reg_table", "p": {"target": "own", "overwrite": False, "idx": 0, "rows": rows}},
            {"op": "reg_table", "p": {"target": "own", "overwrite": True, "idx": 0, "rows": gen_rows(rng)}},
            {"op": "drop_df", "p": {"target": "user", "force": False, "idx": 0}}, {"op": "drop_df", "p": {"target": "user", "force": False, "idx": 1}},
            {"op": "drop_df", "p": {"target": "input", "force": False, "idx": 0}}, {"op": "drop_df", "p": {"target": "registered", "force": False, "idx": 0}},
            {"op": "drop_df", "p": {"target": "derived", "force": False, "idx": 1}},
            {"op": "delete_splink_tables", "p": {}}, {"op": "delete_splink_tables", "p": {}},
            {"op": "drop_df", "p": {"target": "registered", "force": True, "idx": 0}}, {"op": "predict", "p": {}}, {"op": "invalidate", "p": {}}, {"op": "invalidate", "p": {}}]})
        out.append({"world": world, "user": user, "tag": "adversarial", "history": [
            {"op": "cluster", "p": {"t": 0.5}}, {"op": "graph_metrics", "p": {}},
            {"op": "find_matches", "p": {"records": [{"unique_id": 1000, "a": "ann", "b": "ann", "c": 1, "d": "p", "lab": None}], "rules": []}},
            {"op": "compare_two", "p": {"r1": {"unique_id": 2001, "a": "ann", "b": "ann", "c": 1, "d": "p", "lab": None}, "r2": {"unique_id": 2002, "a": "ann", "b": "anne", "c": 2, "d": "p", "lab": None}}},
            {"op": "reg_table", "p": {"target": "user_table", "overwrite": True, "idx": 1, "rows": rows}},
            {"op": "mutate_invalidate", "p": {"new_row": {"unique_id": 501, "a": "ann", "b": "ann", "c": 1, "d": "p", "lab": None}}},
            {"op": "predict", "p": {}}, {"op": "delete_splink_tables", "p": {}}]})
        edges, edges2 = gen_edges(rng, world), gen_edges(rng, world)

        def reg(target, ow, form="frame", idx=0, rws=None):
            return {"op": "reg_table", "p": {"target": target, "overwrite": ow, "idx": idx, "rows": rows if rws is None else rws, "form": form, "src": 0}}

        def special(which, ow, e=edges):
            return {"op": "reg_special", "p": {"which": which, "overwrite": ow, "edges": e}}

        def item(target, form="frame", idx=0):
            return {"target": target, "idx": idx, "rows": gen_rows(rng), "form": form, "src": 0}

        for input_form, ow_first in (("frame", False), ("name_alias", True), ("frame_alias", False)):
            out.append(fit_input_form({"world": world, "user": gen_user_objects(rng), "tag": "adversarial", "input_form": input_form, "history": [
                reg("fresh", ow_first, "records"), reg("own", True, "dict"), reg("own", True, "dict"), reg("own", False, "arrow"), reg("own", True, "frame", rws=[]),
                reg("user_table_case", False), reg("user_table", True, "str"), reg("user_table", False, "str", idx=1), reg("fresh", True, "str"),
                special("predict", ow_first), {"op": "cluster", "p": {"t": 0.5}}, special("predict", False), special("predict", True, edges2),
                {"op": "cluster", "p": {"t": 0.5}}, {"op": "graph_metrics", "p": {}}, {"op": "predict", "p": {}},
                {"op": "prep_concat_tf", "p": {}}, special("concat_tf", ow_first), {"op": "predict", "p": {}}, special("concat_tf", False), special("concat_tf", True), {"op": "predict", "p": {}},
                special("labels", False), special("labels", True),
                {"op": "reg_multi", "p": {"items": [item("fresh"), item("user_table", "records")], "aliases": True, "overwrite": False}},
                {"op": "reg_multi", "p": {"items": [item("user_table", "str"), item("fresh", "dict"), item("own")], "aliases": True, "overwrite": False}},
                {"op": "reg_multi", "p": {"items": [item("fresh"), item("own", "records"), item("derived")], "aliases": True, "overwrite": True}},
                {"op": "reg_multi", "p": {"items": [item("fresh"), item("user_table", "str")], "aliases": False, "overwrite": False}},
                {"op": "linker_alias", "p": {"target": "user_table", "idx": 0, "pair": False}}, {"op": "linker_alias", "p": {"target": "own", "idx": 0, "pair": True}},
                {"op": "linker_alias", "p": {"target": "input", "idx": 0, "pair": False}},
                {"op": "drop_df", "p": {"target": "named_registered", "force": False, "idx": 0}}, {"op": "drop_df", "p": {"target": "derived", "force": True, "idx": 0}},
                {"op": "delete_splink_tables", "p": {}}, {"op": "drop_df", "p": {"target": "named_registered", "force": True, "idx": 0}},
                {"op": "delete_splink_tables", "p": {}}, {"op": "invalidate", "p": {}}, special("predict", False, edges2), {"op": "cluster", "p": {"t": 0.3}},
                {"op": "invalidate", "p": {}}, {"op": "invalidate", "p": {}}]}))
    return out


# --------------------------------------------------------------------------- running the real code
def norm(v):
    if v is None:
        return "N"
    if isinstance(v, bool):
        return f"b{v}"
    if isinstance(v, int):
        return f"i{v}"
    if isinstance(v, str):
        return "s" + v
    return "o" + repr(v)


def checksum(rows):
    return hashlib.sha256(json.dumps(sorted([norm(v) for v in r] for r in rows)).encode()).hexdigest()[:16]


def snapshot(api, engine):
    """Catalog read with the harness's own SQL: name -> {kind, cols, sum}."""
    out = {}
    if engine == "duckdb":
        con = api._con
        for name, tt in con.execute("select table_name, table_type from information_schema.tables where table_schema not in ('information_schema','pg_catalog')").fetchall():
            cols = con.execute("select column_name, data_type from information_schema.columns where table_name = ? order by ordinal_position", [name]).fetchall()
            try:
                sm = checksum(con.execute(f'select * from "{name}"').fetchall())
            except Exception as e:  # noqa: BLE001  (e.g. a view whose table was dropped)
                sm = "unreadable: " + str(e)[:80]
            out[name] = {"kind": "table" if tt == "BASE TABLE" else "view", "cols": [list(c) for c in cols], "sum": sm}
    else:
        con = api.con
        for rec in con.execute("select type, name from sqlite_master where type in ('table','view')").fetchall():
            name = rec["name"]
            try:
                cols = [[c["name"], c["type"]] for c in con.execute(f'pragma table_info("{name}")').fetchall()]
                cur = con.execute(f'select * from "{name}"')
                cur.row_factory = None
                sm = checksum(cur.fetchall())
            except Exception as e:  # noqa: BLE001  (e.g. a view whose table was dropped)
                cols, sm = [], "unreadable: " + str(e)[:80]
            out[name] = {"kind": rec["type"], "cols": cols, "sum": sm}
    return out


def sql_lit(v):
    return "NULL" if v is None else (str(v) if isinstance(v, int) else "'" + str(v).replace("'", "''") + "'")


def create_user_objects(api, engine, objs):
    ex = api._con.execute if engine == "duckdb" else api.con.execute
    for o in objs:
        if o["kind"] == "table":
            ex(f'create table "{o["name"]}" (id INTEGER, nm VARCHAR)')
            for r in o["rows"]:
                ex(f'insert into "{o["name"]}" values ({sql_lit(r["id"])}, {sql_lit(r["nm"])})')
        else:
            ex(f'create view "{o["name"]}" as select * from "{o["of"]}"')
    if engine == "sqlite":
        api.con.commit()


def instrument_more(api, log):
    """On top of histories.instrument: physical names on request events, the created_by_splink flag on drop events,
    and one event per table handed to register_multiple_tables (name, overwrite, refused)."""
    chk = api.sql_to_splink_dataframe_checking_cache
    rm = api.remove_splinkdataframe_from_cache
    reg = api.register_multiple_tables

    def my_check(sql, output_tablename_templated, use_cache=True):
        expected = f"{output_tablename_templated}_{hashlib.sha256((sql + api._cache_uid).encode('utf-8')).hexdigest()[:9]}"
        df = chk(sql, output_tablename_templated, use_cache)
        ev = log["events"][-1]
        if ev["k"] != "req":
            raise core.HarnessError("request event expected last")
        ev["phys_expected"] = expected
        ev["phys"] = df.physical_name
        return df

    def my_rm(splink_dataframe):
        n = len(log["events"])
        r = rm(splink_dataframe)
        if log["events"][n]["k"] != "drop":
            raise core.HarnessError("drop event expected")
        log["events"][n]["created"] = bool(splink_dataframe.created_by_splink)
        return r

    def my_reg(input_tables, input_aliases=None, overwrite=False):
        tabs = input_tables if isinstance(input_tables, (list, tuple)) else [input_tables]
        try:
            out = reg(input_tables, input_aliases, overwrite)
        except ValueError as e:
            if "already exists in database" in str(e) and input_aliases:
                # a call with several tables is refused as a whole; the message lists the names that exist
                listed = str(e).split("Table(s): ", 1)[1].split(" already exists", 1)[0].split(", ")
                log["events"].append({"k": "register", "name": listed[0], "overwrite": bool(overwrite), "refused": True, "of": len(tabs)})
            raise
        for t, alias in zip(tabs, list(out.keys())):
            if not isinstance(t, str):
                log["events"].append({"k": "register", "name": alias, "overwrite": bool(overwrite), "refused": False})
        return out

    api.sql_to_splink_dataframe_checking_cache = my_check
    api.remove_splinkdataframe_from_cache = my_rm
    api.register_multiple_tables = my_reg


def reg_input(form, rows, engine, types=REG_TYPES):
    """(form actually used, the data in that form).  Empty data only as a typed frame (the other forms carry no schema without rows);
    a pyarrow table only where the backend accepts one."""
    from harness import impl

    if not rows or form in ("frame", "str"):
        return "frame", impl.typed_frame(rows, types)
    if form == "arrow" and engine == "duckdb":
        import pyarrow as pa

        pat = {"int": pa.int64(), "str": pa.string(), "float": pa.float64()}
        return "arrow", pa.Table.from_pylist([dict(r) for r in rows], schema=pa.schema([(c, pat[t]) for c, t in types.items()]))
    if form == "dict":
        return "dict", {c: [r[c] for r in rows] for c in types}
    return "records", [dict(r) for r in rows]


def make_linker_form(world, api, form):
    """The linker of the history, its input handed over in the given form (see INPUT_FORMS)."""
    from splink import Linker

    from harness import impl

    if form == "name":
        return H.make_linker(world, api)
    if form == "name_alias":
        H.make_linker(world, api)  # creates the table `people` (the linker made here registers nothing: a string input)
        return Linker("people", H.settings_dict(world), api, input_table_aliases="ppl")
    df = impl.typed_frame(world["rows"], H.TYPES)
    if form == "frame":
        return Linker(df, H.settings_dict(world), api)
    if form == "frame_alias":
        return Linker(df, H.settings_dict(world), api, input_table_aliases="people")
    raise ValueError(form)


def apply_local(linker, api, case, step, state, snap, log, rec):
    """The operations C18 adds to the catalogue; fills the step record `rec` (before the real call, so that a raising call is still described)."""
    from harness import impl

    op, p = step["op"], step["p"]
    engine = case["world"]["engine"]
    if op in ("debug_on", "debug_off"):
        api.debug_mode = op == "debug_on"
        return
    user_tables = sorted(o["name"] for o in case["user"] if o["kind"] == "table" and o["name"] in snap)
    user_views = sorted(o["name"] for o in case["user"] if o["kind"] == "view" and o["name"] in snap)
    viewed = {o["of"] for o in case["user"] if o["kind"] == "view"}
    cache = api._intermediate_table_cache
    derived = sorted({d.physical_name for k, d in cache.data.items() if d.created_by_splink and k == d.physical_name and d.physical_name in snap})
    named_reg = sorted({d.physical_name for k, d in cache.data.items() if not d.created_by_splink and d.physical_name in snap})
    regs = sorted(n for n in state.get("regs", {}) if n in snap)
    tm = linker.table_management

    def pick(lst, idx=None):
        return lst[(p["idx"] if idx is None else idx) % len(lst)] if lst else None

    def resolve(tgt, overwrite, idx, taken=()):
        """(target class actually used, name)"""
        if tgt in ("user_table", "user_table_case"):
            name = pick([n for n in user_tables if n not in viewed] if overwrite else user_tables, idx)
            if name is not None and tgt == "user_table_case":
                name = name.upper() if name != name.upper() else name.lower()
        elif tgt == "user_view":
            name = pick(user_views, idx)
        elif tgt == "own":
            name = pick(regs, idx)
        elif tgt == "derived":
            name = pick(derived, idx)
        elif tgt == "input":
            name = list(linker._input_tables_dict.values())[0].physical_name
        elif tgt == "again":
            name = state.get("last_reg_name") if state.get("last_reg_name") in snap else None
            if name in viewed or name in user_views:
                name = None  # (replacing a table under a view / a view: engine-specific, see gen_local)
        else:
            name = None
        if name is None or name in taken:
            tgt = "fresh"
            name = f"my_reg_{len(state.get('regs', {}))}_{idx}"
            while name in snap or name in taken:
                name += "x"
        return tgt, name

    def replaced(names):
        # a result handle whose table the caller has just replaced no longer stands for a prediction / clustering
        if state.get("predict") is not None and state["predict"].physical_name in names:
            state.pop("predict"); state.pop("cluster", None)
        if state.get("cluster") is not None and state["cluster"].physical_name in names:
            state.pop("cluster")

    def refusal(fn):
        try:
            return False, fn()
        except ValueError as e:
            if "already exists in database" not in str(e):
                raise
            return True, None

    if op == "reg_table":
        tgt, name = resolve(p["target"], p["overwrite"], p["idx"])
        form = p.get("form", "frame")
        if form == "str":
            # a string input is the NAME of a table that is already there (`name` is only its alias): nothing may be created, replaced or dropped
            src = pick(user_tables + regs, p.get("src", 0))
            rec.update({"target": tgt, "name": name, "overwrite": p["overwrite"], "form": "str", "source": src})
            rec["refused"], _ = refusal(lambda: tm.register_table(src, name, overwrite=p["overwrite"]))
            return
        form, data = reg_input(form, p["rows"], engine)
        state["last_reg_name"] = name
        rec.update({"target": tgt, "name": name, "overwrite": p["overwrite"], "existed": name in snap, "form": form, "n_rows": len(p["rows"])})
        rec["refused"], sdf = refusal(lambda: tm.register_table(data, name, overwrite=p["overwrite"]))
        if not rec["refused"]:
            replaced([name])
            state.setdefault("regs", {})[name] = sdf
        return
    if op == "reg_multi":
        names, forms, inputs = [], [], []
        for it in p["items"]:
            tgt, name = resolve(it["target"], p["overwrite"], it["idx"], taken=names)
            if it["form"] == "str":
                form, data = "str", pick(user_tables + regs, it.get("src", 0))
            else:
                form, data = reg_input(it["form"], it["rows"], engine)
            if p.get("shared") and form != "str":
                first = [(f, d) for f, d in zip(forms, inputs) if f != "str"]
                form, data = first[0] if first else (form, data)
            names.append(name); forms.append(form); inputs.append(data)
        rec.update({"names": names if p["aliases"] else None, "forms": forms, "overwrite": p["overwrite"], "shared": bool(p.get("shared"))})
        rec["refused"], out = refusal(lambda: api.register_multiple_tables(inputs, list(names) if p["aliases"] else None, p["overwrite"]))
        if not rec["refused"]:
            rec["registered"] = [a for a, f in zip(out.keys(), forms) if f != "str"]
            replaced(rec["registered"])
            for a, f in zip(list(out.keys()), forms):
                if f != "str":
                    state.setdefault("regs", {})[a] = out[a]
        return
    if op == "linker_alias":
        # a second Linker whose input_table_aliases name something that exists: the registration inside Linker() (overwrite=False) must refuse
        from splink import Linker

        tgt, name = resolve(p["target"], False, p["idx"])
        if tgt == "fresh":
            tgt, name = resolve("user_table", False, p["idx"])
        df = impl.typed_frame(case["world"]["rows"], H.TYPES)
        aliases = name
        tables = df
        if p.get("pair"):
            fresh = "my_other_input"
            while fresh in snap:
                fresh += "x"
            tables, aliases = [df, df.copy()], [fresh, name]
        rec.update({"target": tgt, "name": name, "pair": bool(p.get("pair"))})
        rec["refused"], _ = refusal(lambda: Linker(tables, H.settings_dict(case["world"]), api, input_table_aliases=aliases))
        return
    if op == "prep_concat_tf":
        from splink.internals.pipeline import CTEPipeline
        from splink.internals.vertically_concatenate import compute_df_concat_with_tf

        state["concat_frame"] = compute_df_concat_with_tf(linker, CTEPipeline()).as_pandas_dataframe()
        return
    if op == "reg_special":
        which, ow = p["which"], p["overwrite"]
        name = None
        if which == "predict":
            name = "__splink__df_predict_" + linker._cache_uid
            data = impl.typed_frame(p["edges"], EDGE_TYPES)
            call = lambda: tm.register_table_predict(data, overwrite=ow)  # noqa: E731
        elif which == "concat_tf":
            if state.get("concat_frame") is None:
                rec["skipped"] = True
                return
            name = "__splink__df_concat_with_tf_" + linker._cache_uid
            data = state["concat_frame"]
            call = lambda: tm.register_table_input_nodes_concat_with_tf(data, overwrite=ow)  # noqa: E731
        elif which == "labels":
            data = impl.typed_frame([{"unique_id_l": e["unique_id_l"], "unique_id_r": e["unique_id_r"], "clerical_match_score": e["match_probability"]} for e in p["edges"]], LABEL_TYPES)
            call = lambda: tm.register_labels_table(data, overwrite=ow)  # noqa: E731
        elif which == "tf_lookup":
            col = p["col"]
            data = impl.typed_frame([{col: v, f"tf_{col}": t} for v, t in p["table"].items()], {col: "str", f"tf_{col}": "float"})
            call = lambda: tm.register_term_frequency_lookup(data, col, overwrite=ow)  # noqa: E731
        else:
            raise ValueError(which)
        rec.update({"which": which, "name": name, "overwrite": ow, "existed": name in snap if name else False})
        rec["refused"], sdf = refusal(call)
        if not rec["refused"]:
            rec["name"] = sdf.physical_name
            if which == "predict":
                state["predict"] = sdf; state.pop("cluster", None)  # later cluster / graph-metrics steps run on the registered pairs
        return
    if op == "drop_df":
        tgt = p["target"]
        sdf = None
        if tgt == "derived" and derived:
            name = pick(derived)
            sdf = cache[name]  # what a caller holds: a copy of the cached SplinkDataFrame (e.g. the result of predict())
        elif tgt == "registered" and regs:
            name = pick(regs)
            sdf = state["regs"][name]
        elif tgt == "named_registered" and named_reg:
            # registered through table_management (TF lookup, predictions, df_concat_with_tf, ...): held by the dict under a templated name
            name = pick(named_reg)
            sdf = cache[sorted(k for k, d in cache.data.items() if d.physical_name == name)[0]]
        elif tgt == "result" and any(state.get(k) is not None and state[k].physical_name in derived + named_reg for k in ("predict", "cluster")):
            # the very object a linker method returned (df_predict.drop_table_from_database_and_remove_from_cache(), as documented);
            # only while the dict still holds its table (a handle that outlived a replacement of its table is outside the name discipline)
            sdf = [state[k] for k in ("cluster", "predict") if state.get(k) is not None and state[k].physical_name in derived + named_reg][p["idx"] % 2 - 1]
            name = sdf.physical_name
            tgt = "derived" if name in derived else "named_registered"
            rec["via"] = "returned object"
        elif tgt == "user" and (user_tables + user_views):
            name = pick(user_tables + user_views)
            sdf = tm.register_table(name, "alias_of_" + name)  # a string input: wraps the existing table
        elif tgt == "input":
            sdf = list(linker._input_tables_dict.values())[0]
            name = sdf.physical_name
        if sdf is None:
            rec["skipped"] = True
            return
        rec.update({"target": tgt, "name": name, "force": p["force"], "created_flag": bool(sdf.created_by_splink)})
        n = len(log["events"])
        try:
            sdf.drop_table_from_database_and_remove_from_cache(force_non_splink_table=p["force"])
            rec["refused"] = False
            if log["events"][n]["k"] != "drop":
                raise core.HarnessError("drop event expected after a successful drop")
            log["events"][n]["k"] = "drop_df"
            log["events"][n]["force"] = bool(p["force"])
            log["events"][n]["refused"] = False
            if state.get("predict") is not None and state["predict"].physical_name == name:
                state.pop("predict"); state.pop("cluster", None)  # compute_graph_metrics needs both
            if state.get("cluster") is not None and state["cluster"].physical_name == name:
                state.pop("cluster")
            state.get("regs", {}).pop(name, None)
        except ValueError as e:
            if "not a table created by Splink" not in str(e):
                raise
            rec["refused"] = True
            log["events"].append({"k": "drop_df", "phys": name, "created": bool(sdf.created_by_splink), "force": bool(p["force"]), "refused": True})
        return
    raise ValueError(op)


def run_case(arg) -> dict:
    from harness import impl

    case, path = arg
    world, engine = case["world"], case["world"]["engine"]
    input_name = INPUT_NAME[case.get("input_form", "name")]
    for f in (path, path + ".wal"):
        if os.path.exists(f):
            os.remove(f)
    api = impl.make_api(engine, threads=2, path=path)
    try:
        create_user_objects(api, engine, case["user"])
        snap0 = snapshot(api, engine)
        log = H.instrument(api)
        instrument_more(api, log)
        linker = make_linker_form(world, api, case.get("input_form", "name"))
        snaps = [snapshot(api, engine)]
        state: dict = {}
        steps = []
        for step in case["history"]:
            rec = {"op": step["op"], "ev0": len(log["events"])}
            kind = CLEANUP_OPS.get(step["op"])
            if kind:
                log["events"].append({"k": "cleanup_begin", "kind": kind})
            try:
                with contextlib.redirect_stdout(io.StringIO()):
                    if step["op"] in LOCAL_OPS:
                        apply_local(linker, api, case, step, state, snaps[-1], log, rec)
                    else:
                        H.apply_op(linker, world, step, state)
            except Exception as e:  # noqa: BLE001
                tb = traceback.format_exc()
                if f'File "{core.REPO}/' not in tb or isinstance(e, core.HarnessError):  # core.REPO: /repo, or the tree named by SPLINK_REPO
                    raise
                msg = str(e)
                rec["raised"] = f"{type(e).__name__}: {msg[:120]} ... {msg[-160:] if len(msg) > 280 else msg[120:]}"
            if kind:
                log["events"].append({"k": "cleanup_end"})
            rec["ev1"] = len(log["events"])
            rec["debug"] = bool(api.debug_mode)
            snaps.append(snapshot(api, engine))
            steps.append(rec)
            if any(n not in snaps[-1] for n in list(snap0) + [input_name]):
                rec["stopped"] = "a user table is missing"  # the oracle reports it; later steps would only fail on it
                break
            if "raised" in rec:
                break  # a raising call is C08's business; the catalog after it is still checked above
        return {"snap0": snap0, "snaps": snaps, "steps": steps, "events": [dict(e) for e in log["events"]]}
    finally:
        try:
            (api._con if engine == "duckdb" else api.con).close()
        except Exception:  # noqa: BLE001
            pass
        for f in (path, path + ".wal"):
            if os.path.exists(f):
                os.remove(f)


run_case_safe = core.safe(run_case)


# --------------------------------------------------------------------------- oracle (the property, decided on the snapshots)
def expected_user(case):
    """name -> row checksum, computed from the case alone."""
    tables = {o["name"]: checksum([[r["id"], r["nm"]] for r in o["rows"]]) for o in case["user"] if o["kind"] == "table"}
    for o in case["user"]:
        if o["kind"] == "view":
            tables[o["name"]] = tables[o["of"]]
    return tables


def people_sum(rows):
    return checksum([[r[c] for c in H.TYPES] for r in rows])


def describe(a, b):
    if b is None:
        return "is missing"
    if a["kind"] != b["kind"]:
        return f"changed from {a['kind']} to {b['kind']}"
    if a["cols"] != b["cols"]:
        return f"schema changed from {a['cols']} to {b['cols']}"
    return "contents changed"


def oracle(case, r):
    """Returns [(class, detail, step index)] — violations of C18 on the real catalog; also the per-step classification used for the model comparison."""
    out = []
    exp = expected_user(case)
    snap0, snaps = r["snap0"], r["snaps"]
    if set(snap0) != set(exp) or any(snap0[n]["sum"] != s for n, s in exp.items()):
        raise core.HarnessError("pre-attachment snapshot disagrees with the generated user tables")
    user = {n: dict(e) for n, e in snap0.items()}
    rows = list(case["world"]["rows"])
    people = INPUT_NAME[case.get("input_form", "name")]  # the linker's input, whichever way it was handed over: the user's from then on
    if people in snap0:
        raise core.HarnessError(f"{people} must not pre-exist")
    att = snaps[0]
    for n, e in user.items():
        if att.get(n) != e:
            out.append(("user table damaged", f"attaching the linker: user {e['kind']} {n} {describe(e, att.get(n))}", -1))
    if set(att) - set(user) != {people} or att[people]["sum"] != people_sum(rows):
        raise core.HarnessError(f"input table not set up as expected: {sorted(set(att) - set(user))}")
    user[people] = dict(att[people])

    def present(name, snap):
        return any(n.lower() == name.lower() for n in snap)  # SQL table names are case-insensitive in both engines
    caller: dict = {}
    classes = [{"user": dict(user), "caller": {}}]
    dbg_seen = False
    for i, st in enumerate(r["steps"]):
        prev, cur = snaps[i], snaps[i + 1]
        evs = r["events"][st["ev0"]:st["ev1"]]
        dbg_seen = dbg_seen or bool(st.get("debug")) or st["op"] == "debug_on" or any(e.get("debug") for e in evs if e["k"] == "req")
        dbg = " [debug_mode]" if dbg_seen else ""  # debug_mode is or was on: its tables outlive it
        op = st["op"]
        raised = "raised" in st
        # refusals happen exactly when required, and a refused call changes nothing
        if op == "reg_table" and not st.get("skipped") and not raised and st.get("form") == "str":
            # the NAME of an existing table was handed in (with an alias): whatever the alias and the overwrite flag, nothing is created or dropped
            if cur != prev:
                out.append(("refusal", f"register_table({st['source']!r} (the name of an existing table), {st['name']!r}, overwrite={st['overwrite']}) changed the catalog{dbg}", i))
        elif op == "reg_table" and not st.get("skipped") and not raised:
            want = present(st["name"], prev) and not st["overwrite"]
            if st["refused"] != want:
                out.append(("refusal", f"register_table({st['name']!r}, overwrite={st['overwrite']}) with the name {'present' if present(st['name'], prev) else 'absent'} "
                            f"was {'refused' if st['refused'] else 'carried out'}{dbg}", i))
            if st["refused"] and cur != prev:
                out.append(("refusal", f"refused register_table({st['name']!r}) changed the catalog{dbg}", i))
            if not st["refused"] and st["name"] in user and st["overwrite"]:
                user.pop(st["name"])  # the caller replaced their own table on purpose
        if op == "reg_special" and not st.get("skipped") and not raised:
            # register_table_predict / register_table_input_nodes_concat_with_tf / register_labels_table / register_term_frequency_lookup:
            # the physical name is Splink's choice: st["name"] is the name actually used (after a refusal: the name the function builds from the
            # linker's uid; None where it contains a fresh random part, which cannot collide)
            nm = st["name"]
            before = nm is not None and present(nm, prev)
            want = before and not st["overwrite"]
            if st["refused"] != want:
                out.append(("refusal", f"registration of {st['which']} as {nm!r} (overwrite={st['overwrite']}) with the name {'present' if before else 'absent'} "
                            f"was {'refused' if st['refused'] else 'carried out'}{dbg}", i))
            if st["refused"] and cur != prev:
                out.append(("refusal", f"refused registration of {st['which']} as {nm!r} changed the catalog{dbg}", i))
        if op == "reg_multi" and not raised:
            given = [(n, f) for n, f in zip(st["names"] or [], st["forms"]) if f != "str"]
            want = (not st["overwrite"]) and any(present(n, prev) for n, _ in given)
            if st["refused"] != want:
                out.append(("refusal", f"register_multiple_tables(aliases={st['names']}, forms={st['forms']}, overwrite={st['overwrite']}) with "
                            f"{[n for n, _ in given if present(n, prev)]} present was {'refused' if st['refused'] else 'carried out'}{dbg}", i))
            if st["refused"] and cur != prev:
                out.append(("refusal", f"refused register_multiple_tables(aliases={st['names']}) changed the catalog{dbg}", i))
            if not st["refused"] and st["overwrite"]:
                for n, _ in given:
                    user.pop(n, None)  # the caller replaced their own table on purpose
            if not st["refused"]:
                for n, f in zip(st["names"] or [], st["forms"]):
                    if f == "str" and cur.get(n) != prev.get(n):
                        out.append(("refusal", f"register_multiple_tables: the alias {n!r} of a string input was created, replaced or dropped{dbg}", i))
        if op == "linker_alias" and not raised:
            if not st["refused"]:
                out.append(("refusal", f"Linker(frame, input_table_aliases={st['name']!r}) with the name present was carried out{dbg}", i))
            elif cur != prev:
                out.append(("refusal", f"refused Linker(frame, input_table_aliases={st['name']!r}) changed the catalog{dbg}", i))
        if op == "drop_df" and not st.get("skipped") and not raised:
            want = st["target"] in ("user", "input", "registered", "named_registered") and not st["force"]
            if st["refused"] != want:
                out.append(("refusal", f"drop_table_from_database_and_remove_from_cache(force={st['force']}) on the {st['target']} table {st['name']!r} "
                            f"was {'refused' if st['refused'] else 'carried out'}{dbg}", i))
            if st["refused"] and cur != prev:
                out.append(("refusal", f"refused drop of {st['name']!r} changed the catalog{dbg}", i))
            if not st["refused"] and st["target"] in ("registered", "named_registered"):
                caller.pop(st["name"], None)  # forced by the caller
        # registrations of this step are caller data from now on
        for e in evs:
            if e["k"] == "register" and not e["refused"] and e["name"] in cur and e["name"] not in user:
                caller[e["name"]] = dict(cur[e["name"]])
        if op == "mutate_invalidate" and not raised:
            rows.append(case["history"][i]["p"]["new_row"])
            user[people]["sum"] = people_sum(rows)
        elif op == "mutate_invalidate":
            user[people] = dict(cur.get(people, user[people]))  # the harness's own INSERT may or may not have run
        for n, e in user.items():
            if cur.get(n) != e:
                out.append(("user table damaged", f"step {i + 1} ({op}): user {e['kind']} {n} {describe(e, cur.get(n))}{dbg}", i))
        for n, e in caller.items():
            if cur.get(n) != e:
                out.append(("caller table damaged", f"step {i + 1} ({op}): table {n} registered by the caller {describe(e, cur.get(n))}{dbg}", i))
        # every drop event is followed by the table's absence
        gone = set()
        for e in evs:
            if e["k"] in ("drop", "drop_df") and not e.get("refused"):
                gone.add(e["phys"])
            elif e["k"] == "req" and not e["hit"]:
                gone.discard(e["phys"])
            elif e["k"] == "register" and not e["refused"]:
                gone.discard(e["name"])
        for n in sorted(gone & set(cur)):
            out.append(("dropped table still there", f"step {i + 1} ({op}): {n} was dropped through Splink and is still in the catalog{dbg}", i))
        # cleanup removes every derived table
        if op in CLEANUP_OPS and not raised:
            left = sorted(set(cur) - set(user) - set(caller))
            if left:
                out.append(("cleanup left derived tables", f"step {i + 1} ({op}): still in the catalog {left[:6]}{dbg}", i))
        classes.append({"user": dict(user), "caller": dict(caller)})
    return out, classes


# --------------------------------------------------------------------------- model replay
def trace_request(case, r, classes):
    """Encode the observed events for the Lean state machine; returns (request, checks) or (None, reason)."""
    evs = r["events"]
    if any(e["k"] == "req" and e.get("debug") for e in evs) or any(s["op"] in ("debug_on", "debug_off") for s in r["steps"]):
        return None, "debug mode is not modelled"
    if any(e["k"] == "set_phys" for e in evs):
        return None, "direct store under a physical name"
    codes: dict = {}

    def code(x):
        return codes.setdefault(x, len(codes) + 1)

    name2phys: dict = {}
    for e in evs:
        if e["k"] == "req":
            if not e["hit"] and e["phys"] != e["phys_expected"]:
                raise core.HarnessError(f"physical name {e['phys']} is not templ_sha256(sql+uid)[:9] = {e['phys_expected']}")
            name2phys[e["phys_expected"]] = [code("T:" + e["templ"]), code("S:" + e["text"] + e["uid"])]

    lowmap: dict = {}
    for sn in [r["snap0"]] + list(r["snaps"]):
        for n in sn:
            lowmap.setdefault(n.lower(), n)

    def phys(name):
        # SQL names are case-insensitive: CUSTOMERS names the catalog entry `customers`
        return name2phys.get(name) or [code("N:" + lowmap.get(name.lower(), name)), 0]

    user0 = classes[0]["user"]
    req = {"op": "tables_trace", "user": [phys(n) + [code("V:" + e["sum"])] for n, e in sorted(user0.items())], "events": []}
    checks = []  # aligned with req["events"]: None | ("hit", bool) | ("refused", bool, what) | ("snap", step index)
    for i, st in enumerate(r["steps"]):
        in_cleanup = False
        cur = r["snaps"][i + 1]
        for e in evs[st["ev0"]:st["ev1"]]:
            k = e["k"]
            if k == "cleanup_begin":
                in_cleanup = True
                req["events"].append({"k": e["kind"]}); checks.append(None)
            elif k == "cleanup_end":
                in_cleanup = False
            elif in_cleanup and k in ("drop", "forget_named", "invalidate"):
                continue  # the model performed the bulk deletion as one operation; the snapshot decides whether it chose the same tables
            elif k == "req":
                req["events"].append({"k": "req", "templ": code("T:" + e["templ"]), "text": code("S:" + e["text"] + e["uid"]), "use_cache": bool(e["use_cache"])})
                checks.append(("hit", bool(e["hit"])))
            elif k == "register":
                val = code("V:" + cur[e["name"]]["sum"]) if e["name"] in cur else code("V:?" + e["name"])
                req["events"].append({"k": "register", "p": phys(e["name"]), "val": val, "overwrite": bool(e["overwrite"])})
                checks.append(("refused", bool(e["refused"]), f"register_table({e['name']}, overwrite={e['overwrite']})"))
            elif k in ("drop", "drop_df"):
                created = bool(e.get("created"))
                force = bool(e.get("force", not created))
                req["events"].append({"k": "drop_df", "p": phys(e["phys"]), "created": created, "force": force})
                checks.append(("refused", bool(e.get("refused", False)), f"drop of {e['phys']} (created_by_splink={created}, force={force})"))
            elif k == "set_named":
                req["events"].append({"k": "set_named", "templ": code("T:" + e["templ"]), "p": phys(e["phys"]), "val": 0, "created": e["phys"] in name2phys})
                checks.append(None)
            elif k == "forget_named":
                req["events"].append({"k": "forget_named", "templ": code("T:" + e["templ"])}); checks.append(None)
            elif k == "invalidate":
                return None, "dict emptied outside invalidate_cache()"
            else:
                raise core.HarnessError(f"unexpected event {k}")
        req["events"].append({"k": "snap"}); checks.append(("snap", i))
    inv = {tuple(v): k for k, v in name2phys.items()}
    for x, c in codes.items():
        if x.startswith("N:"):
            inv[(c, 0)] = x[2:]
    return req, {"checks": checks, "names": inv, "codes": codes}


def compare_model(case, r, classes, req, info, m):
    """First disagreement between the Lean replay and the real run, or None."""
    codes = info["codes"]
    for (chk, o) in zip(info["checks"], m["out"]):
        if chk is None:
            continue
        if chk[0] == "hit" and o != chk[1]:
            return f"cache hit/miss: real {chk[1]} vs Lean {o}"
        if chk[0] == "refused" and o != chk[1]:
            return f"{chk[2]}: real {'refused' if chk[1] else 'carried out'} vs Lean {'refused' if o else 'carried out'}"
        if chk[0] == "snap":
            i = chk[1]
            cur, cl = r["snaps"][i + 1], classes[i + 1]
            model = {}
            for t, h, v, ow in o:
                nm = info["names"].get((t, h))
                if nm is None:
                    return f"step {i + 1}: Lean catalog holds an unknown name code {(t, h)}"
                model[nm] = (v, ow)
            if set(model) != set(cur):
                return (f"step {i + 1} ({r['steps'][i]['op']}): catalogs differ: only real {sorted(set(cur) - set(model))[:4]}, only Lean {sorted(set(model) - set(cur))[:4]}")
            for nm, (v, ow) in model.items():
                want = 0 if nm in cl["user"] else 2 if nm in cl["caller"] else 1
                if ow != want:
                    return f"step {i + 1}: owner of {nm}: oracle {want} vs Lean {ow} (0 user, 1 derived, 2 caller)"
                if ow != 1 and nm != INPUT_NAME[case.get("input_form", "name")] and codes.get("V:" + cur[nm]["sum"]) != v:
                    return f"step {i + 1}: contents of {nm} differ from the Lean catalog"
    return None


# --------------------------------------------------------------------------- driver
def evaluate(cases, scratch, drv):
    res = core.pmap(run_case_safe, [(c, str(scratch / f"c{i}.{c['world']['engine']}")) for i, c in enumerate(cases)], chunksize=1)
    outs = []
    reqs, owners = [], []
    for c, r in zip(cases, res):
        if core.impl_error(r):
            outs.append({"case": c, "error": f"{r['__error__']}: {r['text'][:300]}"})
            continue
        viol, classes = oracle(c, r)
        o = {"case": c, "r": r, "violations": viol, "classes": classes, "model": None, "skipped_model": None}
        req, info = trace_request(c, r, classes)
        if req is None:
            o["skipped_model"] = info
        else:
            reqs.append(req); owners.append((o, req, info))
        outs.append(o)
    for (o, req, info), m in zip(owners, drv.pbatch(reqs) if reqs else []):
        if "error" in m:
            raise core.HarnessError("model driver error: " + m["error"])
        o["model"] = compare_model(o["case"], o["r"], o["classes"], req, info, m) or "ok"
    return outs


def shrink(case, cls, scratch, drv):
    def fails(c):
        o = evaluate([c], scratch, drv)[0]
        return next((v for v in o.get("violations", []) if v[0] == cls), None)

    cur = json.loads(json.dumps(case))
    v = fails(cur)
    if v is None:
        return case, None
    cur["history"] = cur["history"][: v[2] + 1]
    budget = 10
    k = len(cur["history"]) - 2
    while k >= 0 and budget > 0:
        cand = json.loads(json.dumps(cur))
        del cand["history"][k]
        budget -= 1
        v2 = fails(cand)
        if v2 is not None:
            cur, v = cand, v2
        k -= 1
    return cur, v


def run(ctx: core.Ctx):
    ctx.rule = (
        "cases = random histories of 2-6 (thorough: 2-10) operations of C07's catalogue {estimate_u, estimate_m_from_label_column, EM, estimate_prior, predict(threshold?), deterministic_link, cluster, "
        "compute_tf_table, register_term_frequency_lookup, find_matches_to_new_records, compare_two_records, compute_graph_metrics, invalidate_cache, mutate-input+invalidate_cache, "
        "delete_tables_created_by_splink_from_db} with cleanup calls over-weighted and interleaved with register_table(data, name, overwrite) onto {user table, the same name in another letter case, user view, own registration, "
        "Splink-derived table, fresh name} with the data as {typed frame (also EMPTY), record dicts, dict of columns, pyarrow table, the NAME of an existing table}; register_table_predict / "
        "register_table_input_nodes_concat_with_tf / register_labels_table / register_term_frequency_lookup with overwrite in {False, True} (also the same call again); DatabaseAPI.register_multiple_tables of 2-3 tables "
        "(mixed existing/fresh names and forms, aliases given or None); Linker(frame, input_table_aliases=<existing name>) (one alias or [fresh, existing]); "
        "and SplinkDataFrame.drop_table_from_database_and_remove_from_cache(force) on {derived (force too), caller-registered, registered-through-table_management (held by the dict under a templated name), user, input} tables; "
        "one linker, its input handed over as {table name, table name + different alias, frame, frame + alias}, over a PERSISTENT duckdb/sqlite file pre-populated with "
        "customers + a view over it + 2-4 tables (some EMPTY) named like Splink's (__splink__df_concat, __splink__mine, predictions, ...); + fixed adversarial histories per engine; thorough adds debug_mode toggles. "
        "After EVERY step the catalog (names, kinds, columns, row checksums) is snapshotted with the harness's own SQL; oracle = the property on the snapshots; the observed events are replayed through the Lean state machine "
        "(hits, refusals, catalog names+owners+contents of user/caller tables after every step). non-trivial = history with >= 1 cleanup step that removed >= 1 derived table and >= 1 refusal or registration; distinct = hash of the case."
    )
    ctx.assumptions = [
        "one linker per DatabaseAPI (two linkers sharing one API: K1, recorded); debug_mode off in the quick tier (K3, thorough only, outside the model)",
        "name-form hypothesis WF: no user table is named <templated>_<9 hex of sha256(sql+uid)> or like one of Splink's own overwrite=True registrations (__splink__df_new_records_<uid>, __splink__compare_two_records_*_<uid>, __splink__bridges_<hash>); "
        "registering with overwrite=True under the physical name of a cached Splink table is generated (defect F24, repaired): the caller's table must survive cleanup",
        "tables registered through register_table & co. (new records, two-record inputs, TF lookups, __splink__bridges_<hash>) count as caller data: only required to stay intact; they are NOT removed by the cleanup calls (counted under leftover_after_cleanup)",
        "SQL DROP/CREATE/catalog semantics of DuckDB and SQLite are trusted; a history ends at the first raising call (failure atomicity is C08), its catalog is still checked",
        "a frame handed to Linker() without aliases is registered by Splink as __splink__input_table_0 with overwrite=True (name-form hypothesis): no user table of that name in those cases; the input is the user's from then on. "
        "A string handed to register_table & co. names an existing table: required only to change nothing. A name in another letter case is generated with overwrite=False only",
    ]
    ctx.lean = core.lean_check(PROP, ctx.thorough)
    drv = core.Driver()
    rng = ctx.rng
    scratch = core.scratch_dir()
    if ctx.replay:
        cases = [json.loads(open(ctx.replay).read())["replay"]["case"]]
    else:
        from harness import graphs

        cases = graphs.load_corpus(PROP) + adversarial_cases(rng) + [gen_case(rng, ctx.thorough) for _ in range(ctx.budget(300, 3000))]
        if ctx.thorough:
            cases += [gen_case(rng, True, debug=True) for _ in range(ctx.budget(0, 200))]
    outs = evaluate(cases, scratch, drv)
    concrete, broken = [], []
    for o in outs:
        c = o["case"]
        if "error" in o:
            concrete.append((c, "real code raised outside an operation", o["error"], -1))
            continue
        r = o["r"]
        n_clean = sum(1 for i, s in enumerate(r["steps"]) if s["op"] in CLEANUP_OPS and len(r["snaps"][i]) > len(r["snaps"][i + 1]))
        n_guard = sum(1 for s in r["steps"] if s["op"] in GUARDED_OPS and not s.get("skipped"))
        ctx.case({"world": c["world"], "user": c["user"], "history": c["history"], "input_form": c.get("input_form", "name")}, n_clean >= 1 and n_guard >= 1,
                 sample={"engine": c["world"]["engine"], "linker_input_form": c.get("input_form", "name"), "user_objects": [u["name"] for u in c["user"]], "history": [s["op"] for s in c["history"]],
                         "steps": [{k: v for k, v in s.items() if k not in ("ev0", "ev1")} for s in r["steps"]], "final_catalog": sorted(r["snaps"][-1])} if len(c["history"]) <= 5 else None)
        ctx.count("engine", c["world"]["engine"]); ctx.count("history_length", min(len(c["history"]), 20)); ctx.count("family", c.get("tag", "?"))
        ctx.count("linker_input_form", c.get("input_form", "name"))
        ctx.count("empty_user_tables", sum(1 for u in c["user"] if u["kind"] == "table" and not u["rows"]))
        for i, s in enumerate(r["steps"]):
            ctx.count("op", s["op"])
            if "raised" in s:
                ctx.count("op_raised", s["op"] + ": " + " ".join(s["raised"].split())[-90:])
            res = "refused" if s.get("refused") else "raised" if "raised" in s else "done"
            if s["op"] == "reg_table" and s.get("form") == "str":
                ctx.count("register_by_name_of_existing_table", f"alias = {s['target']} overwrite={s['overwrite']} -> {res}")
            elif s["op"] == "reg_table" and "target" in s:
                ctx.count("register", f"{s['target']} overwrite={s['overwrite']} -> {res}")
                ctx.count("register_data_form", f"{s.get('form', 'frame')}{' (0 rows)' if s.get('n_rows') == 0 else ''} -> {res}")
            if s["op"] == "reg_special" and "which" in s:
                ctx.count("register_through_table_management", f"{s['which']} overwrite={s['overwrite']} name {'present' if s.get('existed') else 'absent'} -> {res}")
            if s["op"] == "reg_multi" and "forms" in s:
                ctx.count("register_multiple_tables", f"{len(s['forms'])} tables ({'aliases' if s['names'] else 'no aliases'}{', some by name' if 'str' in s['forms'] else ''}) overwrite={s['overwrite']}{' one object' if s.get('shared') else ''} -> {res}")
            if s["op"] == "linker_alias" and "target" in s:
                ctx.count("linker_alias_onto_existing", f"{s['target']}{' (second of two)' if s['pair'] else ''} -> {res}")
            if s["op"] == "drop_df" and "target" in s:
                ctx.count("drop", f"{s['target']}{' (' + s['via'] + ')' if 'via' in s else ''} force={s['force']} -> {res}")
            if s["op"] in CLEANUP_OPS and "raised" not in s:
                ctx.count("tables_removed_by_cleanup", min(len(r["snaps"][i]) - len(r["snaps"][i + 1]), 8))
                for n in set(r["snaps"][i + 1]) - set(o["classes"][0]["user"]):
                    ctx.count("leftover_after_cleanup", "__splink__bridges_<hash>" if n.startswith("__splink__bridges_") else
                              "__splink__df_tf_<col>_<uid>_<uid4>" if n.startswith("__splink__df_tf_") else n.rsplit("_", 1)[0] + "_<uid>" if n.startswith("__splink__") else "caller's register_table")
        ctx.count("user_objects", len(c["user"]))
        if o["skipped_model"]:
            ctx.count("excluded_from_model_replay", o["skipped_model"])
        for cls, detail, idx in o["violations"]:
            concrete.append((c, cls, detail, idx))
        if not o["violations"] and o["model"] not in (None, "ok"):
            broken.append((c, o["model"]))
        elif o["model"] == "ok":
            ctx.traces_validated += 1
    reported = set()
    for c, cls, detail, idx in concrete:
        dbg = "[debug_mode]" in detail
        key = (cls, dbg)
        if key in reported or len(reported) >= 5:
            continue
        reported.add(key)
        if idx >= 0 and not ctx.replay and not c.get("tag", "").startswith("corpus"):
            c2, v = shrink(c, cls, scratch, drv)
            if v is not None:
                c, detail = c2, v[1]
        ops = [s["op"] for s in c.get("history", [])]
        ctx.violation("real behaviour violates C18: " + cls + (" in debug_mode" if dbg else ""), {"case": c, "detail": detail}, kind="concrete",
                      match_info={"failure": cls, "debug_mode": dbg, "engine": c["world"]["engine"], "last_op": ops[-1] if ops else None})
    if not ctx.violations:  # no NEW concrete violation (none at all, or only ones a registered known finding describes)
        if broken:
            c, w = broken[0]
            ctx.violation("correspondence Tables model <-> DatabaseAPI catalog no longer checks",
                          {"correspondence": "harness/props/c18.py trace replay: " + w, "case": c, "disagreeing_cases": len(broken), "searched_cases": ctx.evaluations,
                           "lean": ctx.lean.as_dict()}, kind="unproved")
        elif not ctx.lean.ok:
            ctx.violation("Lean obligations for C18 no longer check",
                          {"theorems": ctx.lean.as_dict()["undischarged"], "problems": ctx.lean.problems, "build_log_tail": ctx.lean.build_log[-1500:], "searched_cases": ctx.evaluations}, kind="unproved")
