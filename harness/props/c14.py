"""C14 — blocking analysis reports the numbers blocking actually produces.

Lean: Model/BlockingAnalysis.lean mirrors blocking_analysis.py (GROUP BY / USING pre-filter count, post-filter
count, cumulative per-match_key counts over the real blocking model, n_largest_blocks) and the *generated*
Gen.calculate_cartesian (re-translated from misc.py on every run); Properties/C14.lean proves pre = size of the
equi-join, post = number of blocked pairs, marginal counts = rows per match_key, cartesian = admissible pairs,
n_largest sorted and maximal.
Tie: the three public functions vs the compiled model on C01's tables and rules; a brute-force oracle on the real output.
"""
from __future__ import annotations

import json
import random

from harness import blockgen as bg
from harness import core
from harness.props import c01

PROP = "C14"
ALIASES = c01.ALIASES


def frames(case, api=None):
    from harness import impl

    idt = "str" if case["idtype"] == "str" else "int"
    types = {"unique_id": idt, "a": "str", "b": "str", "c": "int"}
    out = []
    rng = random.Random(case.get("shuffle", 0))
    for ti, rows in enumerate(case["tables"]):
        rows = list(rows)
        rng.shuffle(rows)
        if case.get("with_arr"):
            import pyarrow as pa

            cols = {"unique_id": pa.array([r["unique_id"] for r in rows], pa.string() if idt == "str" else pa.int64()),
                    "a": pa.array([r["a"] for r in rows], pa.string()), "b": pa.array([r["b"] for r in rows], pa.string()),
                    "c": pa.array([r["c"] for r in rows], pa.int64()), "arr": pa.array([r["arr"] for r in rows], pa.list_(pa.string())),
                    "arr2": pa.array([r.get("arr2") for r in rows], pa.list_(pa.string()))}
            if case["explicit_sd"]:
                cols["source_dataset"] = pa.array([ALIASES[ti]] * len(rows), pa.string())
            out.append(pa.table(cols))
            continue
        if case["explicit_sd"]:
            t2 = dict(types, source_dataset="str")
            out.append(impl.typed_frame([dict({k: r[k] for k in types}, source_dataset=ALIASES[ti]) for r in rows], t2))
        else:
            out.append(impl.typed_frame([{k: r[k] for k in types} for r in rows], types))
    return out


def rule_arg(r):
    text = bg.sql_top(r["ast"]) if r.get("top_unparenthesised") else bg.sql(r["ast"])
    if r["kind"] == "salted":
        return {"blocking_rule": text, "salting_partitions": r["n"]}
    if r["kind"] == "exploding":
        return {"blocking_rule": bg.sql(r["ast"]), "arrays_to_explode": bg.arr_cols(r["ast"]) or ["arr"]}
    return text


def run_impl(case: dict) -> dict:
    from splink.internals.blocking_analysis import (
        count_comparisons_from_blocking_rule,
        cumulative_comparisons_to_be_scored_from_blocking_rules_data,
        n_largest_blocks,
    )

    from harness import impl

    out = {}
    kw = {"unique_id_column_name": "unique_id"}
    if case["explicit_sd"] and len(case["tables"]) > 1:
        kw["source_dataset_column_name"] = "source_dataset"
    api = impl.make_api(case["engine"], threads=2)
    res = count_comparisons_from_blocking_rule(table_or_tables=frames(case), blocking_rule=rule_arg(case["rule"]), link_type=case["link_type"], db_api=api, **kw)
    out["pre"] = int(res["number_of_comparisons_generated_pre_filter_conditions"])
    out["post"] = int(res["number_of_comparisons_to_be_scored_post_filter_conditions"])
    out["equi"] = res["equi_join_conditions_identified"]
    out["filter"] = res["filter_conditions_identified"]
    api = impl.make_api(case["engine"], threads=2)
    df = cumulative_comparisons_to_be_scored_from_blocking_rules_data(table_or_tables=frames(case), blocking_rules=[rule_arg(r) for r in case["rules"]], link_type=case["link_type"], db_api=api, **kw)
    out["cumulative"] = [[int(r["row_count"]), int(r["cumulative_rows"]), int(r["start"])] for r in df.to_dict(orient="records")]
    out["cartesian"] = float(df["cartesian"].iloc[0]) if len(df) else None
    out["match_keys"] = [int(r["match_key"]) for r in df.to_dict(orient="records")]
    out["split_as_assumed"] = sorted(x.strip() for x in out["equi"].split(" AND ") if x.strip()) == expected_equi_strings(case["rule"]["ast"])
    out["atoms"] = reported_atoms(out["equi"])
    out["split_mismatch"] = split_mismatch(case, out["equi"], out["filter"])
    if out["atoms"]:
        api = impl.make_api(case["engine"], threads=2)
        top = n_largest_blocks(table_or_tables=frames(case), blocking_rule=rule_arg(case["rule"]), link_type=case["link_type"], db_api=api, n_largest=case["n"]).as_record_dict()
        out["nlargest"] = [[[r[k] for k in sorted(r) if k.startswith("key_")], int(r["count_l"]), int(r["count_r"]), int(r["block_count"])] for r in top]
    return out


run_impl_safe = core.safe(run_impl)


# --------------------------------------------------------------------------- harness-side semantics
def conjuncts(ast):
    if ast[0] == "and":
        return conjuncts(ast[1]) + conjuncts(ast[2])
    return [ast]


def equi_conjuncts(ast):
    """(equi atoms, filter conjuncts) as sqlglot's join_condition splits a conjunction."""
    eq, flt = [], []
    for c in conjuncts(ast):
        (eq if c[0] in ("eq", "sub") else flt).append(c)
    return eq, flt


def atom_string(a):
    if a[0] == "eq":
        return f"l.{a[1]} = r.{a[2]}"
    return f"SUBSTRING(l.{a[1]}, 1, 1) = SUBSTRING(r.{a[1]}, 1, 1)"


def reported_atoms(equi: str):
    """The equi-join keys the analysis says it identified (which equality conjuncts become keys is sqlglot's join_condition's
    business: e.g. of two keys on the same right-hand column it keeps one and leaves the other to the filter).  None = not parsable."""
    import re

    out = []
    for piece in (x.strip() for x in equi.split(" AND ") if x.strip()):
        m = re.fullmatch(r"l\.(\w+) = r\.(\w+)", piece)
        if m:
            out.append(("eq", m.group(1), m.group(2)))
            continue
        m = re.fullmatch(r"SUBSTRING\(l\.(\w+), 1, 1\) = SUBSTRING\(r\.(\w+), 1, 1\)", piece)
        if m and m.group(1) == m.group(2):
            out.append(("sub", m.group(1)))
            continue
        return None
    return out


def split_mismatch(case, equi: str, flt: str):
    """Is the reported split a split of THIS rule?  The rule's SQL and `(<reported equi conditions>) AND (<reported filter conditions>)`
    are evaluated by DuckDB (as plain SQL text, independently of Splink) on every ordered pair of the case's records; returns the
    number of pairs on which one is TRUE and the other is not, or a string if the reported text does not parse."""
    import duckdb

    from harness import impl

    recs = c01.records(case)
    if not recs:
        return 0
    rows = [{"a": r["a"], "b": r["b"], "c": r["c"]} for r in recs]
    df = impl.typed_frame(rows, {"a": "str", "b": "str", "c": "int"})  # noqa: F841  (read by duckdb through the variable name)
    con = duckdb.connect(":memory:")
    try:
        con.register("t", df)
        rule = bg.sql_top(case["rule"]["ast"]) if case["rule"].get("top_unparenthesised") else bg.sql(case["rule"]["ast"])
        parts = [f"({x})" for x in (equi, flt) if x and x.strip()]
        split = " AND ".join(parts) if parts else "TRUE"
        q = f"select count(*) from t as l cross join t as r where coalesce(({rule}), false) <> coalesce(({split}), false)"
        return int(con.execute(q).fetchone()[0])
    except duckdb.Error as e:
        return f"not evaluable: {str(e)[:200]}"
    finally:
        con.close()


def split_problem(case, r):
    """The reported split must be a split of this rule (see split_mismatch)."""
    sm = r.get("split_mismatch")
    if isinstance(sm, int) and sm > 0:
        return (f"the reported equi-join conditions ({r['equi']!r}) AND filter conditions ({r.get('filter')!r}) are not the rule: they differ from it on "
                f"{sm} ordered record pairs, so the analysis counts another rule than the one blocking applies")
    return None


def expected_equi_strings(ast):
    out = []
    for a in equi_conjuncts(ast)[0]:
        if a[0] == "eq":
            out.append(f"l.{a[1]} = r.{a[2]}")
        else:
            out.append(f"SUBSTRING(l.{a[1]}, 1, 1) = SUBSTRING(r.{a[1]}, 1, 1)")
    return sorted(out)


def key_of(rec, atoms, side):
    vals = []
    for a in atoms:
        if a[0] == "eq":
            v = rec[a[1] if side == "l" else a[2]]
        else:
            v = rec[a[1]]
            v = None if v is None else v[:1]
        if v is None:
            return None
        vals.append(v)
    return tuple(vals)


def backend_lt(case):
    return c01.backend_link_type(case)


def model_request(case, atoms=None):
    recs = c01.records(case)
    multi = len(case["tables"]) > 1
    keys = bg.ranks([bg.composite_key(r, multi) for r in recs])
    sds = bg.ranks([r["source_dataset"] for r in recs])
    if atoms is None:
        atoms, _ = equi_conjuncts(case["rule"]["ast"])
    codes: dict = {}

    def code(k):
        if k is None:
            return None
        return codes.setdefault(k, len(codes))

    keyL = [code(key_of(r, atoms, "l")) for r in recs]
    keyR = [code(key_of(r, atoms, "r")) for r in recs]
    counts = [len(t) for t in case["tables"]]
    if case["link_type"] == "link_and_dedupe" or case["link_type"] == "link_only":
        counts = [c for c in counts if c > 0]  # GROUP BY source_dataset: empty tables form no group
    return {
        "op": "blockanalysis", "lt": backend_lt(case), "m": len(recs), "key": keys, "sd": sds, "salt": [core.f2b(0.5)] * len(recs),
        "firstSd": 0, "rule": {"kind": "plain", "n": 0, "eval": c01.rule_matrix(dict(case["rule"], kind="plain"), recs)},
        "keyL": keyL, "keyR": keyR, "hasKeys": bool(atoms),
        "rules": [{"kind": r["kind"], "n": r.get("n", 0), "eval": c01.rule_matrix(r, recs)} for r in case["rules"]],
        "counts": [core.f2b(float(c)) for c in counts], "user_lt": case["link_type"], "n": case["n"],
    }, codes


def oracle(case, atoms=None):
    """Brute force, independent of the Lean model."""
    recs = c01.records(case)
    multi = len(case["tables"]) > 1
    lt = backend_lt(case)
    ck = [bg.composite_key(r, multi) for r in recs]
    m = len(recs)
    first = ALIASES[0]

    def adm(l, r):
        if lt == "two_dataset_link_only":
            return recs[l]["source_dataset"] == first and recs[r]["source_dataset"] != first
        if l == r or not (ck[l] < ck[r]):
            return False
        return lt != "link_only" or recs[l]["source_dataset"] != recs[r]["source_dataset"]

    post = sum(1 for l in range(m) for r in range(m) if adm(l, r) and bg.ev(case["rule"]["ast"], recs[l], recs[r]) is True)
    if atoms is None:
        atoms, _ = equi_conjuncts(case["rule"]["ast"])
    if lt == "two_dataset_link_only":
        L = [i for i in range(m) if recs[i]["source_dataset"] == first]
        R = [i for i in range(m) if recs[i]["source_dataset"] != first]
    else:
        L = R = list(range(m))
    if atoms:
        pre = sum(1 for l in L for r in R if key_of(recs[l], atoms, "l") is not None and key_of(recs[l], atoms, "l") == key_of(recs[r], atoms, "r"))
    else:
        pre = len(L) * len(R)
    blocks = {}
    for l in L:
        k = key_of(recs[l], atoms, "l")
        if k is not None:
            blocks.setdefault(k, [0, 0])[0] += 1
    for r in R:
        k = key_of(recs[r], atoms, "r")
        if k is not None and k in blocks:
            blocks[k][1] += 1
    blocks = {k: v for k, v in blocks.items() if v[1] > 0}
    # cumulative: first rule TRUE in the emitted orientation
    per_rule = [0] * len(case["rules"])
    for l in range(m):
        for r in range(m):
            if not adm(l, r):
                continue
            if lt == "two_dataset_link_only" and False:
                pass
            for i, ru in enumerate(case["rules"]):
                v = bg.explode_true(ru["ast"], recs[l], recs[r]) if ru["kind"] == "exploding" else bg.ev(ru["ast"], recs[l], recs[r])
                if v is True:
                    per_rule[i] += 1
                    break
    sizes = [len(t) for t in case["tables"]]
    tot = sum(sizes)
    if case["link_type"] == "link_only":
        cart = (tot * tot - sum(s * s for s in sizes)) / 2
    else:
        cart = tot * (tot - 1) / 2
    return {"post": post, "pre": pre, "blocks": blocks, "per_rule": per_rule, "cartesian": cart}


def verdict(case, r):
    sp = split_problem(case, r)
    if sp:
        return sp
    o = oracle(case, r.get("atoms"))
    if r["post"] != o["post"]:
        return f"post-filter count {r['post']} but blocking scores {o['post']} pairs for this rule and link type"
    if r["pre"] != o["pre"]:
        return f"pre-filter count {r['pre']} but the sum over key values of left x right block sizes is {o['pre']}"
    got = [c[0] for c in r["cumulative"]]
    if got != o["per_rule"]:
        return f"marginal counts per rule {got} but scored pairs per match_key are {o['per_rule']}"
    run = 0
    for (rc, cum, start) in r["cumulative"]:
        if start != run or cum != run + rc:
            return f"cumulative_rows/start inconsistent: {r['cumulative']}"
        run += rc
    if r["cartesian"] is not None and not core.close(r["cartesian"], o["cartesian"], 1e-12):
        return f"cartesian {r['cartesian']} but there are {o['cartesian']} admissible pairs"
    if "nlargest" in r:
        want = sorted((v[0] * v[1] for v in o["blocks"].values()), reverse=True)[: case["n"]]
        gotb = [x[3] for x in r["nlargest"]]
        if gotb != want:
            return f"n_largest_blocks block sizes {gotb} but the largest blocks are {want}"
        for key, cl, cr, bc in r["nlargest"]:
            k = tuple(key)
            if k not in o["blocks"] or o["blocks"][k] != [cl, cr] or bc != cl * cr:
                return f"n_largest_blocks row {key, cl, cr, bc} does not match the true block {o['blocks'].get(k)}"
    return None


# --------------------------------------------------------------------------- generation
def gen_case(rng: random.Random, engine=None):
    engine = engine or rng.choice(["duckdb", "duckdb", "sqlite"])
    k = rng.choice([1, 2, 2, 3])
    link_type = "dedupe_only" if k == 1 else rng.choice(["link_only", "link_and_dedupe"])
    idtype = rng.choice(["int", "str"])
    # an array column + exploding rules in the cumulative rule list (duckdb): the id-pair table of an exploding rule must hold only
    # the pairs not produced by the rules before it
    with_arr = engine == "duckdb" and rng.random() < 0.3
    tables = bg.gen_tables(rng, k, max_rows=rng.choice([3, 6, 9]), idtype=idtype, min_rows=1, with_arr=with_arr)
    asym = rng.random() < 0.3
    # single rule: a conjunction with equi and filter parts, sometimes an OR (no equi keys)
    r = rng.random()
    if r < 0.15:
        ast = bg.gen_rule(rng, depth=2, asym_ok=asym)
    else:
        # equi atoms use every column at most once per side (sqlglot's join_condition keeps one key per column;
        # which conjunct it keeps otherwise is its business, not Splink's)
        cols = rng.sample(["a", "b", "c"], rng.randint(1, 3))
        parts = []
        for c in cols:
            parts.append(("sub", c) if c != "c" and rng.random() < 0.25 else ("eq", c, c))
        if rng.random() < 0.3:
            # a cross-column key; with 50% the SAME left column as another key but a different right column
            # (l.a = r.a AND l.a = r.b): both are equi-join keys and both must be kept
            x = rng.choice([p_[1] for p_ in parts if p_[0] == "eq" and p_[1] in ("a", "b")] or ["a"]) if rng.random() < 0.5 else rng.choice(["a", "b"])
            parts.append(("eq", x, "b" if x == "a" else "a"))
        if asym and rng.random() < 0.6:
            parts.append(rng.choice([("lt", "c"), ("lit", "l", "a", "x"), ("lit", "r", "b", "y")]))
        if rng.random() < 0.4:
            parts.append(("or", bg.gen_atom(rng, asym), bg.gen_atom(rng, asym)) if rng.random() < 0.5 else ("not", bg.gen_atom(rng, False)))
        rng.shuffle(parts)
        ast = parts[0]
        for p in parts[1:]:
            ast = ("and", ast, p)
    rules = []
    for _ in range(rng.randint(1, 4)):
        kind = "plain"  # salted rules make the cumulative function raise (no salt column in its concat table): loud, outside C14's quantifier
        if with_arr and rng.random() < 0.5:
            east = bg.gen_rule(rng, depth=1, asym_ok=False, arr=True)
            if not bg.uses_arr(east):
                east = ("and", ("arr", "arr"), east) if rng.random() < 0.5 else ("arr", "arr")
            if rng.random() < 0.35:  # explode TWO array columns in one rule
                east = ("and", ("and", ("arr", "arr"), ("arr", "arr2")), east) if east not in (("arr", "arr"), ("arr", "arr2")) else ("and", ("arr", "arr"), ("arr", "arr2"))
            rules.append({"kind": "exploding", "ast": east})
            continue
        d = {"kind": kind, "ast": bg.gen_rule(rng, depth=2, asym_ok=asym), "top_unparenthesised": rng.random() < 0.5}
        if kind == "salted":
            d["n"] = rng.randint(2, 3)
        rules.append(d)
    return {"engine": engine, "link_type": link_type, "tables": tables, "idtype": idtype, "with_arr": with_arr, "explicit_sd": rng.random() < 0.7,
            "rule": {"kind": "plain", "ast": ast, "top_unparenthesised": rng.random() < 0.5}, "rules": rules, "n": rng.choice([1, 2, 5]),
            "shuffle": rng.randrange(1 << 30), "tag": "random"}


def normalise(case):
    def tup(x):
        return tuple(tup(y) for y in x) if isinstance(x, list) else x

    c = dict(case)
    c["rule"] = dict(case["rule"], ast=tup(case["rule"]["ast"]))
    c["rules"] = [dict(r, ast=tup(r["ast"])) for r in case["rules"]]
    return c


def compare(ctx, cases, drv):
    res = core.pmap(run_impl_safe, cases, chunksize=2)
    # the model is asked about the equi-join keys the real code says it identified (sqlglot's choice; checked to be a split of
    # the rule by split_problem), so that no case has to be excluded because of that choice
    reqs = [model_request(c, [tuple(a) for a in r["atoms"]] if isinstance(r, dict) and r.get("atoms") is not None else None)[0] for c, r in zip(cases, res)]
    mres = drv.pbatch(reqs)
    problems = []
    for c, req, r, m in zip(cases, reqs, res, mres):
        o = oracle(c)
        atoms, flt = equi_conjuncts(c["rule"]["ast"])
        ctx.case({k: c[k] for k in ("tables", "rule", "rules", "link_type", "engine", "n")}, o["post"] > 0 or sum(o["per_rule"]) > 0,
                 sample={"case": {k: c[k] for k in ("tables", "rule", "rules", "link_type", "engine", "n")}, "impl": r if isinstance(r, dict) and "pre" in r else None} if sum(len(t) for t in c["tables"]) <= 4 else None)
        ctx.count("engine", c["engine"]); ctx.count("link_type", backend_lt(c)); ctx.count("n_equi_keys", len(atoms)); ctx.count("has_filter_part", bool(flt))
        ctx.count("n_rules", len(c["rules"])); ctx.count("exploding_rules_in_list", sum(1 for x in c["rules"] if x["kind"] == "exploding")); ctx.count("asymmetric", not bg.symmetric(c["rule"]["ast"]) or any(not bg.symmetric(x["ast"]) for x in c["rules"]))
        ctx.count("null_keys", any(k is None for k in req["keyL"]))
        if core.impl_error(r):
            ctx.count("impl_error", r["__error__"])
            problems.append((c, f"real code raised {r['__error__']}: {r['text'][:300]}", True))
            continue
        if "error" in m:
            raise core.HarnessError("model driver error: " + m["error"])
        if r.get("atoms") is None:
            ctx.count("excluded", "reported equi-join conditions not parsable by the harness")
            continue
        ctx.count("equi_split_as_harness_would_assume", bool(r["split_as_assumed"]))
        v = verdict(c, r)
        if v is not None:
            problems.append((c, v, True))
            continue
        bad = None
        if m["pre"] != r["pre"] or m["post"] != r["post"]:
            bad = f"pre/post impl ({r['pre']}, {r['post']}) model ({m['pre']}, {m['post']})"
        elif m["cumulative"] != r["cumulative"]:
            bad = f"cumulative impl {r['cumulative']} model {m['cumulative']}"
        elif r["cartesian"] is not None and (m["cartesian"] is None or not core.close(core.b2f(m["cartesian"]), r["cartesian"], 1e-12)):
            bad = f"cartesian impl {r['cartesian']} model {m['cartesian'] and core.b2f(m['cartesian'])}"
        elif "nlargest" in r and [x[3] for x in r["nlargest"]] != [b[1] * b[2] for b in m["nlargest"]]:
            bad = f"n_largest impl {[x[3] for x in r['nlargest']]} model {[b[1] * b[2] for b in m['nlargest']]}"
        if bad:
            problems.append((c, "analysis outputs differ from Lean model BlockingAnalysis: " + bad, False))
            continue
        ctx.traces_validated += 1
    return problems


def impl_fails(case, key=None):
    case = normalise(case)
    r = run_impl_safe(case)
    if "__error__" in r:
        return key is None or key.get("failure") == "real code raised"
    v = verdict(case, r)
    return v is not None and (key is None or failure_key(case, v) == key)


def shrink(case, key=None):
    def fails(c):  # the same failure, not merely some failure
        return impl_fails(c, key)

    cur = json.loads(json.dumps(case))
    budget = 40
    changed = True
    while changed and budget > 0:
        changed = False
        for ti in range(len(cur["tables"])):
            for ri in range(len(cur["tables"][ti]) - 1, -1, -1):
                if budget <= 0 or len(cur["tables"][ti]) <= 1:
                    break
                cand = json.loads(json.dumps(cur))
                del cand["tables"][ti][ri]
                budget -= 1
                if fails(cand):
                    cur, changed = cand, True
        for k in range(len(cur["rules"]) - 1, -1, -1):
            if budget <= 0 or len(cur["rules"]) <= 1:
                break
            cand = json.loads(json.dumps(cur))
            del cand["rules"][k]
            budget -= 1
            if fails(cand):
                cur, changed = cand, True
    return normalise(cur)


def absorption_shape(ast) -> bool:
    """Some OR in the rule has a disjunct whose conjuncts strictly include another disjunct's (A OR (A AND C)): the shape on
    which the installed sqlglot's join_condition/simplify returns A AND C (finding K13)."""
    def disjuncts(a):
        return disjuncts(a[1]) + disjuncts(a[2]) if a[0] == "or" else [a]

    if ast[0] == "or":
        sets = [frozenset(map(repr, conjuncts(d))) for d in disjuncts(ast)]
        if any(x < y for x in sets for y in sets):
            return True
    return any(absorption_shape(x) for x in ast[1:] if isinstance(x, (tuple, list)) and x and x[0] in ("and", "or", "not"))


def failure_key(case, what):
    cls = classify(what)
    if cls == "reported split is not the rule":
        return {"failure": cls, "absorption_shape": absorption_shape(case["rule"]["ast"])}
    return {"failure": cls}


def classify(what):
    for pat, cls in [("are not the rule", "reported split is not the rule"), ("post-filter count", "post-filter count differs from scored pairs"), ("pre-filter count", "pre-filter count differs from block products"),
                     ("marginal counts", "marginal counts differ from match_key counts"), ("cumulative_rows/start", "cumulative totals inconsistent"),
                     ("cartesian", "cartesian differs from admissible pairs"), ("n_largest", "n_largest_blocks wrong"), ("real code raised", "real code raised")]:
        if pat in what:
            return cls
    return what[:60]


def translation_validation(ctx, drv):
    """The generated Lean calculate_cartesian must agree with the Python function it was translated from."""
    from splink.internals.misc import calculate_cartesian

    rng = random.Random(ctx.seed + 5)
    reqs, want = [], []
    for _ in range(300):
        lt = rng.choice(["dedupe_only", "link_only", "link_and_dedupe", "bogus"])
        counts = [rng.randint(0, 40) for _ in range(rng.choice([1, 1, 2, 3, 4]))]
        try:
            w = float(calculate_cartesian([{"count": c} for c in counts], lt))
        except ValueError:
            w = None
        reqs.append({"op": "arith", "fn": "calculate_cartesian", "args": [[core.f2b(float(c)) for c in counts], lt]})
        want.append((counts, lt, w))
    bad = []
    for (counts, lt, w), m in zip(want, drv.batch(reqs)):
        got = None if m.get("raised") else core.b2f(m["value"])
        if (got is None) != (w is None) or (w is not None and got != w):
            bad.append((counts, lt, w, got))
    ctx.extra_cov["translation_validation"] = {"function": "calculate_cartesian", "inputs": len(reqs), "disagreements": len(bad)}
    return bad


def run(ctx: core.Ctx):
    from harness.translate import tarith

    ctx.rule = (
        "cases = C01's tables (1-3 tables x 1-9 rows, NULL-heavy tiny domains, int/str ids, explicit source_dataset column so that composite ids are reproducible) x a single rule "
        "(conjunction of 1-3 equi-join atoms incl. substr keys, optional filter parts: <, cross-column equality, literals, OR, NOT; 15% arbitrary rules without equi keys) "
        "x a rule list of length 1-4 (plain, salted on duckdb) x n in {1,2,5}; all link types; duckdb+sqlite; the three public functions are called on fresh DatabaseAPIs. "
        "+ 300 translation-validation inputs for the generated calculate_cartesian. non-trivial = some pair is scored; distinct = hash of (tables, rule, rules, link type, engine, n)."
    )
    ctx.assumptions = [
        "the equi-join / filter split of a rule is sqlglot's (join_condition); the harness assumes top-level conjuncts that are l/r column or substr equalities are the equi keys and checks the reported counts against that",
        "pairs are oriented by composite-id order; 70% of the cases carry an explicit source_dataset column, 30% leave the dataset names to Splink (argument order must then decide the orientation, as it does in predict())",
    ]
    errs = tarith.write({"calculate_cartesian"})
    ctx.lean = core.lean_check(PROP, ctx.thorough)
    if errs:
        ctx.lean.ok = False
        ctx.lean.problems += ["T-arith: " + e for e in errs]
    drv = core.Driver()
    tv_bad = translation_validation(ctx, drv)
    if ctx.replay:
        cases = [normalise(json.loads(open(ctx.replay).read())["replay"]["case"])]
    else:
        from harness import graphs

        cases = [normalise(c) for c in graphs.load_corpus(PROP)] + [gen_case(ctx.rng) for _ in range(ctx.budget(220, 4000))]
    problems = compare(ctx, cases, drv)
    if (not ctx.lean.ok or tv_bad or any(not conc for _, _, conc in problems)) and not ctx.replay:
        ctx.notes.append("proof, translation or correspondence broke: ran the widened failing-input search")
        rng2 = random.Random(ctx.seed + 7919)
        problems += compare(ctx, [gen_case(rng2) for _ in range(1500)], drv)
    concrete = [(c, w) for c, w, conc in problems if conc]
    broken = [(c, w) for c, w, conc in problems if not conc]
    reported = set()
    for c, w in concrete:
        key = failure_key(c, w)
        kid = json.dumps(key, sort_keys=True)
        if kid in reported or len(reported) >= 5:
            continue
        reported.add(kid)
        small = shrink(c, key)
        rr = run_impl_safe(small)
        what = (verdict(small, rr) if "pre" in rr else f"real code raised {rr['__error__']}: {rr['text'][:300]}") or w
        ctx.violation("real output violates C14: " + classify(what),
                      {"case": small, "rule_sql": rule_arg(small["rule"]), "rules_sql": [rule_arg(r) for r in small["rules"]], "observed": rr,
                       "expected": {k: (v if k != "blocks" else {str(a): b for a, b in v.items()}) for k, v in oracle(small).items()}, "detail": what},
                      kind="concrete", match_info={**failure_key(small, what), "asymmetric": not bg.symmetric(small["rule"]["ast"]) or any(not bg.symmetric(x["ast"]) for x in small["rules"]), "explicit_sd": small["explicit_sd"]})
    if not concrete:
        if broken:
            c, w = broken[0]
            ctx.violation("correspondence BlockingAnalysis model <-> blocking_analysis.py no longer checks",
                          {"correspondence": "harness/props/c14.py compare(): " + w, "case": c, "disagreeing_cases": len(broken), "searched_cases": ctx.evaluations, "lean": ctx.lean.as_dict()}, kind="unproved")
        elif tv_bad:
            ctx.violation("translation validation of Generated/Arith.lean (calculate_cartesian) no longer checks",
                          {"correspondence": "generated Lean definition vs misc.calculate_cartesian", "disagreements": tv_bad[:5], "searched_cases": ctx.evaluations}, kind="unproved")
        elif not ctx.lean.ok:
            ctx.violation("Lean obligations for C14 no longer check",
                          {"theorems": ctx.lean.as_dict()["undischarged"], "problems": ctx.lean.problems, "build_log_tail": ctx.lean.build_log[-1500:], "searched_cases": ctx.evaluations}, kind="unproved")
