"""C14 — blocking analysis reports the numbers blocking actually produces.

Lean: Model/BlockingAnalysis.lean mirrors blocking_analysis.py (GROUP BY / USING pre-filter count, post-filter
count, cumulative per-match_key counts over the real blocking model, n_largest_blocks) and the *generated*
Gen.calculate_cartesian (re-translated from misc.py on every run); Properties/C14.lean proves pre = size of the
equi-join, post = number of blocked pairs, marginal counts = rows per match_key, cartesian = admissible pairs,
n_largest sorted and maximal.
Tie: the three public functions vs the compiled model on C01's tables and rules; a brute-force oracle on the real output.
SQL level (c14_sql.py): the counting statements the code emits now are regenerated as Rel terms (Generated/BCountSql.lean, T-sql) with the
equi-join keys as parameters; Properties/C14Sql.lean proves that under Rel.eval they compute the equi-join size / the blocks / |L|x|R| /
truly largest blocks / the per-dataset row counts for every table contents; the regenerated terms are evaluated on the cases of this run
and compared with the engine's results (translation_validation).
"""
from __future__ import annotations

import json
import random

from harness import blockgen as bg
from harness import core
from harness.props import c01

PROP = "C14"
ALIASES = c01.ALIASES


def frames(case, api=None):
    from harness import impl

    idt = "str" if case["idtype"] == "str" else "int"
    types = {"unique_id": idt, "a": "str", "b": "str", "c": "int"}
    out = []
    rng = random.Random(case.get("shuffle", 0))
    for ti, rows in enumerate(case["tables"]):
        rows = list(rows)
        rng.shuffle(rows)
        if case.get("with_arr"):
            import pyarrow as pa

            cols = {"unique_id": pa.array([r["unique_id"] for r in rows], pa.string() if idt == "str" else pa.int64()),
                    "a": pa.array([r["a"] for r in rows], pa.string()), "b": pa.array([r["b"] for r in rows], pa.string()),
                    "c": pa.array([r["c"] for r in rows], pa.int64()), "arr": pa.array([r["arr"] for r in rows], pa.list_(pa.string())),
                    "arr2": pa.array([r.get("arr2") for r in rows], pa.list_(pa.string()))}
            if case["explicit_sd"]:
                cols["source_dataset"] = pa.array([ALIASES[ti]] * len(rows), pa.string())
            out.append(pa.table(cols))
            continue
        if case["explicit_sd"]:
            t2 = dict(types, source_dataset="str")
            out.append(impl.typed_frame([dict({k: r[k] for k in types}, source_dataset=ALIASES[ti]) for r in rows], t2))
        else:
            out.append(impl.typed_frame([{k: r[k] for k in types} for r in rows], types))
    return layout(case, out)


def layout(case, out):
    """Input layouts (all optional, absent = the tables as generated): `preconcat` = ONE pre-concatenated table carrying its own source
    dataset column (rows of the datasets interleaved); `uid_col` / `sd_col` = other names for the unique id / source dataset columns;
    `col_perm` = the tables after the first list the same columns in another order."""
    uid, sd = case.get("uid_col", "unique_id"), case.get("sd_col", "source_dataset")
    arrow = bool(case.get("with_arr"))
    rng = random.Random(case.get("shuffle", 0) + 17)
    if case.get("preconcat"):
        if arrow:
            import pyarrow as pa

            one = pa.concat_tables(out)
            idx = list(range(one.num_rows))
            rng.shuffle(idx)
            one = one.take(pa.array(idx, pa.int64()))  # an explicit index type: an empty list would be typed null
        else:
            import pandas as pd

            one = pd.concat(out, ignore_index=True)
            idx = list(range(len(one)))
            rng.shuffle(idx)
            one = one.iloc[idx].reset_index(drop=True)
        out = [one]
    ren = {"unique_id": uid, "source_dataset": sd}
    if uid != "unique_id" or sd != "source_dataset":
        out = [t.rename_columns([ren.get(c, c) for c in t.column_names]) if arrow else t.rename(columns=ren) for t in out]
    if case.get("col_perm"):
        for ti in range(1, len(out)):
            cols = list(out[ti].column_names if arrow else out[ti].columns)
            rng.shuffle(cols)
            out[ti] = out[ti].select(cols) if arrow else out[ti][cols]
    return out


def table_names(case):
    """Names under which a session's tables live in the database."""
    if case.get("preconcat") or len(case["tables"]) == 1:
        return ["people"]
    return ["left_t", "right_t", "third_t"][: len(case["tables"])]


def call_kw(case):
    """unique_id_column_name / source_dataset_column_name as the case wants them given (absent options = as before: the unique id name
    always given, the source dataset name given iff the tables carry the column)."""
    kw = {}
    uid, sd = case.get("uid_col", "unique_id"), case.get("sd_col", "source_dataset")
    if uid != "unique_id" or not case.get("uid_arg_omitted"):
        kw["unique_id_column_name"] = uid
    if len(case["tables"]) > 1 and (case["explicit_sd"] or sd != "source_dataset"):
        if not (sd == "source_dataset" and case.get("sd_arg_omitted") and not case.get("preconcat")):
            kw["source_dataset_column_name"] = sd  # not explicit_sd: Splink has to create the column under this name
    return kw


def rule_arg(r):
    text = bg.sql_top(r["ast"]) if r.get("top_unparenthesised") else bg.sql(r["ast"])
    if r["kind"] == "salted":
        return {"blocking_rule": text, "salting_partitions": r["n"]}
    if r["kind"] == "exploding":
        return {"blocking_rule": bg.sql(r["ast"]), "arrays_to_explode": bg.arr_cols(r["ast"]) or ["arr"]}
    return text


def rule_obj(r, form=None):
    """The rule in the form the case asks for: None/'str' = SQL text (dict for salted / exploding rules, as before); 'dict' = a dict
    for every kind; 'creator' = a CustomRule object; 'block_on' = block_on(...) for the same-column / substr equality conjuncts,
    AND-ed (And creator) with a CustomRule of the remaining conjuncts."""
    arg = rule_arg(r)
    if form in (None, "str"):
        return arg
    if form == "dict":
        return arg if isinstance(arg, dict) else {"blocking_rule": arg}
    from splink.internals.blocking_rule_library import And, CustomRule, block_on

    if form == "block_on" and r["kind"] == "plain":
        cj = conjuncts(r["ast"])
        keys = [c for c in cj if (c[0] == "eq" and c[1] == c[2]) or c[0] == "sub"]
        rest = [c for c in cj if c not in keys]
        if keys:
            b = block_on(*[c[1] if c[0] == "eq" else f"substr({c[1]}, 1, 1)" for c in keys])
            if not rest:
                return b
            ast = rest[0]
            for c in rest[1:]:
                ast = ("and", ast, c)
            return And(b, CustomRule(bg.sql(ast)))
    return CustomRule(**arg) if isinstance(arg, dict) else CustomRule(arg)


def count_kw(case):
    kw = {}
    if case.get("no_post"):
        kw["compute_post_filter_count"] = False
    if case.get("max_rows_limit") is not None:
        kw["max_rows_limit"] = case["max_rows_limit"]
    return kw


def post_value(res):
    v = res["number_of_comparisons_to_be_scored_post_filter_conditions"]
    return v if isinstance(v, str) else int(v)


def cumulative_rows(df):
    recs = df if isinstance(df, list) else df.to_dict(orient="records")
    return ([[int(r["row_count"]), int(r["cumulative_rows"]), int(r["start"])] for r in recs], float(recs[0]["cartesian"]) if recs else None,
            [int(r["match_key"]) for r in recs])


def chart_records(chart):
    d = chart if isinstance(chart, dict) else chart.to_dict()
    data = d.get("data", {})
    return data["values"] if "values" in data else d["datasets"][data["name"]]


def nlargest_rows(sdf):
    return [[[r[k] for k in sorted(r) if k.startswith("key_")], int(r["count_l"]), int(r["count_r"]), int(r["block_count"])] for r in sdf.as_record_dict()]


def make_api(case):
    from harness import impl

    api = impl.make_api(case["engine"], threads=2)
    if case.get("debug_mode"):
        api.debug_mode = True  # every CTE becomes a table of its own, printed; nothing is cached
    return api


def run_impl(case: dict) -> dict:
    if case.get("debug_mode"):
        import contextlib
        import io

        with contextlib.redirect_stdout(io.StringIO()):
            return _run_impl(case)
    return _run_impl(case)


def _run_impl(case: dict) -> dict:
    if "steps" in case:
        return run_session(case)
    from splink.internals.blocking_analysis import (
        count_comparisons_from_blocking_rule,
        cumulative_comparisons_to_be_scored_from_blocking_rules_data,
        n_largest_blocks,
    )

    from harness import impl

    out = {}
    kw = call_kw(case)
    # the rule objects are built once and the SAME object goes to every call of the case (creators must be reusable)
    single = rule_obj(case["rule"], case.get("rule_form"))
    rules = [single] if case.get("rules_is_rule") else [rule_obj(r, case.get("rules_form")) for r in case["rules"]]

    def tt():  # `bare_table`: a single table is given as it is, not in a list
        fr = frames(case)
        return fr[0] if case.get("bare_table") and len(fr) == 1 else fr

    api = make_api(case)
    res = count_comparisons_from_blocking_rule(table_or_tables=tt(), blocking_rule=single, link_type=case["link_type"], db_api=api, **kw, **count_kw(case))
    out["pre"] = int(res["number_of_comparisons_generated_pre_filter_conditions"])
    out["post"] = post_value(res)
    out["equi"] = res["equi_join_conditions_identified"]
    out["filter"] = res["filter_conditions_identified"]
    api = make_api(case)
    ckw = dict(kw, max_rows_limit=case["cum_limit"]) if case.get("cum_limit") is not None else kw
    try:
        df = cumulative_comparisons_to_be_scored_from_blocking_rules_data(table_or_tables=tt(), blocking_rules=rules, link_type=case["link_type"], db_api=api, **ckw)
        out["cumulative"], out["cartesian"], out["match_keys"] = cumulative_rows(df)
    except ValueError as e:
        if case.get("cum_limit") is None or "max_rows_limit" not in str(e):
            raise
        out["cumulative_refused"] = str(e)[:200]
        out["cumulative"], out["cartesian"], out["match_keys"] = [], None, []
    out["split_as_assumed"] = sorted(x.strip() for x in out["equi"].split(" AND ") if x.strip()) == expected_equi_strings(case["rule"]["ast"])
    out["atoms"] = reported_atoms(out["equi"])
    out["split_mismatch"] = split_mismatch(case, out["equi"], out["filter"])
    if out["atoms"]:
        api = make_api(case)
        out["nlargest"] = nlargest_rows(n_largest_blocks(table_or_tables=tt(), blocking_rule=single, link_type=case["link_type"], db_api=api, n_largest=case["n"]))
    return out


run_impl_safe = core.safe(run_impl)


# --------------------------------------------------------------------------- sessions: several calls on ONE database API
# A session is {..layout/engine fields.., "tables_by": "name"|"frame", "storage": "table"|"registered", "steps": [step, ...]}; a step is
# {"tables": the contents AT THE TIME OF THE CALL, "change": how they became so (None = untouched | "raw_dml" = insert/update/delete on the
#  connection | "raw_replace" = drop + create on the connection | "register_overwrite" = db_api.register_table(df, name, overwrite=True) |
#  "new_frames"), "fn": "count"|"cumulative_data"|"cumulative_chart"|"n_largest", "rule" or "rules", "n", optional "by" (this call only),
#  optional "expect_error" (a call that must fail: unknown column; the calls after it are judged as usual)}.
# Every call is judged on its own by the same brute-force clauses as a single call, against the contents of ITS step.
RAW = "contents changed with raw SQL"
CHANGE_CLASS = {None: "contents unchanged", "raw_dml": RAW, "raw_replace": RAW, "register_overwrite": "contents replaced with register_table(overwrite=True)",
                "new_frames": "new frames given"}
CUM_FNS = ("cumulative_data", "cumulative_chart")
FN_NAME = {"count": "count_comparisons_from_blocking_rule", "cumulative_data": "cumulative_comparisons_to_be_scored_from_blocking_rules",
           "cumulative_chart": "cumulative_comparisons_to_be_scored_from_blocking_rules", "n_largest": "n_largest_blocks"}
FN_CALLED = {"count": "count_comparisons_from_blocking_rule", "cumulative_data": "cumulative_comparisons_to_be_scored_from_blocking_rules_data",
             "cumulative_chart": "cumulative_comparisons_to_be_scored_from_blocking_rules_chart", "n_largest": "n_largest_blocks"}


def step_case(case, i):
    st = case["steps"][i]
    rule = st.get("rule") or st["rules"][0]
    return dict({k: v for k, v in case.items() if k != "steps"}, tables=st["tables"], rule=rule, rules=st.get("rules") or [rule], n=st.get("n", 1))


def _records(df):
    import numbers

    import pandas as pd

    out = []
    for rec in df.astype(object).to_dict(orient="records"):
        out.append({k: (None if v is None or v is pd.NA or (isinstance(v, float) and v != v) else (int(v) if isinstance(v, numbers.Integral) else v)) for k, v in rec.items()})
    return out


def _raw_create(engine, con, name, df):
    """(Re)create table `name` behind Splink's back."""
    if engine == "duckdb":
        import duckdb

        for kind in ("table", "view"):
            try:
                con.execute(f"drop {kind} if exists {name}")
            except duckdb.CatalogException:
                pass
        con.register("__audit_src", df)
        con.execute(f"create table {name} as select * from __audit_src")
        con.unregister("__audit_src")
    else:
        df.to_sql(name, con, index=False, if_exists="replace")
        con.commit()


def _raw_dml(engine, con, name, old, new, idcols):
    """delete / update / insert statements on the connection that turn the rows `old` of table `name` into `new`."""
    def key(r):
        return tuple(r[c] for c in idcols)

    o, n = {key(r): r for r in old}, {key(r): r for r in new}
    where = " and ".join(f"{c} = ?" for c in idcols)
    for k_ in o:
        if k_ not in n:
            con.execute(f"delete from {name} where {where}", list(k_))
    for k_, r in n.items():
        cols = list(r)
        if k_ not in o:
            con.execute(f"insert into {name} ({', '.join(cols)}) values ({', '.join('?' for _ in cols)})", [r[c] for c in cols])
        elif o[k_] != r:
            setc = [c for c in cols if c not in idcols]
            con.execute(f"update {name} set {', '.join(f'{c} = ?' for c in setc)} where {where}", [r[c] for c in setc] + list(k_))
    if engine != "duckdb":
        con.commit()


def run_session(case: dict) -> dict:
    from splink.internals.blocking_analysis import (
        count_comparisons_from_blocking_rule,
        cumulative_comparisons_to_be_scored_from_blocking_rules_chart,
        cumulative_comparisons_to_be_scored_from_blocking_rules_data,
        n_largest_blocks,
    )

    from harness import impl

    eng = case["engine"]
    api = make_api(case)
    con = api._con if eng == "duckdb" else api.con
    named = case["tables_by"] == "name"
    sc0 = step_case(case, 0)
    names, kw = table_names(sc0), call_kw(sc0)
    uid, sd = case.get("uid_col", "unique_id"), case.get("sd_col", "source_dataset")
    objs, is_view, prev, outs = {}, {}, None, []

    def obj(r):  # one object per distinct rule of the session, reused by every call that names the rule
        k_ = json.dumps(r, sort_keys=True, default=str)
        if k_ not in objs:
            objs[k_] = rule_obj(r, case.get("rule_form"))
        return objs[k_]

    for i, st in enumerate(case["steps"]):
        sc = step_case(case, i)
        fr = frames(sc)
        if named:
            recs = [_records(df) for df in fr]
            for j, (name, df) in enumerate(zip(names, fr)):
                idcols = [c for c in (sd, uid) if c in df.columns]
                same = prev is not None and sorted(map(repr, prev[j])) == sorted(map(repr, recs[j]))
                how = st.get("change")
                if i == 0:
                    if case.get("storage") == "registered":
                        api.register_table(df, name)
                        is_view[name] = eng == "duckdb"
                    else:
                        _raw_create(eng, con, name, df)
                        is_view[name] = False
                elif how == "register_overwrite":  # every table of the step, changed or not (re-registration)
                    api.register_table(df, name, overwrite=True)
                    is_view[name] = eng == "duckdb"
                elif same:
                    continue
                elif how == "raw_dml" and not is_view[name]:
                    _raw_dml(eng, con, name, prev[j], recs[j], idcols)
                elif how in ("raw_dml", "raw_replace"):
                    _raw_create(eng, con, name, df)
                    is_view[name] = False
                else:
                    raise core.HarnessError(f"session step {i}: contents differ from the previous step but no change is declared")
            prev = recs
        tt = names if named and st.get("by", "name") == "name" else fr
        if case.get("bare_table") and len(tt) == 1:
            tt = tt[0]
        fn = st["fn"]

        def call(_):
            o = {"fn": fn}
            if fn == "count":
                res = count_comparisons_from_blocking_rule(table_or_tables=tt, blocking_rule=obj(st["rule"]), link_type=case["link_type"], db_api=api, **kw)
                o.update(pre=int(res["number_of_comparisons_generated_pre_filter_conditions"]), post=post_value(res), equi=res["equi_join_conditions_identified"], filter=res["filter_conditions_identified"])
            elif fn == "cumulative_data":
                df_ = cumulative_comparisons_to_be_scored_from_blocking_rules_data(table_or_tables=tt, blocking_rules=[obj(r) for r in st["rules"]], link_type=case["link_type"], db_api=api, **kw)
                o["cumulative"], o["cartesian"], o["match_keys"] = cumulative_rows(df_)
            elif fn == "cumulative_chart":
                ch = cumulative_comparisons_to_be_scored_from_blocking_rules_chart(table_or_tables=tt, blocking_rules=[obj(r) for r in st["rules"]], link_type=case["link_type"], db_api=api, **kw)
                o["cumulative"], o["cartesian"], o["match_keys"] = cumulative_rows(chart_records(ch))
            else:
                # which conjuncts are the keys is not part of this function's result: ask a FRESH api (same rule, same contents)
                res = count_comparisons_from_blocking_rule(table_or_tables=frames(sc), blocking_rule=rule_obj(st["rule"], case.get("rule_form")), link_type=case["link_type"],
                                                           db_api=make_api(case), **kw)
                o.update(equi=res["equi_join_conditions_identified"], filter=res["filter_conditions_identified"])
                if reported_atoms(o["equi"]):  # as in the single-call family: without equi-join keys the function has nothing to list
                    o["nlargest"] = nlargest_rows(n_largest_blocks(table_or_tables=tt, blocking_rule=obj(st["rule"]), link_type=case["link_type"], db_api=api, n_largest=st.get("n", 1)))
                else:
                    o["skipped"] = "no equi-join keys identified"
            if "equi" in o:
                o["atoms"] = reported_atoms(o["equi"])
                o["split_mismatch"] = split_mismatch(sc, o["equi"], o["filter"])
            return o

        o = core.safe(call)(None)
        if st.get("expect_error"):
            o = {"fn": fn, "expected_error": o.get("__error__")}
        outs.append(o)
    return {"steps": outs}


def step_verdict(sc, fn, o):
    if fn in ("count", "n_largest"):
        sp = split_problem(sc, o)
        if sp:
            return sp
    oc = oracle(sc, o.get("atoms"))
    if fn == "count":
        return verdict_count(sc, o, oc)
    if fn in CUM_FNS:
        return verdict_cumulative(sc, o, oc)
    return verdict_nlargest(sc, o, oc)


def session_failures(case, r):
    """[(what, failure key, step index)] - every call of the session that does not report the numbers of the CURRENT contents."""
    out, last = [], None
    for i, st in enumerate(case["steps"]):
        if st.get("change"):
            last = st["change"]
        o = r["steps"][i]
        if st.get("expect_error"):
            continue
        sc, fn = step_case(case, i), st["fn"]
        if core.impl_error(o):
            v, cls = f"real code raised {o['__error__']}: {o['text'][:300]}", "real code raised"
        elif (fn in ("count", "n_largest") and o.get("atoms") is None) or "skipped" in o:
            continue  # reported equi-join conditions not parsable by the harness (counted as excluded) / n_largest_blocks without keys
        else:
            v = step_verdict(sc, fn, o)
            if v is None:
                continue
            cls = classify(v)
            payload = [o.get(k_) for k_ in ("pre", "post", "cumulative", "cartesian", "nlargest")]
            for j in range(i - 1, -1, -1):
                sj = case["steps"][j]
                if sj["tables"] == st["tables"] or sj.get("expect_error"):
                    continue
                if step_verdict(dict(sc, tables=sj["tables"]), fn, o) is None:
                    cls = "result is that of earlier table contents"
                    v = f"the result is right for the contents the tables had at call {j + 1}, not for their current contents: " + v
                    break
                oj = r["steps"][j]
                if FN_NAME[sj["fn"]] == FN_NAME[fn] and (sj.get("rule"), sj.get("rules")) == (st.get("rule"), st.get("rules")) and [oj.get(k_) for k_ in ("pre", "post", "cumulative", "cartesian", "nlargest")] == payload:
                    cls = "result is that of earlier table contents"
                    v = f"the result is what the same call returned at call {j + 1}, when the tables had other contents: " + v
                    break
        by = st.get("by", "name") if case["tables_by"] == "name" else "frame"
        what = f"call {i + 1} of {len(case['steps'])} on one database API [{FN_CALLED[fn]}, tables given by {by}, {CHANGE_CLASS[last]}]: {v}"
        key = {"failure": cls, "session_fn": FN_NAME[fn], "last_change": CHANGE_CLASS[last]}
        if cls == "reported split is not the rule":
            key.update(absorption_shape=absorption_shape(sc["rule"]["ast"]), dnf_bare_disjunct_shape=dnf_bare_disjunct_shape(sc["rule"]["ast"]))
        out.append((what, key, i))
    return out


def session_failure(case, r):
    f = session_failures(case, r)
    return f[0] if f else None


# --------------------------------------------------------------------------- harness-side semantics
def conjuncts(ast):
    if ast[0] == "and":
        return conjuncts(ast[1]) + conjuncts(ast[2])
    return [ast]


def equi_conjuncts(ast):
    """(equi atoms, filter conjuncts) as sqlglot's join_condition splits a conjunction."""
    eq, flt = [], []
    for c in conjuncts(ast):
        (eq if c[0] in ("eq", "sub") else flt).append(c)
    return eq, flt


def atom_string(a):
    if a[0] == "eq":
        return f"l.{a[1]} = r.{a[2]}"
    return f"SUBSTRING(l.{a[1]}, 1, 1) = SUBSTRING(r.{a[1]}, 1, 1)"


def reported_atoms(equi: str):
    """The equi-join keys the analysis says it identified (which equality conjuncts become keys is sqlglot's join_condition's
    business: e.g. of two keys on the same right-hand column it keeps one and leaves the other to the filter).  None = not parsable."""
    import re

    out = []
    for piece in (x.strip() for x in equi.split(" AND ") if x.strip()):
        m = re.fullmatch(r'l\."?(\w+)"? = r\."?(\w+)"?', piece)
        if m:
            out.append(("eq", m.group(1), m.group(2)))
            continue
        m = re.fullmatch(r'SUBSTRING\(l\."?(\w+)"?, 1, 1\) = SUBSTRING\(r\."?(\w+)"?, 1, 1\)', piece)
        if m and m.group(1) == m.group(2):
            out.append(("sub", m.group(1)))
            continue
        return None
    return out


def split_mismatch(case, equi: str, flt: str):
    """Is the reported split a split of THIS rule?  The rule's SQL and `(<reported equi conditions>) AND (<reported filter conditions>)`
    are evaluated by DuckDB (as plain SQL text, independently of Splink) on every ordered pair of the case's records; returns the
    number of pairs on which one is TRUE and the other is not, or a string if the reported text does not parse."""
    import duckdb

    from harness import impl

    recs = c01.records(case)
    if not recs:
        return 0
    rows = [{"a": r["a"], "b": r["b"], "c": r["c"]} for r in recs]
    df = impl.typed_frame(rows, {"a": "str", "b": "str", "c": "int"})  # noqa: F841  (read by duckdb through the variable name)
    con = duckdb.connect(":memory:")
    try:
        con.register("t", df)
        rule = bg.sql_top(case["rule"]["ast"]) if case["rule"].get("top_unparenthesised") else bg.sql(case["rule"]["ast"])
        parts = [f"({x})" for x in (equi, flt) if x and x.strip()]
        split = " AND ".join(parts) if parts else "TRUE"
        q = f"select count(*) from t as l cross join t as r where coalesce(({rule}), false) <> coalesce(({split}), false)"
        return int(con.execute(q).fetchone()[0])
    except duckdb.Error as e:
        return f"not evaluable: {str(e)[:200]}"
    finally:
        con.close()


def split_problem(case, r):
    """The reported split must be a split of this rule (see split_mismatch)."""
    sm = r.get("split_mismatch")
    if isinstance(sm, int) and sm > 0:
        return (f"the reported equi-join conditions ({r['equi']!r}) AND filter conditions ({r.get('filter')!r}) are not the rule: they differ from it on "
                f"{sm} ordered record pairs, so the analysis counts another rule than the one blocking applies")
    return None


def expected_equi_strings(ast):
    out = []
    for a in equi_conjuncts(ast)[0]:
        if a[0] == "eq":
            out.append(f"l.{a[1]} = r.{a[2]}")
        else:
            out.append(f"SUBSTRING(l.{a[1]}, 1, 1) = SUBSTRING(r.{a[1]}, 1, 1)")
    return sorted(out)


def key_of(rec, atoms, side):
    vals = []
    for a in atoms:
        if a[0] == "eq":
            v = rec[a[1] if side == "l" else a[2]]
        else:
            v = rec[a[1]]
            v = None if v is None else v[:1]
        if v is None:
            return None
        vals.append(v)
    return tuple(vals)


def backend_lt(case):
    if case.get("preconcat"):
        return case["link_type"]  # ONE input table: never the two-table link_only form, whatever number of datasets it holds
    return c01.backend_link_type(case)


def model_cartesian(req, m):
    """The model's Cartesian count behind the Python control flow of _cumulative_comparisons_to_be_scored_from_blocking_rules: with fewer
    than two non-empty tables a link_only job has nothing to link (0, repair F41); otherwise the translated calculate_cartesian."""
    if req["user_lt"] == "link_only" and len(req["counts"]) < 2:
        return 0.0
    return None if m["cartesian"] is None else core.b2f(m["cartesian"])


def model_request(case, atoms=None):
    recs = c01.records(case)
    multi = len(case["tables"]) > 1
    keys = bg.ranks([bg.composite_key(r, multi) for r in recs])
    sds = bg.ranks([r["source_dataset"] for r in recs])
    if atoms is None:
        atoms, _ = equi_conjuncts(case["rule"]["ast"])
    codes: dict = {}

    def code(k):
        if k is None:
            return None
        return codes.setdefault(k, len(codes))

    keyL = [code(key_of(r, atoms, "l")) for r in recs]
    keyR = [code(key_of(r, atoms, "r")) for r in recs]
    counts = [len(t) for t in case["tables"]]
    if case["link_type"] == "link_and_dedupe" or case["link_type"] == "link_only":
        counts = [c for c in counts if c > 0]  # GROUP BY source_dataset: empty tables form no group
    elif len(counts) > 1:
        counts = [sum(counts)]  # dedupe_only over one pre-concatenated table: one count(*)
    return {
        "op": "blockanalysis", "lt": backend_lt(case), "m": len(recs), "key": keys, "sd": sds, "salt": [core.f2b(0.5)] * len(recs),
        "firstSd": 0, "rule": {"kind": "plain", "n": 0, "eval": c01.rule_matrix(dict(case["rule"], kind="plain"), recs)},
        "keyL": keyL, "keyR": keyR, "hasKeys": bool(atoms),
        "rules": [{"kind": r["kind"], "n": r.get("n", 0), "eval": c01.rule_matrix(r, recs)} for r in case["rules"]],
        "counts": [core.f2b(float(c)) for c in counts], "user_lt": case["link_type"], "n": case["n"],
    }, codes


def oracle(case, atoms=None):
    """Brute force, independent of the Lean model."""
    recs = c01.records(case)
    multi = len(case["tables"]) > 1
    lt = backend_lt(case)
    ck = [bg.composite_key(r, multi) for r in recs]
    m = len(recs)
    first = ALIASES[0]

    def adm(l, r):
        if lt == "two_dataset_link_only":
            return recs[l]["source_dataset"] == first and recs[r]["source_dataset"] != first
        if l == r or not (ck[l] < ck[r]):
            return False
        return lt != "link_only" or recs[l]["source_dataset"] != recs[r]["source_dataset"]

    post = sum(1 for l in range(m) for r in range(m) if adm(l, r) and bg.ev(case["rule"]["ast"], recs[l], recs[r]) is True)
    if atoms is None:
        atoms, _ = equi_conjuncts(case["rule"]["ast"])
    if lt == "two_dataset_link_only":
        L = [i for i in range(m) if recs[i]["source_dataset"] == first]
        R = [i for i in range(m) if recs[i]["source_dataset"] != first]
    else:
        L = R = list(range(m))
    if atoms:
        pre = sum(1 for l in L for r in R if key_of(recs[l], atoms, "l") is not None and key_of(recs[l], atoms, "l") == key_of(recs[r], atoms, "r"))
    else:
        pre = len(L) * len(R)
    blocks = {}
    for l in L:
        k = key_of(recs[l], atoms, "l")
        if k is not None:
            blocks.setdefault(k, [0, 0])[0] += 1
    for r in R:
        k = key_of(recs[r], atoms, "r")
        if k is not None and k in blocks:
            blocks[k][1] += 1
    blocks = {k: v for k, v in blocks.items() if v[1] > 0}
    # cumulative: first rule TRUE in the emitted orientation
    per_rule = [0] * len(case["rules"])
    for l in range(m):
        for r in range(m):
            if not adm(l, r):
                continue
            if lt == "two_dataset_link_only" and False:
                pass
            for i, ru in enumerate(case["rules"]):
                v = bg.explode_true(ru["ast"], recs[l], recs[r]) if ru["kind"] == "exploding" else bg.ev(ru["ast"], recs[l], recs[r])
                if v is True:
                    per_rule[i] += 1
                    break
    sizes = [len(t) for t in case["tables"]]
    tot = sum(sizes)
    if case["link_type"] == "link_only":
        cart = (tot * tot - sum(s * s for s in sizes)) / 2
    else:
        cart = tot * (tot - 1) / 2
    return {"post": post, "pre": pre, "blocks": blocks, "per_rule": per_rule, "cartesian": cart}


def verdict_count(case, r, o):
    """count_comparisons_from_blocking_rule: pre = sum of block products, post = pairs blocking scores (or, with the options, the
    documented placeholder: 'not computed' without the post-filter count; the count only if the pre-filter count is BELOW max_rows_limit)."""
    if r["pre"] != o["pre"]:
        if r["post"] != o["post"] and not isinstance(r["post"], str):
            return f"post-filter count {r['post']} but blocking scores {o['post']} pairs for this rule and link type (and pre-filter count {r['pre']} but the sum of block products is {o['pre']})"
        return f"pre-filter count {r['pre']} but the sum over key values of left x right block sizes is {o['pre']}"
    if case.get("no_post"):
        want = "not computed"
    elif case.get("max_rows_limit") is not None and not (o["pre"] < case["max_rows_limit"]):
        want = "exceeded max_rows_limit, see warning"
    else:
        want = o["post"]
    if r["post"] != want:
        if isinstance(want, str) or isinstance(r["post"], str):
            return f"post-filter count reported as {r['post']!r} but with compute_post_filter_count={not case.get('no_post')}, max_rows_limit={case.get('max_rows_limit')} and a pre-filter count of {o['pre']} it must be {want!r}"
        return f"post-filter count {r['post']} but blocking scores {o['post']} pairs for this rule and link type"
    return None


def verdict_cumulative(case, r, o):
    if case.get("cum_limit") is not None:
        # rules = [the single rule]: the function must refuse iff that rule's pre-filter count EXCEEDS max_rows_limit
        if (o["pre"] > case["cum_limit"]) != ("cumulative_refused" in r):
            return (f"cumulative counts with max_rows_limit={case['cum_limit']} and a rule generating {o['pre']} comparisons pre-filter: "
                    + ("refused although the limit is not exceeded" if "cumulative_refused" in r else "not refused although the limit is exceeded"))
        if "cumulative_refused" in r:
            return None
    got = [c[0] for c in r["cumulative"]]
    if got != o["per_rule"]:
        return f"marginal counts per rule {got} but scored pairs per match_key are {o['per_rule']}"
    if r.get("match_keys") is not None and r["match_keys"] != list(range(len(o["per_rule"]))):
        return f"marginal counts: match_keys {r['match_keys']} are not 0..{len(o['per_rule']) - 1} in order"
    run = 0
    for (rc, cum, start) in r["cumulative"]:
        if start != run or cum != run + rc:
            return f"cumulative_rows/start inconsistent: {r['cumulative']}"
        run += rc
    if r["cartesian"] is not None and not core.close(r["cartesian"], o["cartesian"], 1e-12):
        return f"cartesian {r['cartesian']} but there are {o['cartesian']} admissible pairs"
    return None


def verdict_nlargest(case, r, o):
    want = sorted((v[0] * v[1] for v in o["blocks"].values()), reverse=True)[: case["n"]]
    gotb = [x[3] for x in r["nlargest"]]
    if gotb != want:
        return f"n_largest_blocks block sizes {gotb} but the largest blocks are {want}"
    for key, cl, cr, bc in r["nlargest"]:
        k = tuple(key)
        if k not in o["blocks"] or o["blocks"][k] != [cl, cr] or bc != cl * cr:
            return f"n_largest_blocks row {key, cl, cr, bc} does not match the true block {o['blocks'].get(k)}"
    return None


def verdict(case, r):
    if "steps" in case:
        f = session_failure(case, r)
        return f and f[0]
    sp = split_problem(case, r)
    if sp:
        return sp
    o = oracle(case, r.get("atoms"))
    v = verdict_count(case, r, o)
    if v is None:
        v = verdict_cumulative(case, r, o)
    if v is None and "nlargest" in r:
        v = verdict_nlargest(case, r, o)
    return v


# --------------------------------------------------------------------------- generation
def gen_case(rng: random.Random, engine=None):
    engine = engine or rng.choice(["duckdb", "duckdb", "sqlite"])
    k = rng.choice([1, 2, 2, 3])
    link_type = "dedupe_only" if k == 1 else rng.choice(["link_only", "link_and_dedupe"])
    idtype = rng.choice(["int", "str"])
    # an array column + exploding rules in the cumulative rule list (duckdb): the id-pair table of an exploding rule must hold only
    # the pairs not produced by the rules before it
    with_arr = engine == "duckdb" and rng.random() < 0.3
    tables = bg.gen_tables(rng, k, max_rows=rng.choice([3, 6, 9]), idtype=idtype, min_rows=1, with_arr=with_arr)
    asym = rng.random() < 0.3
    # single rule: a conjunction with equi and filter parts, sometimes an OR (no equi keys)
    r = rng.random()
    if r < 0.15:
        ast = bg.gen_rule(rng, depth=2, asym_ok=asym)
    else:
        # equi atoms use every column at most once per side (sqlglot's join_condition keeps one key per column;
        # which conjunct it keeps otherwise is its business, not Splink's)
        cols = rng.sample(["a", "b", "c"], rng.randint(1, 3))
        parts = []
        for c in cols:
            parts.append(("sub", c) if c != "c" and rng.random() < 0.25 else ("eq", c, c))
        if rng.random() < 0.3:
            # a cross-column key; with 50% the SAME left column as another key but a different right column
            # (l.a = r.a AND l.a = r.b): both are equi-join keys and both must be kept
            x = rng.choice([p_[1] for p_ in parts if p_[0] == "eq" and p_[1] in ("a", "b")] or ["a"]) if rng.random() < 0.5 else rng.choice(["a", "b"])
            parts.append(("eq", x, "b" if x == "a" else "a"))
        if asym and rng.random() < 0.6:
            parts.append(rng.choice([("lt", "c"), ("lit", "l", "a", "x"), ("lit", "r", "b", "y")]))
        if rng.random() < 0.4:
            parts.append(("or", bg.gen_atom(rng, asym), bg.gen_atom(rng, asym)) if rng.random() < 0.5 else ("not", bg.gen_atom(rng, False)))
        rng.shuffle(parts)
        ast = parts[0]
        for p in parts[1:]:
            ast = ("and", ast, p)
    rules = []
    for _ in range(rng.randint(1, 4)):
        kind = "plain"  # salted rules make the cumulative function raise (no salt column in its concat table): loud, outside C14's quantifier
        if with_arr and rng.random() < 0.5:
            east = bg.gen_rule(rng, depth=1, asym_ok=False, arr=True)
            if not bg.uses_arr(east):
                east = ("and", ("arr", "arr"), east) if rng.random() < 0.5 else ("arr", "arr")
            if rng.random() < 0.35:  # explode TWO array columns in one rule
                east = ("and", ("and", ("arr", "arr"), ("arr", "arr2")), east) if east not in (("arr", "arr"), ("arr", "arr2")) else ("and", ("arr", "arr"), ("arr", "arr2"))
            rules.append({"kind": "exploding", "ast": east})
            continue
        d = {"kind": kind, "ast": bg.gen_rule(rng, depth=2, asym_ok=asym), "top_unparenthesised": rng.random() < 0.5}
        if kind == "salted":
            d["n"] = rng.randint(2, 3)
        rules.append(d)
    return {"engine": engine, "link_type": link_type, "tables": tables, "idtype": idtype, "with_arr": with_arr, "explicit_sd": rng.random() < 0.7,
            "rule": {"kind": "plain", "ast": ast, "top_unparenthesised": rng.random() < 0.5}, "rules": rules, "n": rng.choice([1, 2, 5]),
            "shuffle": rng.randrange(1 << 30), "tag": "random"}


def gen_conj_rule(rng, asym):
    """A conjunction with equi-join keys and (optionally) filter parts - the single-rule shape of gen_case."""
    cols = rng.sample(["a", "b", "c"], rng.randint(1, 3))
    parts = [("sub", c) if c != "c" and rng.random() < 0.25 else ("eq", c, c) for c in cols]
    if rng.random() < 0.25:
        x = rng.choice(["a", "b"])
        parts.append(("eq", x, "b" if x == "a" else "a"))
    if asym and rng.random() < 0.6:
        parts.append(rng.choice([("lt", "c"), ("lit", "l", "a", "x"), ("lit", "r", "b", "y")]))
    if rng.random() < 0.35:
        parts.append(("or", bg.gen_atom(rng, asym), bg.gen_atom(rng, asym)) if rng.random() < 0.5 else ("not", bg.gen_atom(rng, False)))
    rng.shuffle(parts)
    ast = parts[0]
    for p_ in parts[1:]:
        ast = ("and", ast, p_)
    return {"kind": "plain", "ast": ast, "top_unparenthesised": rng.random() < 0.5}


def gen_layout(rng, c):
    """Input layouts and argument forms on top of a case (see layout / call_kw)."""
    k = len(c["tables"])
    r = rng.random()
    if r < 0.25:
        c["uid_col"] = "rec_id"
    elif r < 0.5:
        c["uid_arg_omitted"] = True  # the default of unique_id_column_name
    if k > 1:
        r = rng.random()
        if r < 0.25:
            c["sd_col"] = "src"  # explicit_sd: the tables carry it under this name; otherwise Splink has to create it under this name
        elif r < 0.5 and c["explicit_sd"]:
            c["sd_arg_omitted"] = True  # None instead of the default name
        if rng.random() < 0.3:
            c["col_perm"] = True
        if rng.random() < 0.2:
            # ONE pre-concatenated table with its own source dataset column; every link type (dedupe_only: the composite id is unique)
            c.update(preconcat=True, explicit_sd=True, link_type=rng.choice(["link_only", "link_and_dedupe", "dedupe_only"]))
            c.pop("sd_arg_omitted", None)
    if (k == 1 or c.get("preconcat")) and rng.random() < 0.4:
        c["bare_table"] = True
    if rng.random() < 0.07:
        c["debug_mode"] = True
    return c


def gen_options(rng, c):
    """Non-default options, boundary values and layouts on top of a gen_case case."""
    gen_layout(rng, c)
    if rng.random() < 0.2:
        c["n"] = rng.choice([0, 0, 3, 50])
    c["rule_form"] = rng.choice([None, None, "creator", "block_on", "block_on", "dict"])
    c["rules_form"] = rng.choice([None, None, "creator", "block_on", "dict"])
    if rng.random() < 0.06:
        # an input table without rows (with some probability every table)
        every = rng.random() < 0.15
        ti = rng.randrange(len(c["tables"]))
        c["tables"] = [[] if every or i == ti else t for i, t in enumerate(c["tables"])]
    r = rng.random()
    if r < 0.08:
        c["no_post"] = True
    elif r < 0.33:
        # max_rows_limit on / next to the pre-filter count (as the harness would split the rule; the verdict uses the reported split)
        c["max_rows_limit"] = max(0, oracle(c)["pre"] + rng.choice([-1, 0, 0, 1]))
    if rng.random() < 0.15:
        # the rule list IS the single rule (same object): max_rows_limit of the cumulative function on / next to its pre-filter count
        c["rules"] = [json.loads(json.dumps(c["rule"]))]
        c["rules_is_rule"] = True
        c["cum_limit"] = max(0, oracle(c)["pre"] + rng.choice([-1, 0, 0, 1]))
    if not c.get("rules_is_rule") and rng.random() < 0.1:
        c["rule"] = dict(c["rule"], kind="salted", n=rng.randint(2, 3))  # salting does not change which pairs are scored
    c["tag"] = "options"
    return normalise(c)


def mutate_tables(rng, tables, idtype):
    new = json.loads(json.dumps(tables))
    which = [ti for ti in range(len(new)) if rng.random() < 0.7] or [rng.randrange(len(new))]

    def val(col):
        return None if rng.random() < 0.2 else rng.choice(bg.INT_DOM if col == "c" else bg.STR_DOM)

    def insert(rows, n):
        used = {r["unique_id"] for r in rows}
        pool = [u for u in (range(16) if idtype == "int" else [f"i{j}" for j in range(16)]) if u not in used]
        for u in rng.sample(pool, min(len(pool), n)):
            rows.append({"unique_id": u, "a": val("a"), "b": val("b"), "c": val("c")})

    for ti in which:
        rows = new[ti]
        for _ in range(rng.choice([0, 0, 1, 2])):
            if len(rows) > 1:
                rows.pop(rng.randrange(len(rows)))
        for _ in range(rng.choice([0, 1, 1, 2])):
            if rows:
                col = rng.choice("abc")
                rng.choice(rows)[col] = val(col)
        insert(rows, rng.choice([0, 1, 2, 3]))
    if new == tables:
        insert(new[which[0]], 2)
    return new


def gen_session(rng: random.Random):
    """2-4 calls of the analysis functions on ONE database API: tables by name (created with raw SQL or registered through Splink) or as
    frames, same or different rules, contents changed in between through Splink (register_table overwrite) or behind its back (raw SQL)."""
    engine = rng.choice(["duckdb", "duckdb", "sqlite"])
    k = rng.choice([1, 1, 2, 2, 2, 3])
    link_type = "dedupe_only" if k == 1 else rng.choice(["link_only", "link_only", "link_and_dedupe"])
    idtype = rng.choice(["int", "str"])
    tables = bg.gen_tables(rng, k, max_rows=rng.choice([3, 5, 7]), idtype=idtype, min_rows=1)
    asym = rng.random() < 0.3
    c = {"engine": engine, "link_type": link_type, "tables": tables, "idtype": idtype, "with_arr": False, "explicit_sd": rng.random() < 0.6,
         "shuffle": rng.randrange(1 << 30), "tag": "session", "tables_by": "name" if rng.random() < 0.8 else "frame", "storage": rng.choice(["table", "table", "registered"]),
         "rule_form": rng.choice([None, None, None, "creator", "block_on"])}
    gen_layout(rng, c)
    singles = [gen_conj_rule(rng, asym) for _ in range(rng.choice([1, 2]))]
    lists = [[{"kind": "plain", "ast": bg.gen_rule(rng, depth=2, asym_ok=asym), "top_unparenthesised": rng.random() < 0.5} for _ in range(rng.randint(1, 3))] for _ in range(rng.choice([1, 2]))]
    all_fns = ["count", "count", "cumulative_data", "cumulative_chart", "n_largest"]
    repeat = rng.random() < 0.55  # the same call again and again
    fns = [rng.choice(all_fns)] if repeat else rng.sample(["count", "cumulative_data", "cumulative_chart", "n_largest"], 2)
    if repeat:
        singles, lists = singles[:1], lists[:1]
    n = rng.choice([1, 2, 5])
    steps, is_view = [], engine == "duckdb" and c["storage"] == "registered"
    for i in range(rng.choice([2, 2, 3, 3, 4])):
        change = None
        if i > 0 and rng.random() < 0.8:
            if c["tables_by"] == "frame":
                change = "new_frames"
            elif is_view:
                change = rng.choice(["register_overwrite", "raw_replace"])
            else:
                change = rng.choice(["raw_dml", "raw_dml", "raw_replace", "register_overwrite"])
            if not (change == "register_overwrite" and rng.random() < 0.15):  # else: re-registration of unchanged contents
                tables = mutate_tables(rng, tables, idtype)
            if change == "register_overwrite":
                is_view = engine == "duckdb"
            elif change == "raw_replace":
                is_view = False
        fn = rng.choice(fns)
        st = {"tables": tables, "change": change, "fn": fn}
        if fn in CUM_FNS:
            st["rules"] = rng.choice(lists)
        else:
            st["rule"] = rng.choice(singles)
            st["n"] = n
        if c["tables_by"] == "name" and rng.random() < 0.1:
            st["by"] = "frame"
        steps.append(st)
    if rng.random() < 0.12:
        # a call that fails (unknown column) somewhere in the session: the calls after it are judged as usual
        at = rng.randrange(len(steps))
        steps.insert(at, {"tables": steps[at - 1]["tables"] if at else steps[0]["tables"], "change": None, "fn": "count",
                          "rule": {"kind": "plain", "ast": ("eq", "no_such_column", "no_such_column"), "top_unparenthesised": False}, "expect_error": True})
    c["steps"] = steps
    return normalise(c)


def normalise(case):
    def tup(x):
        return tuple(tup(y) for y in x) if isinstance(x, list) else x

    if "steps" in case:
        c = json.loads(json.dumps(case))
        for st in c["steps"]:
            if "rule" in st:
                st["rule"] = dict(st["rule"], ast=tup(st["rule"]["ast"]))
            if "rules" in st:
                st["rules"] = [dict(r, ast=tup(r["ast"])) for r in st["rules"]]
        return c

    c = dict(case)
    c["rule"] = dict(case["rule"], ast=tup(case["rule"]["ast"]))
    c["rules"] = [dict(r, ast=tup(r["ast"])) for r in case["rules"]]
    return c


def option_counters(ctx, c):
    ctx.count("layout_preconcatenated_single_table", bool(c.get("preconcat")))
    ctx.count("layout_unique_id_column", c.get("uid_col", "unique_id") + (" (argument omitted)" if c.get("uid_arg_omitted") and c.get("uid_col", "unique_id") == "unique_id" else ""))
    if len(c["tables"]) > 1:
        ctx.count("layout_source_dataset_column", ("in the tables as " if c["explicit_sd"] else "created by Splink as ") + c.get("sd_col", "source_dataset")
                  + (" (argument omitted)" if c.get("sd_arg_omitted") and c["explicit_sd"] and c.get("sd_col", "source_dataset") == "source_dataset" and not c.get("preconcat") else ""))
        ctx.count("layout_columns_in_other_order", bool(c.get("col_perm")))
    ctx.count("layout_single_table_not_in_a_list", bool(c.get("bare_table")))
    ctx.count("some_table_empty", any(len(t) == 0 for t in c["tables"]))
    ctx.count("api_debug_mode", bool(c.get("debug_mode")))


def compare(ctx, cases, drv):
    sessions = [c for c in cases if "steps" in c]
    cases = [c for c in cases if "steps" not in c]
    problems = compare_sessions(ctx, sessions, drv) if sessions else []
    if not cases:
        return problems
    res = core.pmap(run_impl_safe, cases, chunksize=2)
    # the model is asked about the equi-join keys the real code says it identified (sqlglot's choice; checked to be a split of
    # the rule by split_problem), so that no case has to be excluded because of that choice
    reqs = [model_request(c, [tuple(a) for a in r["atoms"]] if isinstance(r, dict) and r.get("atoms") is not None else None)[0] for c, r in zip(cases, res)]
    mres = drv.pbatch(reqs)
    sql_items = []
    for c, req, r, m in zip(cases, reqs, res, mres):
        o = oracle(c)
        atoms, flt = equi_conjuncts(c["rule"]["ast"])
        ctx.case({k: c[k] for k in ("tables", "rule", "rules", "link_type", "engine", "n")}, o["post"] > 0 or sum(o["per_rule"]) > 0,
                 sample={"case": {k: c[k] for k in ("tables", "rule", "rules", "link_type", "engine", "n")}, "impl": r if isinstance(r, dict) and "pre" in r else None} if sum(len(t) for t in c["tables"]) <= 4 else None)
        ctx.count("engine", c["engine"]); ctx.count("link_type", backend_lt(c)); ctx.count("n_equi_keys", len(atoms)); ctx.count("has_filter_part", bool(flt))
        ctx.count("n_rules", len(c["rules"])); ctx.count("exploding_rules_in_list", sum(1 for x in c["rules"] if x["kind"] == "exploding")); ctx.count("asymmetric", not bg.symmetric(c["rule"]["ast"]) or any(not bg.symmetric(x["ast"]) for x in c["rules"]))
        ctx.count("null_keys", any(k is None for k in req["keyL"]))
        option_counters(ctx, c)
        ctx.count("single_rule_salted", c["rule"]["kind"] == "salted"); ctx.count("n_largest", c["n"]); ctx.count("rule_form", f"{c.get('rule_form') or 'str'} / list: {c.get('rules_form') or 'str'}")
        ctx.count("count_options", "compute_post_filter_count=False" if c.get("no_post") else "default" if c.get("max_rows_limit") is None else
                  "max_rows_limit " + ("below" if c["max_rows_limit"] < o["pre"] else "equal to" if c["max_rows_limit"] == o["pre"] else "above") + " the pre-filter count")
        ctx.count("cumulative_max_rows_limit", "default" if c.get("cum_limit") is None else ("below" if c["cum_limit"] < o["pre"] else "equal to" if c["cum_limit"] == o["pre"] else "above") + " the rule's pre-filter count")
        if core.impl_error(r):
            ctx.count("impl_error", r["__error__"])
            problems.append((c, f"real code raised {r['__error__']}: {r['text'][:300]}", True))
            continue
        if "error" in m:
            raise core.HarnessError("model driver error: " + m["error"])
        if r.get("atoms") is None:
            ctx.count("excluded", "reported equi-join conditions not parsable by the harness")
            continue
        ctx.count("equi_split_as_harness_would_assume", bool(r["split_as_assumed"]))
        v = verdict(c, r)
        if v is not None:
            problems.append((c, v, True))
            continue
        bad = None
        if m["pre"] != r["pre"] or (m["post"] != r["post"] and not isinstance(r["post"], str)):
            bad = f"pre/post impl ({r['pre']}, {r['post']}) model ({m['pre']}, {m['post']})"
        elif "cumulative_refused" in r:
            pass
        elif m["cumulative"] != r["cumulative"]:
            bad = f"cumulative impl {r['cumulative']} model {m['cumulative']}"
        elif r["cartesian"] is not None and (model_cartesian(req, m) is None or not core.close(model_cartesian(req, m), r["cartesian"], 1e-12)):
            bad = f"cartesian impl {r['cartesian']} model {model_cartesian(req, m)}"
        elif "nlargest" in r and [x[3] for x in r["nlargest"]] != [b[1] * b[2] for b in m["nlargest"]]:
            bad = f"n_largest impl {[x[3] for x in r['nlargest']]} model {[b[1] * b[2] for b in m['nlargest']]}"
        if bad:
            problems.append((c, "analysis outputs differ from Lean model BlockingAnalysis: " + bad, False))
            continue
        ctx.traces_validated += 1
        sql_items.append((c, c01.records(c), [tuple(a) for a in r["atoms"]], backend_lt(c) == "two_dataset_link_only", ALIASES[0], r))
    import time

    from harness.props import c14_sql

    # the regenerated counting SQL (Generated/BCountSql.lean) under Rel.eval vs what the engine returned for the real code
    t_sql = time.time()
    problems += [(c, "T-sql translation validation: " + w, False) for c, w in c14_sql.validate(ctx, sql_items, drv)]
    ctx.count("timing_s_tsql_validation", "total", round(time.time() - t_sql, 2))
    return problems


def compare_sessions(ctx, cases, drv):
    res = core.pmap(run_impl_safe, cases, chunksize=2)
    problems, reqs, where = [], [], []
    for c, r in zip(cases, res):
        steps = c["steps"]
        judged = [i for i, st in enumerate(steps) if not st.get("expect_error")]
        exp = [oracle(step_case(c, i)) for i in judged]
        ctx.case({k: c[k] for k in ("steps", "link_type", "engine", "tables_by")}, any(o["post"] > 0 or sum(o["per_rule"]) > 0 for o in exp))
        ctx.count("session_calls", len(steps)); ctx.count("session_engine", c["engine"]); ctx.count("session_link_type", backend_lt(step_case(c, 0)))
        ctx.count("session_tables_given", f"by {c['tables_by']}" + (f" ({c['storage']})" if c["tables_by"] == "name" else "")); ctx.count("session_rule_form", c.get("rule_form") or "str")
        option_counters(ctx, step_case(c, 0))
        seen = {}
        for i, st in enumerate(steps):
            ctx.count("session_call_fn", FN_CALLED[st["fn"]] + (" (a call that must fail)" if st.get("expect_error") else "")); ctx.count("session_change_before_call", CHANGE_CLASS[st.get("change")] if i else "first call")
            if st.get("by"):
                ctx.count("session_call_with_frames_in_a_named_session", True)
            if st.get("expect_error"):
                continue
            sig = json.dumps([st["fn"], st.get("rule"), st.get("rules"), st.get("by")], sort_keys=True, default=str)
            if sig in seen and seen[sig] != st["tables"]:
                last = [x.get("change") for x in steps[: i + 1] if x.get("change")][-1]
                ctx.count("session_same_call_repeated_after", CHANGE_CLASS[last])
            seen[sig] = st["tables"]
        if core.impl_error(r):
            ctx.count("impl_error", r["__error__"])
            problems.append((c, f"real code raised {r['__error__']}: {r['text'][:300]}", True, {"failure": "real code raised", "session_fn": "session set-up", "last_change": "n/a"}))
            continue
        for i in judged:
            o = r["steps"][i]
            if "__error__" in o and core.impl_error(o):
                ctx.count("impl_error", o["__error__"])
            elif steps[i]["fn"] in ("count", "n_largest") and o.get("atoms") is None:
                ctx.count("excluded", "reported equi-join conditions not parsable by the harness")
            elif "skipped" in o:
                ctx.count("session_n_largest_not_called", o["skipped"])
        fails = session_failures(c, r)
        for what, key, _ in fails:
            problems.append((c, what, True, key))
        failed = {i for _, _, i in fails}
        for i in judged:
            o = r["steps"][i]
            if i in failed or "__error__" in o or "skipped" in o or (steps[i]["fn"] in ("count", "n_largest") and o.get("atoms") is None):
                continue
            reqs.append(model_request(step_case(c, i), [tuple(a) for a in o["atoms"]] if o.get("atoms") is not None else None)[0])
            where.append((c, i, o))
    for (c, i, o), req, m in zip(where, reqs, drv.pbatch(reqs) if reqs else []):
        if "error" in m:
            raise core.HarnessError("model driver error: " + m["error"])
        fn, bad = c["steps"][i]["fn"], None
        if fn == "count" and (m["pre"], m["post"]) != (o["pre"], o["post"]):
            bad = f"pre/post impl ({o['pre']}, {o['post']}) model ({m['pre']}, {m['post']})"
        elif fn in CUM_FNS and m["cumulative"] != o["cumulative"]:
            bad = f"cumulative impl {o['cumulative']} model {m['cumulative']}"
        elif fn in CUM_FNS and o["cartesian"] is not None and (model_cartesian(req, m) is None or not core.close(model_cartesian(req, m), o["cartesian"], 1e-12)):
            bad = f"cartesian impl {o['cartesian']} model {model_cartesian(req, m)}"
        elif fn == "n_largest" and [x[3] for x in o["nlargest"]] != [b[1] * b[2] for b in m["nlargest"]]:
            bad = f"n_largest impl {[x[3] for x in o['nlargest']]} model {[b[1] * b[2] for b in m['nlargest']]}"
        if bad:
            problems.append((c, f"analysis outputs of call {i + 1} of a session differ from Lean model BlockingAnalysis: " + bad, False, None))
        else:
            ctx.traces_validated += 1
    return problems


def impl_fails(case, key=None):
    case = normalise(case)
    r = run_impl_safe(case)
    if "__error__" in r:
        return key is None or key.get("failure") == "real code raised"
    if "steps" in case:
        return any(key is None or k == key for _, k, _ in session_failures(case, r))
    v = verdict(case, r)
    return v is not None and (key is None or failure_key(case, v) == key)


def shrink_session(case, key=None):
    """Fewer calls, then fewer rows (a row is removed from every step that has it)."""
    cur = json.loads(json.dumps(case))
    budget = 16

    def fails(c):
        return impl_fails(c, key)

    changed = True
    while changed and budget > 0:
        changed = False
        for i in range(len(cur["steps"]) - 1, -1, -1):
            if budget <= 0 or len(cur["steps"]) <= 1:
                break
            cand = json.loads(json.dumps(cur))
            gone = cand["steps"].pop(i)
            if i < len(cand["steps"]):
                nxt = cand["steps"][i]
                before = cand["steps"][i - 1]["tables"] if i else None
                if before is None or before == nxt["tables"]:
                    nxt["change"] = None if before is None or nxt.get("change") != "register_overwrite" else nxt["change"]
                elif not nxt.get("change"):
                    nxt["change"] = gone.get("change")
            budget -= 1
            if fails(cand):
                cur, changed = cand, True
        ids = sorted({(ti, json.dumps(r["unique_id"])) for st in cur["steps"] for ti, t in enumerate(st["tables"]) for r in t})
        for ti, u in ids:
            if budget <= 0:
                break
            cand = json.loads(json.dumps(cur))
            for st in cand["steps"]:
                st["tables"][ti] = [r for r in st["tables"][ti] if json.dumps(r["unique_id"]) != u]
            if any(len(st["tables"][ti]) == 0 for st in cand["steps"]):
                continue
            for j in range(1, len(cand["steps"])):
                if cand["steps"][j]["tables"] == cand["steps"][j - 1]["tables"] and cand["steps"][j].get("change") not in (None, "register_overwrite"):
                    cand["steps"][j]["change"] = None
            budget -= 1
            if fails(cand):
                cur, changed = cand, True
    return normalise(cur)


def shrink(case, key=None):
    if "steps" in case:
        return shrink_session(case, key)

    def fails(c):  # the same failure, not merely some failure
        return impl_fails(c, key)

    cur = json.loads(json.dumps(case))
    budget = 40
    changed = True
    while changed and budget > 0:
        changed = False
        for ti in range(len(cur["tables"])):
            for ri in range(len(cur["tables"][ti]) - 1, -1, -1):
                if budget <= 0 or len(cur["tables"][ti]) <= 1:
                    break
                cand = json.loads(json.dumps(cur))
                del cand["tables"][ti][ri]
                budget -= 1
                if fails(cand):
                    cur, changed = cand, True
        for k in range(len(cur["rules"]) - 1, -1, -1):
            if budget <= 0 or len(cur["rules"]) <= 1:
                break
            cand = json.loads(json.dumps(cur))
            del cand["rules"][k]
            budget -= 1
            if fails(cand):
                cur, changed = cand, True
    return normalise(cur)


def absorption_shape(ast) -> bool:
    """Some OR in the rule has a disjunct whose conjuncts strictly include another disjunct's (A OR (A AND C)): the shape on
    which the installed sqlglot's join_condition/simplify returns A AND C (finding K13)."""
    def disjuncts(a):
        return disjuncts(a[1]) + disjuncts(a[2]) if a[0] == "or" else [a]

    if ast[0] == "or":
        sets = [frozenset(map(repr, conjuncts(d))) for d in disjuncts(ast)]
        if any(x < y for x in sets for y in sets):
            return True
    return any(absorption_shape(x) for x in ast[1:] if isinstance(x, (tuple, list)) and x and x[0] in ("and", "or", "not"))


def dnf_bare_disjunct_shape(ast) -> bool:
    """The rule is an OR at the top with a disjunct that is a bare predicate (no AND) and a disjunct that is a conjunction, e.g.
    B OR (C AND A), NOT B OR (A AND B), (X OR Y) OR (Z AND A) - and K13's A OR (A AND C).  On that shape the installed sqlglot's
    join_condition (DNF branch: a bare disjunct contributes an EMPTY list of equalities, which the loop takes for 'not initialised yet')
    returns the equalities of the conjunction as keys of the whole rule: B OR (C AND A) is split as A AND (B OR C)
    (probe design_probes/audit_c14_3.py)."""
    def disjuncts(a):
        return disjuncts(a[1]) + disjuncts(a[2]) if a[0] == "or" else [a]

    if ast[0] != "or":
        return False
    ds = disjuncts(ast)
    return any(d[0] != "and" for d in ds) and any(d[0] == "and" for d in ds)


def failure_key(case, what):
    cls = classify(what)
    if cls == "reported split is not the rule" and "steps" not in case:
        return {"failure": cls, "absorption_shape": absorption_shape(case["rule"]["ast"]), "dnf_bare_disjunct_shape": dnf_bare_disjunct_shape(case["rule"]["ast"])}
    if cls == "real code raised" and "steps" not in case:
        import re

        m = re.match(r"real code raised (\w+)", what)
        return {"failure": cls, "error": m.group(1) if m else "?", "link_type": case["link_type"], "fewer_than_two_nonempty_tables": sum(1 for t in case["tables"] if t) < 2}
    return {"failure": cls}


def classify(what):
    for pat, cls in [("are not the rule", "reported split is not the rule"), ("post-filter count reported as", "post-filter placeholder / count does not follow the options"),
                     ("cumulative counts with max_rows_limit", "max_rows_limit of the cumulative counts applied wrongly"), ("post-filter count", "post-filter count differs from scored pairs"), ("pre-filter count", "pre-filter count differs from block products"),
                     ("marginal counts", "marginal counts differ from match_key counts"), ("cumulative_rows/start", "cumulative totals inconsistent"),
                     ("cartesian", "cartesian differs from admissible pairs"), ("n_largest", "n_largest_blocks wrong"), ("real code raised", "real code raised")]:
        if pat in what:
            return cls
    return what[:60]


def translation_validation(ctx, drv):
    """The generated Lean calculate_cartesian must agree with the Python function it was translated from."""
    from splink.internals.misc import calculate_cartesian

    rng = random.Random(ctx.seed + 5)
    reqs, want = [], []
    for _ in range(300):
        lt = rng.choice(["dedupe_only", "link_only", "link_and_dedupe", "bogus"])
        counts = [rng.randint(0, 40) for _ in range(rng.choice([1, 1, 2, 3, 4]))]
        try:
            w = float(calculate_cartesian([{"count": c} for c in counts], lt))
        except ValueError:
            w = None
        reqs.append({"op": "arith", "fn": "calculate_cartesian", "args": [[core.f2b(float(c)) for c in counts], lt]})
        want.append((counts, lt, w))
    bad = []
    for (counts, lt, w), m in zip(want, drv.batch(reqs)):
        got = None if m.get("raised") else core.b2f(m["value"])
        if (got is None) != (w is None) or (w is not None and got != w):
            bad.append((counts, lt, w, got))
    ctx.extra_cov["translation_validation"] = {"function": "calculate_cartesian", "inputs": len(reqs), "disagreements": len(bad)}
    return bad


def run(ctx: core.Ctx):
    from harness.translate import tarith

    ctx.rule = (
        "cases = C01's tables (1-3 tables x 1-9 rows, NULL-heavy tiny domains, int/str ids, explicit source_dataset column so that composite ids are reproducible) x a single rule "
        "(conjunction of 1-3 equi-join atoms incl. substr keys, optional filter parts: <, cross-column equality, literals, OR, NOT; 15% arbitrary rules without equi keys) "
        "x a rule list of length 1-4 (plain, salted on duckdb) x n in {1,2,5}; all link types; duckdb+sqlite; the three public functions are called on fresh DatabaseAPIs. "
        "+ an OPTIONS family on top of such cases: layouts (ONE pre-concatenated table with its own source dataset column under every link type, other names for the unique id / source dataset "
        "columns incl. a name Splink has to create, arguments omitted vs given, columns in another order, a single table not in a list, an empty table), rule forms (str / dict / CustomRule / "
        "block_on / And(block_on, CustomRule); the same creator object for every call), n_largest in {0,3,50}, compute_post_filter_count=False, max_rows_limit one below / on / one above the "
        "pre-filter count (count function and cumulative function). "
        "+ a SESSION family: 2-4 calls of count / cumulative _data / _chart / n_largest_blocks on ONE database API, tables by name (created with raw SQL or registered through Splink) or as frames, "
        "same or different rules, contents changed between the calls with raw SQL (insert/update/delete, drop+create) or db_api.register_table(overwrite=True), optionally a failing call in "
        "between; every call is judged against the contents at the time of the call. "
        "+ 300 translation-validation inputs for the generated calculate_cartesian. non-trivial = some pair is scored; distinct = hash of (tables, rule, rules, link type, engine, n) / of the session."
    )
    ctx.assumptions = [
        "the equi-join / filter split of a rule is sqlglot's (join_condition); the harness assumes top-level conjuncts that are l/r column or substr equalities are the equi keys and checks the reported counts against that",
        "pairs are oriented by composite-id order; 70% of the cases carry an explicit source_dataset column, 30% leave the dataset names to Splink (argument order must then decide the orientation, as it does in predict())",
    ]
    errs = tarith.write({"calculate_cartesian"})
    from harness.props import c14_sql

    import time as _time

    t_prep = _time.time()
    sql_errs = c14_sql.prepare()  # Generated/BCountSql.lean: the counting SQL blocking_analysis.py emits now, as Rel terms (T-sql); Properties/C14Sql.lean is re-checked against it
    ctx.notes.append(f"timing: T-sql capture + regeneration of Generated/BCountSql.lean {_time.time() - t_prep:.1f}s")
    ctx.lean = core.lean_check(PROP, ctx.thorough)
    if errs or sql_errs:
        ctx.lean.ok = False
        ctx.lean.problems += ["T-arith: " + e for e in errs] + ["T-sql: " + e for e in sql_errs]
    drv = core.Driver()
    tv_bad = translation_validation(ctx, drv)
    if ctx.replay:
        cases = [normalise(json.loads(open(ctx.replay).read())["replay"]["case"])]
    else:
        from harness import graphs

        # the option / layout family and the sessions draw from their own streams: the base family stays what it was for a given seed
        rng_o, rng_s = random.Random(ctx.seed * 7 + 101), random.Random(ctx.seed * 7 + 103)
        cases = ([normalise(c) for c in graphs.load_corpus(PROP)] + [gen_case(ctx.rng) for _ in range(ctx.budget(165, 3200))]
                 + [gen_options(rng_o, gen_case(rng_o)) for _ in range(ctx.budget(75, 1500))] + [gen_session(rng_s) for _ in range(ctx.budget(65, 1200))])
    import time

    t_cmp = time.time()
    problems = compare(ctx, cases, drv)
    t_cmp = time.time() - t_cmp
    if (not ctx.lean.ok or tv_bad or any(not p_[2] for p_ in problems)) and not ctx.replay:
        ctx.notes.append("proof, translation or correspondence broke: ran the widened failing-input search")
        rng2 = random.Random(ctx.seed + 7919)
        problems += compare(ctx, [gen_case(rng2) for _ in range(900)] + [gen_options(rng2, gen_case(rng2)) for _ in range(400)] + [gen_session(rng2) for _ in range(300)], drv)
    problems = [(tuple(p_) + (None,))[:4] for p_ in problems]
    concrete = [(c, w, k if k is not None else failure_key(c, w)) for c, w, conc, k in problems if conc]
    broken = [(c, w) for c, w, conc, _ in problems if not conc]
    reported, new, t_rep = set(), 0, time.time()
    for c, w, key in concrete:
        kid = json.dumps(key, sort_keys=True)
        if kid in reported or new >= 5 or len(reported) >= 12:
            continue
        reported.add(kid)
        # a failure that a registered known finding already describes is reported as it is: shrinking (serial re-runs) is for new ones
        info0 = {**key, "tables_by": c["tables_by"], "engine": c["engine"]} if "steps" in c else {**key, "asymmetric": not bg.symmetric(c["rule"]["ast"]) or any(not bg.symmetric(x["ast"]) for x in c["rules"]), "explicit_sd": c["explicit_sd"]}
        label0 = f"real output violates C14: {key['failure']} [{key['session_fn']}, {key['last_change']}]" if "steps" in c else "real output violates C14: " + classify(w)
        if any(core._finding_matches(f, dict(info0, what=label0)) for f in ctx.findings):
            ctx.violation(label0, {"case": c, "detail": w}, kind="concrete", match_info=info0)
            continue
        small = shrink(c, key)
        rr = run_impl_safe(small)
        before = len(ctx.violations)
        if "steps" in small:
            hits = [(w2, k2, i) for w2, k2, i in (session_failures(small, rr) if "steps" in rr else []) if k2 == key]
            what = hits[0][0] if hits else w
            i = hits[0][2] if hits else None
            ctx.violation(f"real output violates C14: {key['failure']} [{key['session_fn']}, {key['last_change']}]",
                          {"case": small, "calls": [{"fn": FN_CALLED[st["fn"]], "rule_sql": rule_arg(st["rule"]) if "rule" in st else None, "rules_sql": [rule_arg(r) for r in st["rules"]] if "rules" in st else None,
                                                     "contents": CHANGE_CLASS[st.get("change")], "tables": st["tables"]} for st in small["steps"]],
                           "observed": rr, "failing_call": None if i is None else i + 1,
                           "expected_at_failing_call": None if i is None else {k: (v if k != "blocks" else {str(a): b for a, b in v.items()}) for k, v in oracle(step_case(small, i), (rr["steps"][i].get("atoms") and [tuple(a) for a in rr["steps"][i]["atoms"]]) or None).items()},
                           "detail": what},
                          kind="concrete", match_info={**key, "tables_by": small["tables_by"], "engine": small["engine"]})
        else:
            what = (verdict(small, rr) if "pre" in rr else f"real code raised {rr['__error__']}: {rr['text'][:300]}") or w
            ctx.violation("real output violates C14: " + classify(what),
                          {"case": small, "rule_sql": rule_arg(small["rule"]), "rules_sql": [rule_arg(r) for r in small["rules"]], "observed": rr,
                           "expected": {k: (v if k != "blocks" else {str(a): b for a, b in v.items()}) for k, v in oracle(small).items()}, "detail": what},
                          kind="concrete", match_info={**failure_key(small, what), "asymmetric": not bg.symmetric(small["rule"]["ast"]) or any(not bg.symmetric(x["ast"]) for x in small["rules"]), "explicit_sd": small["explicit_sd"]})
        new += len(ctx.violations) > before  # failures matched by a registered known finding do not use up the report slots
    ctx.notes.append(f"timing: correspondence over {len(cases)} cases {t_cmp:.1f}s; shrinking and reporting {len(reported)} distinct failures {time.time() - t_rep:.1f}s")
    if not ctx.violations:
        # no NEW concrete failure (there is none, or every one is described by a registered known finding): a broken correspondence,
        # translation validation or obligation is still reported - it used to be skipped whenever ANY concrete failure existed, and
        # every run has the known K13 / K22 ones (found by the T-sql agent: a mutant passed with 10 of 25 obligations discharged)
        tsql_bad = [(c, w) for c, w in broken if w.startswith("T-sql translation validation:")]
        if tsql_bad:
            c, w = tsql_bad[0]
            ctx.violation("translation validation of Generated/BCountSql.lean (counting SQL of blocking_analysis.py) no longer checks",
                          {"correspondence": "harness/props/c14_sql.py validate(): " + w, "case": c, "disagreeing_cases": len(tsql_bad),
                           "searched_cases": ctx.evaluations, "lean": ctx.lean.as_dict()}, kind="unproved")
        elif broken:
            c, w = broken[0]
            ctx.violation("correspondence BlockingAnalysis model <-> blocking_analysis.py no longer checks",
                          {"correspondence": "harness/props/c14.py compare(): " + w, "case": c, "disagreeing_cases": len(broken), "searched_cases": ctx.evaluations, "lean": ctx.lean.as_dict()}, kind="unproved")
        elif tv_bad:
            ctx.violation("translation validation of Generated/Arith.lean (calculate_cartesian) no longer checks",
                          {"correspondence": "generated Lean definition vs misc.calculate_cartesian", "disagreements": tv_bad[:5], "searched_cases": ctx.evaluations}, kind="unproved")
        elif not ctx.lean.ok:
            ctx.violation("Lean obligations for C14 no longer check",
                          {"theorems": ctx.lean.as_dict()["undischarged"], "problems": ctx.lean.problems, "build_log_tail": ctx.lean.build_log[-1500:], "searched_cases": ctx.evaluations}, kind="unproved")
