"""C19, SQL level: T-sql regeneration of Generated/GMSql.lean (the statements compute_graph_metrics emits now, as Rel terms) and its
translation validation: the regenerated statements evaluated by `Rel.eval` in the compiled driver (`gm_sql`; exact rationals;
bridges from the proved `naiveBridges`) vs the engine's result for the real code, on the small single-table cases."""
from __future__ import annotations

from fractions import Fraction

from harness import core

MAX_N = 12
MAX_CASES = 400


def prepare() -> list[str]:
    from harness.translate import tsql

    try:
        return tsql.run_isolated("gm")
    except Exception as e:  # noqa: BLE001
        return [f"T-sql capture/translation failed in write_gm: {type(e).__name__}: {str(e)[:300]}"]


def request(case: dict, r: dict, base: dict) -> dict:
    vals = sorted({p for _, _, p in case["edges"]} | {case["thr"]})
    key = {v: k for k, v in enumerate(vals)}
    return {"op": "gm_sql", "n": base["n"], "cid": base["cid"], "edges": [[a, b, key[p]] for a, b, p in case["edges"]],
            "thr": key[case["thr"]], "order": base["order"]}


def _num(v):
    if v is None:
        return None
    if isinstance(v, list):
        return Fraction(v[0], v[1])
    return Fraction(v)


def validate(ctx: core.Ctx, items, drv: core.Driver):
    """items: (case, real_result, model_request of the functional model) for single-table cases inside the hypotheses."""
    items = [it for it in items if len(it[0]["ids"]) <= MAX_N and len(set(it[0]["sds"])) == 1][:MAX_CASES]
    if not items:
        return []
    out = drv.pbatch([request(c, r, q) for c, r, q in items])
    problems = []
    for (c, r, q), m in zip(items, out):
        if "error" in m:
            ctx.count("sql_model_unavailable", m["error"][:80])
            continue
        ctx.count("translation_validation", "gm_sql evaluated")
        lab = r["clustering"]
        bad = None
        nodes = sorted((int(i), lab[int(cl)], int(d), _num(cen)) for i, cl, d, cen in m["nodes"])
        if [t[:3] for t in nodes] != [tuple(t[:3]) for t in r["nodes"]]:
            bad = f"node table differs: Rel.eval {nodes[:5]} engine {r['nodes'][:5]}"
        elif any(not core.close(float(a[3]), b[3]) for a, b in zip(nodes, r["nodes"])):
            bad = "node_centrality differs"
        if bad is None and r.get("edges") is not None:
            edges = sorted(((int(a), int(b), bool(f)) for a, b, f in m["edges"]), key=lambda t: (t[0], t[1], t[2] is True))
            if edges != [tuple(t) for t in r["edges"]]:
                bad = f"edge table differs: Rel.eval {edges[:6]} engine {r['edges'][:6]}"
        if bad is None:
            cl = sorted(((lab[int(cid)], int(k), _num(ne), _num(de), _num(ce)) for cid, k, ne, de, ce in m["clusters"]), key=lambda t: t[0])
            if len(cl) != len(r["clusters"]):
                bad = "cluster table has another number of rows"
            else:
                for a, b in zip(cl, r["clusters"]):
                    if a[0] != b[0] or a[1] != b[1] or any(
                        (x is None) != (y is None) or (x is not None and not core.close(float(x), y, 1e-6)) for x, y in zip(a[2:], b[2:])
                    ):
                        bad = f"cluster row differs: Rel.eval {a} engine {b}"
                        break
        if bad is not None:
            problems.append((c, "the regenerated SQL of compute_graph_metrics evaluated by Rel.eval (Generated/GMSql.lean) disagrees with the engine: " + bad, False, r))
        else:
            ctx.count("translation_validation", "gm_sql agrees with engine")
    return problems
