"""C15 — accuracy tables are exact recounts of the labelled pairs.

Lean: Model/Accuracy.lean mirrors accuracy.py CTE by CTE (row-level truth threshold, -999 override for pairs the blocking
rules did not find, GROUP BY per threshold, cumulative window sums, ghost negatives of label-column mode, TP/TN/FP/FN, the
final `where`, the rate columns, both prediction_errors functions) plus lower_id_on_lhs / block_from_labels /
_select_found_by_blocking_rules; Properties/C15.lean proves recount, conservation, monotonicity, one row per score, the
not-found-means-predicted-negative reading, the error sets and orientation irrelevance.
Tie: the public evaluation entry points vs the compiled model fed with the real scored-labels table; an independent
oracle (closed-form Fellegi-Sunter scores, brute-force pair enumeration, direct recount) judges the real output end to end.
"""
from __future__ import annotations

import itertools
import json
import math
import random

from harness import blockgen as bg
from harness import core
from harness.props import c01

PROP = "C15"
ALIASES = c01.ALIASES
LABEL = "cl"
RATE_COLS = ["match_probability", "P_rate", "N_rate", "tp_rate", "tn_rate", "fp_rate", "fn_rate", "precision", "recall",
             "specificity", "npv", "accuracy", "f1", "f2", "f0_5", "p4", "phi"]
COUNT_COLS = ["total_clerical_labels", "p", "n", "tp", "tn", "fp", "fn"]


# --------------------------------------------------------------------------- real code
def rule_sql(r):
    return bg.sql_top(r["ast"]) if r.get("top_unparenthesised") else bg.sql(r["ast"])


def src_names(case):
    """Names of the source datasets (the linker's input_table_aliases, or the values of a supplied source dataset column)."""
    return case.get("src") or ALIASES[: len(case["tables"])]


def idcol(case):
    return case.get("idcol") or "unique_id"


def sdcol(case):
    return case.get("sdcol") or "source_dataset"


def label_type(case):
    return "str" if case.get("label_dtype") == "str" else "int"


def conj_columns(ast):
    """Columns of a rule that is l.c = r.c or a conjunction of such atoms (expressible as block_on(...)); else None."""
    if ast[0] == "eq" and ast[1] == ast[2]:
        return [ast[1]]
    if ast[0] == "and":
        a, b = conj_columns(ast[1]), conj_columns(ast[2])
        return None if a is None or b is None else a + b
    return None


def rule_arg(r, engine):
    """The blocking rule in the form the case asks for: SQL string (default), dict with a declared dialect, salted dict, block_on()."""
    form = r.get("form") or "str"
    if form == "block_on" and conj_columns(r["ast"]):
        from splink import block_on

        return block_on(*conj_columns(r["ast"]))
    if form == "dict":
        return {"blocking_rule": rule_sql(r), "sql_dialect": engine}
    if form == "salted":
        return {"blocking_rule": rule_sql(r), "salting_partitions": 2}
    return rule_sql(r)


def input_frames(case):
    """The input tables as typed frames: one per dataset, or ONE pre-concatenated frame carrying its own source dataset column;
    optionally every table lists the same columns in a different order."""
    from harness import impl

    idt = "str" if case["idtype"] == "str" else "int"
    ic, sc = idcol(case), sdcol(case)
    base = [(ic, idt), ("a", "str"), ("b", "str"), ("c", "int"), (LABEL, label_type(case))]
    rng = random.Random(case.get("shuffle", 0))
    prng = random.Random(case["colperm"]) if case.get("colperm") is not None else None

    def conv(r):
        return {ic: r["unique_id"], "a": r["a"], "b": r["b"], "c": r["c"], LABEL: r[LABEL]}

    if case.get("layout") == "preconcat":
        src = src_names(case)
        rows = [dict(conv(r), **{sc: src[i]}) for i, t in enumerate(case["tables"]) for r in t]
        rng.shuffle(rows)
        cols = base + [(sc, "str")]
        if prng:
            prng.shuffle(cols)
        return [impl.typed_frame(rows, dict(cols))]
    frames = []
    for rows in case["tables"]:
        rows = [conv(r) for r in rows]
        rng.shuffle(rows)
        cols = list(base)
        if prng:
            prng.shuffle(cols)
        frames.append(impl.typed_frame(rows, dict(cols)))
    return frames


def build_linker(case: dict, api):
    import splink.comparison_library as cl
    from splink import Linker, SettingsCreator

    frames = input_frames(case)
    comps = []
    for c in case["comparisons"]:
        kw = {"m_probabilities": [c["m"], 1 - c["m"]], "u_probabilities": [c["u"], 1 - c["u"]]}
        if c.get("tf"):
            kw["term_frequency_adjustments"] = True
        comps.append(cl.ExactMatch(c["col"]).configure(**kw))
    extra = {}
    if case.get("idcol"):
        extra["unique_id_column_name"] = case["idcol"]
    if case.get("sdcol"):
        extra["source_dataset_column_name"] = case["sdcol"]
    if case.get("retain_cols") is not None:
        extra["additional_columns_to_retain"] = list(case["retain_cols"])
    if case.get("retain_matching") is False:
        extra["retain_matching_columns"] = False
    settings = SettingsCreator(
        link_type=case["link_type"],
        comparisons=comps,
        blocking_rules_to_generate_predictions=[rule_arg(r, case["engine"]) for r in case["rules"]],
        probability_two_random_records_match=case["prior"],
        retain_intermediate_calculation_columns=bool(case.get("retain_inter", False)),
        **extra,
    )
    k = len(case["tables"])
    if case.get("input_form") == "names":
        # the inputs are NAMES of tables registered in the database beforehand; the aliases (= source dataset names) differ from them
        names = [f"raw_input_{chr(122 - i)}" for i in range(len(frames))]
        for f, n in zip(frames, names):
            api.register_table(f, n)
        inputs = names
    else:
        inputs = frames
    if len(inputs) == 1:
        if case.get("input_form") == "names":
            return Linker(inputs[0], settings, api, input_table_aliases=src_names(case)[0]) if k == 1 else Linker(inputs[0], settings, api)
        return Linker(inputs[0], settings, api)
    return Linker(inputs, settings, api, input_table_aliases=src_names(case))


def labels_frame(case, labels=None):
    """The pairwise labels as a frame: canonical column order, shuffled columns, extra columns (single and _l/_r paired), or
    (dedupe) with source dataset columns that the job does not need; integer scores when the case asks for them."""
    from harness import impl

    idt = "str" if case["idtype"] == "str" else "int"
    multi = len(case["tables"]) > 1
    ic, sc = idcol(case), sdcol(case)
    src = src_names(case)
    form = case.get("label_cols") or "canonical"
    with_sd = multi or form == "with_sd"
    labels = case["labels"] if labels is None else labels
    as_int = case.get("score_dtype") == "int" and all(l[2] in (0.0, 1.0) for l in labels)
    rows = []
    for n, ((tl, ul), (tr, ur), s) in enumerate(labels):
        d = {f"{ic}_l": ul, f"{ic}_r": ur, "clerical_match_score": int(s) if as_int else s}
        if with_sd:
            d[f"{sc}_l"], d[f"{sc}_r"] = (src[tl], src[tr]) if multi else ("the_only_table", "the_only_table")
        if form == "extra":
            d["note"] = None if n % 3 == 0 else f"clerk {n % 2}"
            d["seen_l"], d["seen_r"] = n, 100 + n
        rows.append(d)
    cols = ([(f"{sc}_l", "str")] if with_sd else []) + [(f"{ic}_l", idt)] + ([(f"{sc}_r", "str")] if with_sd else []) + [(f"{ic}_r", idt), ("clerical_match_score", "int" if as_int else "float")]
    if form == "extra":
        cols += [("note", "str"), ("seen_l", "int"), ("seen_r", "int")]
    if form in ("reordered", "extra"):
        random.Random(case.get("shuffle", 0) + 1).shuffle(cols)
    return impl.typed_frame(rows, dict(cols))


def decoy_labels(case):
    """Other labels for the same job (scores mirrored, every second label dropped): what a labels table held BEFORE it was replaced."""
    out = [[l[0], l[1], 1.0 - l[2]] for n, l in enumerate(case["labels"]) if n % 2 == 0]
    return out or [[l[0], l[1], 1.0 - l[2]] for l in case["labels"]]


LABELS_NAME = "my_clerical_labels"


def labels_arg(case, linker, labels=None, overwrite=False):
    """Registers the labels and returns what the caller hands to the evaluation functions: the SplinkDataFrame of
    register_labels_table, its physical name, the name of a table registered with register_table, or the name of a table created in the
    database without Splink."""
    form = case.get("label_form") or "sdf"
    df = labels_frame(case, labels)
    if form == "named":
        linker.table_management.register_table(df, LABELS_NAME, overwrite=overwrite)
        return LABELS_NAME
    if form == "db_native":
        api = linker._db_api
        if case["engine"] == "duckdb":
            api._con.register("labels_pandas_view", df)
            api._con.execute(f"create or replace table {LABELS_NAME} as select * from labels_pandas_view")
        else:
            df.to_sql(LABELS_NAME, api.con, index=False, if_exists="replace")
        return LABELS_NAME
    lt = linker.table_management.register_labels_table(df, overwrite=overwrite)
    return lt.physical_name if form == "physical_name" else lt


def _ids(r, case):
    ic = idcol(case)
    if len(case["tables"]) > 1:
        sc = sdcol(case)
        return [r[f"{sc}_l"], r[f"{ic}_l"]], [r[f"{sc}_r"], r[f"{ic}_r"]]
    s0 = src_names(case)[0]
    return [s0, r[f"{ic}_l"]], [s0, r[f"{ic}_r"]]


def _f(x):
    return None if x is None or (isinstance(x, float) and x != x) else float(x)


def label_codes(case):
    """Label values -> integers (the model compares labels only for equality)."""
    vals = sorted({row[LABEL] for t in case["tables"] for row in t if row[LABEL] is not None}, key=lambda v: (str(type(v)), v))
    return {v: i for i, v in enumerate(vals)}


def call_kwargs(case):
    """Keyword arguments of the public calls; an argument named in case['omit'] is NOT passed (its documented default applies)."""
    omit = set(case.get("omit") or [])
    tk = {"output_type": "table"}
    if "threshold" not in omit:
        tk["threshold_match_probability"] = case["threshold"]
    if "round" not in omit:
        tk["match_weight_round_to_nearest"] = case["round"]
    if case["mode"] == "column" and "opt" not in omit:
        tk["positives_not_captured_by_blocking_rules_scored_as_zero"] = case["opt"]
    ek = {}
    if "err_flags" not in omit:
        ek["include_false_positives"], ek["include_false_negatives"] = case["err_fp"], case["err_fn"]
    if "err_threshold" not in omit:
        ek["threshold_match_probability"] = case["err_threshold"]
    return tk, ek


def chart_rows(chart):
    """The data records embedded in a chart returned by the evaluation functions (None when they cannot be located)."""
    d = chart.to_dict() if hasattr(chart, "to_dict") else chart
    if isinstance(d, dict):
        v = (d.get("data") or {}).get("values")
        if isinstance(v, list):
            return v
        name = (d.get("data") or {}).get("name")
        if name and isinstance(d.get("datasets"), dict) and name in d["datasets"]:
            return d["datasets"][name]
    return None


def run_impl(case: dict) -> dict:
    from splink.internals import accuracy
    from splink.internals.pipeline import CTEPipeline
    from splink.internals.vertically_concatenate import compute_df_concat_with_tf

    from harness import impl

    out = {}
    tk, ek = call_kwargs(case)
    sess = case.get("session")
    table = case["mode"] == "table"

    def fresh():
        return build_linker(case, impl.make_api(case["engine"], threads=2))

    # 1. the scored labels the truth table is computed from (trace; also the model's input) - always on a linker of its own
    linker = fresh()
    if table:
        lt = linker.table_management.register_labels_table(labels_frame(case))
        pipeline = CTEPipeline()
        nodes = compute_df_concat_with_tf(linker, pipeline)
        pipeline = CTEPipeline([nodes])
        pipeline.enqueue_list_of_sqls(accuracy.predictions_from_sample_of_pairwise_labels_sql(linker, lt.physical_name))
        rows = linker._db_api.sql_pipeline_to_splink_dataframe(pipeline).as_record_dict()
        out["scored"] = [{"l": _ids(r, case)[0], "r": _ids(r, case)[1], "score": _f(r["clerical_match_score"]), "w": _f(r["match_weight"]),
                          "p": _f(r["match_probability"]), "found": bool(r["found_by_blocking_rules"])} for r in rows]
    else:
        rows = accuracy._predict_from_label_column_sql(linker, LABEL).as_record_dict()
        out["newkey"] = len(linker._settings_obj._blocking_rules_to_generate_predictions)
        codes = label_codes(case)

        def lab(v):
            return None if v is None or v != v else codes[v if label_type(case) == "str" else int(v)]

        # (.get: when the real code loses the label columns the public calls below are the ones that must raise, not this trace)
        out["scored"] = [{"l": _ids(r, case)[0], "r": _ids(r, case)[1], "ll": lab(r.get(LABEL + "_l")), "lr": lab(r.get(LABEL + "_r")), "mk": int(r["match_key"]),
                          "w": _f(r["match_weight"]), "p": _f(r["match_probability"])} for r in rows]

    # 2. public entry points: a fresh linker per call, or (session) every call on ONE linker / database API
    the_linker = fresh() if sess else None
    arg_cache = {}

    def get():
        return the_linker or fresh()

    def larg(lk):
        if not sess:
            return labels_arg(case, lk)
        if "arg" not in arg_cache:
            arg_cache["arg"] = labels_arg(case, lk, overwrite=bool(sess.get("reregister")))
        return arg_cache["arg"]

    def truth(lk, **over):
        kw = dict(tk, **over)
        if table:
            t = lk.evaluation.accuracy_analysis_from_labels_table(larg(lk), **kw)
        else:
            t = lk.evaluation.accuracy_analysis_from_labels_column(LABEL, **kw)
        return t

    def truth_rows(lk):
        return [{k: _f(v) for k, v in r.items()} for r in truth(lk).as_record_dict()]

    def errors(lk):
        if table:
            e = lk.evaluation.prediction_errors_from_labels_table(larg(lk), **ek)
        else:
            e = lk.evaluation.prediction_errors_from_labels_column(LABEL, **ek)
        return [{"l": _ids(r, case)[0], "r": _ids(r, case)[1], "score": _f(r["clerical_match_score"]), "w": _f(r["match_weight"]), "p": _f(r["match_probability"]),
                 "found": bool(r["found_by_blocking_rules"]), "status": r["truth_status"] if table else None} for r in e.as_record_dict()]

    if sess:
        lk = the_linker
        if sess.get("reregister") and table:
            # the labels table first holds OTHER labels and is evaluated with the same arguments; then it is replaced under its name
            arg0 = labels_arg(case, lk, labels=decoy_labels(case))
            lk.evaluation.accuracy_analysis_from_labels_table(arg0, **tk).as_record_dict()
            lk.evaluation.prediction_errors_from_labels_table(arg0, **ek).as_record_dict()
        for op in sess.get("pre") or []:
            if op == "predict":
                lk.inference.predict().as_record_dict()
            elif op == "predict_thr":
                lk.inference.predict(threshold_match_probability=0.9).as_record_dict()
            elif op == "other_args":
                truth(lk, threshold_match_probability=0.123, match_weight_round_to_nearest=3.0).as_record_dict()
            elif op == "errors":
                errors(lk)
            elif op == "chart":
                if truth(lk).as_record_dict():  # the chart functions need at least one row
                    ct = sess.get("chart_type") or "roc"
                    ckw = {"output_type": ct}
                    if ct in ("accuracy", "threshold_selection"):
                        ckw["add_metrics"] = ["f1", "phi", "specificity"]
                    ch = chart_rows(truth(lk, **ckw))
                    out["chart"] = None if ch is None else [{k: _f(r.get(k)) for k in ["truth_threshold"] + COUNT_COLS} for r in ch]
            elif op == "tf":
                lk.table_management.compute_tf_table(case["comparisons"][0]["col"])
        out["truth"] = truth_rows(lk)
        out["errors"] = errors(lk)
        out["truth_again"] = truth_rows(lk)
    else:
        out["truth"] = truth_rows(get())
        out["errors"] = errors(get())
    return out


run_impl_safe = core.safe(run_impl)


# --------------------------------------------------------------------------- oracle (independent of Splink and of the Lean model)
def records(case):
    return bg.concat_records(case["tables"], src_names(case))


def rid(rec):
    return (rec["source_dataset"], rec["unique_id"])


def oracle_score(case, l, r):
    """Fellegi-Sunter closed form: prior odds x product of m/u of the agreeing/disagreeing level, NULL -> factor 1."""
    bf = case["prior"] / (1 - case["prior"])
    for c in case["comparisons"]:
        a, b = l[c["col"]], r[c["col"]]
        if a is None or b is None:
            continue
        if a == b and c.get("tf"):
            # term-frequency adjusted exact match: m/u x u/tf, tf = share of the value among the non-NULL values of all input records
            vals = [x[c["col"]] for x in records(case) if x[c["col"]] is not None]
            bf *= c["m"] / (vals.count(a) / len(vals))
        else:
            bf *= (c["m"] / c["u"]) if a == b else ((1 - c["m"]) / (1 - c["u"]))
    return math.log2(bf), bf / (1 + bf)


def admissible_pairs(case):
    """(l, r) record pairs the link type compares, oriented as blocking orients them: lower composite id on the left."""
    recs = records(case)
    multi = len(case["tables"]) > 1
    ck = [bg.composite_key(r, multi) for r in recs]
    out = []
    for i, j in itertools.combinations(range(len(recs)), 2):
        if case["link_type"] == "link_only" and recs[i]["source_dataset"] == recs[j]["source_dataset"]:
            continue
        out.append((recs[i], recs[j]) if ck[i] < ck[j] else (recs[j], recs[i]))
    return out


def found_by_rules(case, l, r):
    if not case["rules"]:
        return True
    return any(bg.ev(ru["ast"], l, r) is True for ru in case["rules"])


def labelled_pairs(case):
    """Oracle view of the labelled universe: list of dict(l, r, score, w, p, found, ghost) and the number of implicit negatives."""
    recs = records(case)
    multi = len(case["tables"]) > 1
    by_id = {rid(r): r for r in recs}
    out = []
    if case["mode"] == "table":
        src = src_names(case)
        for (tl, ul), (tr, ur), s in case["labels"]:
            a, b = by_id.get((src[tl], ul)), by_id.get((src[tr], ur))
            if a is None or b is None:
                continue  # a label naming no record cannot be scored
            if not (bg.composite_key(a, multi) < bg.composite_key(b, multi)):
                a, b = b, a
            w, p = oracle_score(case, a, b)
            out.append({"l": a, "r": b, "score": s, "w": w, "p": p, "found": found_by_rules(case, a, b), "scored": True})
        return out
    for a, b in admissible_pairs(case):
        pos = a[LABEL] is not None and a[LABEL] == b[LABEL]
        w, p = oracle_score(case, a, b)
        f = found_by_rules(case, a, b)
        # a pair neither blocked nor a clerical match is never scored: an implicit negative, predicted negative at every threshold
        out.append({"l": a, "r": b, "score": 1.0 if pos else 0.0, "w": w, "p": p, "found": f, "scored": f or pos})
    return out


def round_half_away(x):
    return math.floor(x + 0.5) if x >= 0 else -math.floor(-x + 0.5)


def oracle_values(case, pairs):
    """Adjusted score of each pair (None = never scored); returns (values, excluded_reason)."""
    opt = True if case["mode"] == "table" else case["opt"]
    vals = []
    for q in pairs:
        if not q["scored"]:
            vals.append(None)
            continue
        if opt and not q["found"]:
            vals.append(-999.0)
            continue
        w = q["w"]
        if case["round"] is not None:
            x = w / case["round"]
            if abs(abs(x - math.floor(x)) - 0.5) < 1e-6:
                return None, "a match weight lies within 1e-6 of a rounding boundary"
            w = round_half_away(x) * case["round"]
        vals.append(w)
    d = sorted({v for v in vals if v is not None})
    for a, b in zip(d, d[1:]):
        if b - a < 1e-6 * max(1.0, abs(a)):
            return None, "two distinct scores closer than 1e-6 (floating-point ties are engine business)"
    return vals, None


def undefined(x):
    return x is None or x != x or x in (float("inf"), float("-inf"))


def definitions(tp, tn, fp, fn):
    """Textbook definitions (None where undefined)."""
    def div(a, b):
        return None if b == 0 else a / b

    P, N = tp + fn, tn + fp
    prec, rec, spec, npv = div(tp, tp + fp), div(tp, P), div(tn, N), div(tn, tn + fn)

    def fbeta(beta):
        if prec is None or rec is None or (beta * beta * prec + rec) == 0:
            return None
        return (1 + beta * beta) * prec * rec / (beta * beta * prec + rec)

    p4 = None
    if None not in (prec, rec, spec, npv) and min(prec, rec, spec, npv) > 0:
        p4 = 4 / (1 / prec + 1 / rec + 1 / spec + 1 / npv)
    den = (tp + fp) * (tp + fn) * (tn + fp) * (tn + fn)
    phi = None if den == 0 else (tp * tn - fp * fn) / math.sqrt(den)
    return {"P_rate": div(P, P + N), "N_rate": div(N, P + N), "tp_rate": div(tp, P), "tn_rate": div(tn, N), "fp_rate": div(fp, N), "fn_rate": div(fn, P),
            "precision": prec, "recall": rec, "specificity": spec, "npv": npv, "accuracy": div(tp + tn, P + N), "f1": fbeta(1), "f2": fbeta(2), "f0_5": fbeta(0.5), "p4": p4, "phi": phi}


def verdict(case, r):
    """List of (failure class, detail) found on the REAL output; [] = property holds; ('excluded', reason) entries are not failures."""
    problems = []
    pairs = labelled_pairs(case)
    vals, excl = oracle_values(case, pairs)
    thr = case["threshold"]
    rows = sorted(r["truth"], key=lambda x: x["truth_threshold"])
    # -- conservation and monotonicity need no oracle
    for row in rows:
        tp, tn, fp, fn, P, N, tot = (row[k] for k in ("tp", "tn", "fp", "fn", "p", "n", "total_clerical_labels"))
        if tp + fn != P or tn + fp != N or P + N != tot:
            problems.append(("conservation identity broken", f"row t={row['truth_threshold']}: TP={tp} FN={fn} P={P} TN={tn} FP={fp} N={N} total={tot}"))
            break
    for a, b in zip(rows, rows[1:]):
        if b["tp"] > a["tp"] or b["fp"] > a["fp"]:
            problems.append(("TP/FP increase with the threshold", f"rows t={a['truth_threshold']} -> t={b['truth_threshold']}: TP {a['tp']}->{b['tp']}, FP {a['fp']}->{b['fp']}"))
            break
    if excl:
        problems.append(("excluded", excl))
    else:
        tol_rel = 1e-6 if case["round"] is not None else 1e-9
        for row in rows:
            t = row["truth_threshold"]
            tol = tol_rel * max(1.0, abs(t))
            exp = {"tp": 0, "tn": 0, "fp": 0, "fn": 0}
            for q, v in zip(pairs, vals):
                pos = q["score"] >= thr
                pred = v is not None and v >= t - tol
                exp[("tp" if pred else "fn") if pos else ("fp" if pred else "tn")] += 1
            exp["p"], exp["n"] = exp["tp"] + exp["fn"], exp["tn"] + exp["fp"]
            exp["total_clerical_labels"] = len(pairs)
            bad = [k for k in COUNT_COLS if row[k] != exp[k]]
            if bad:
                problems.append(("count differs from the direct recount", f"row t={t}: " + ", ".join(f"{k}={row[k]} expected {exp[k]}" for k in bad)))
                break
        # one row per distinct score of a scored pair (pairs scored -999 have no row of their own)
        want_t = sorted({v for v in vals if v is not None and v > -998})
        got_t = [row["truth_threshold"] for row in rows]
        if len(want_t) != len(got_t) or any(abs(a - b) > tol_rel * max(1.0, abs(a)) for a, b in zip(want_t, got_t)):
            problems.append(("truth table is not one row per distinct score", f"thresholds {got_t}, scores of the labelled pairs {want_t}"))
    # -- rates by definition, from the row's own counts
    for row in rows:
        d = definitions(row["tp"], row["tn"], row["fp"], row["fn"])
        d["match_probability"] = 2 ** row["truth_threshold"] / (1 + 2 ** row["truth_threshold"])
        bad = [(k, row.get(k), d[k]) for k in RATE_COLS if d[k] is not None and not (not undefined(row.get(k)) and core.close(row[k], d[k], 1e-7, 1e-9))]
        if bad:
            k, got, want = bad[0]
            problems.append((f"rate {k} does not follow its definition", f"row t={row['truth_threshold']} counts TP={row['tp']} TN={row['tn']} FP={row['fp']} FN={row['fn']}: {k}={got}, definition gives {want}"))
            break
    # -- the same call repeated on the same linker; the records a chart embeds
    if "truth_again" in r:
        again = sorted(r["truth_again"], key=lambda x: x["truth_threshold"])
        same = len(again) == len(rows) and all((undefined(a.get(k)) and undefined(b.get(k))) or a.get(k) == b.get(k) for a, b in zip(rows, again) for k in ["truth_threshold"] + COUNT_COLS + RATE_COLS)
        if not same:
            problems.append(("the same call repeated on one linker gives another table", f"first {[[x[k] for k in ['truth_threshold'] + COUNT_COLS] for x in rows]} again {[[x[k] for k in ['truth_threshold'] + COUNT_COLS] for x in again]}"))
    if r.get("chart") is not None:
        key = lambda x: tuple(x[k] for k in ["truth_threshold"] + COUNT_COLS)
        have = {key(x) for x in rows}
        ct = (case.get("session") or {}).get("chart_type") or "roc"
        stray = [key(x) for x in r["chart"] if key(x) not in have]
        if stray or (ct != "threshold_selection" and len(r["chart"]) != len(rows)):
            problems.append(("chart data are not the rows of the table", f"{ct}: {len(r['chart'])} records, table {len(rows)} rows, records not in the table {stray[:3]}"))
    # -- prediction errors
    et = case["err_threshold"]
    must, may = set(), set()
    for q in pairs:
        key = frozenset([rid(q["l"]), rid(q["r"])])
        border = q["score"] == et or abs(q["p"] - et) < 1e-9
        predicted_pos = q["scored"] and q["p"] > et and (case["mode"] == "table" or q["found"])
        predicted_neg = (q["p"] < et) if case["mode"] == "table" else (q["p"] < et or not q["found"])
        is_fp = q["score"] < et and predicted_pos
        is_fn = q["score"] > et and predicted_neg
        want = (case["err_fp"] and is_fp) or (case["err_fn"] and is_fn)
        if border:
            may.add(key)
        elif want:
            must.add((key, "FP" if is_fp else "FN"))
    got = [(frozenset([tuple(e["l"]), tuple(e["r"])]), e["status"]) for e in r["errors"]]
    got_keys = [k for k, _ in got]
    must_keys = {k for k, _ in must}
    missing = [k for k in must_keys if k not in got_keys]
    extra = [k for k in got_keys if k not in must_keys and k not in may]
    if len(set(got_keys)) != len(got_keys):
        problems.append(("prediction_errors returns a pair twice", str(sorted(map(sorted, got_keys)))))
    elif missing or extra:
        problems.append(("prediction_errors is not the set of FP and FN pairs", f"missing {sorted(map(sorted, missing))} unexpected {sorted(map(sorted, extra))}"))
    elif case["mode"] == "table":
        wrong = [(sorted(k), s) for k, s in got if k in must_keys and (k, s) not in must]
        if wrong:
            problems.append(("truth_status wrong", str(wrong)))
    return problems


# --------------------------------------------------------------------------- model requests
def model_requests(case, r):
    """acc_truth, acc_errors (+ acc_prepare for a labels table) fed with the REAL scored-labels table."""
    f32 = case["engine"] == "duckdb"
    common = {}
    if case["mode"] == "table":
        common["rows"] = [[core.f2b(s["score"]), core.f2b(s["w"]), core.f2b(s["p"]), s["found"]] for s in r["scored"]]
    else:
        common["colrows"] = [[s["ll"], s["lr"], s["mk"], core.f2b(s["w"]), core.f2b(s["p"])] for s in r["scored"]]
        common["newkey"] = r["newkey"]
    sizes = [len(t) for t in case["tables"] if t]  # the code counts rows per source dataset with GROUP BY: an empty table has no group
    if case["link_type"] == "link_only" and len(sizes) < 2:
        sizes = [len(t) for t in case["tables"]]  # fewer than two non-empty datasets: no pair at all (an empty dataset contributes 0 to every product)
    truth = dict(common, op="acc_truth", thr=core.f2b(case["threshold"]), round=None if case["round"] is None else core.f2b(case["round"]), f32=f32,
                 opt=True if case["mode"] == "table" else case["opt"], intdiv=case["engine"] == "sqlite",
                 counts=None if case["mode"] == "table" else [core.f2b(float(c)) for c in sizes], lt=case["link_type"])
    errs = dict(common, op="acc_errors", thr=core.f2b(case["err_threshold"]), fp=case["err_fp"], fn=case["err_fn"], mode=case["mode"])
    reqs = [truth, errs]
    if case["mode"] == "table":
        recs = records(case)
        multi = len(case["tables"]) > 1
        by_id = {rid(x): x for x in recs}
        keys = [bg.composite_key(x, multi) for x in recs]
        lab_keys = []
        src = src_names(case)
        for (tl, ul), (tr, ur), s in case["labels"]:
            for t_, u_ in ((tl, ul), (tr, ur)):
                lab_keys.append(bg.composite_key({"source_dataset": src[t_], "unique_id": u_}, multi))
        order = sorted(set(keys) | set(lab_keys))
        rank = {k: i for i, k in enumerate(order)}
        present = [0] * len(order)
        for k in keys:
            present[rank[k]] += 1
        labels = []
        for (tl, ul), (tr, ur), s in case["labels"]:
            a, b = by_id.get((src[tl], ul)), by_id.get((src[tr], ur))
            ka = rank[bg.composite_key({"source_dataset": src[tl], "unique_id": ul}, multi)]
            kb = rank[bg.composite_key({"source_dataset": src[tr], "unique_id": ur}, multi)]
            e1 = [] if a is None or b is None else [bg.ev(ru["ast"], a, b) for ru in case["rules"]]
            e2 = [] if a is None or b is None else [bg.ev(ru["ast"], b, a) for ru in case["rules"]]
            labels.append([ka, kb, core.f2b(s), e1, e2])
        reqs.append({"op": "acc_prepare", "labels": labels, "present": present, "_rank": rank})
    return reqs


def compare_model(case, r, ms):
    """None if the model reproduces the real output, else a description."""
    mt, me = ms[0], ms[1]
    real = sorted(r["truth"], key=lambda x: x["truth_threshold"])
    mod = sorted(mt["rows"], key=lambda x: core.b2f(x[0]))
    if len(real) != len(mod):
        return f"truth table has {len(real)} rows, model {len(mod)}"
    for a, b in zip(real, mod):
        if not core.close(a["truth_threshold"], core.b2f(b[0]), 1e-9):
            return f"thresholds differ: impl {a['truth_threshold']} model {core.b2f(b[0])}"
        got = [a[k] for k in COUNT_COLS]
        if got != [float(x) for x in b[1:8]]:
            return f"counts at t={a['truth_threshold']}: impl {dict(zip(COUNT_COLS, got))} model {dict(zip(COUNT_COLS, b[1:8]))}"
        for k, bits in zip(RATE_COLS, b[8]):
            x, y = a.get(k), core.b2f(bits)
            if undefined(x) or undefined(y):
                if undefined(x) != undefined(y):
                    return f"rate {k} at t={a['truth_threshold']}: impl {x} model {y}"
            elif not core.close(x, y, 1e-9, 1e-12):
                return f"rate {k} at t={a['truth_threshold']}: impl {x} model {y}"
    key = lambda e: (e[0], e[1], e[2], e[3], e[4] or "")
    real_e = sorted(((core.f2b(e["score"]), core.f2b(e["w"]), core.f2b(e["p"]), e["found"], e["status"]) for e in r["errors"]), key=key)
    mod_e = sorted(((x[0], x[1], x[2], x[3], x[4]) for x in me["rows"]), key=key)
    if real_e != mod_e:
        return f"prediction errors differ: impl {len(real_e)} rows, model {len(mod_e)} rows"
    if case["mode"] == "table":
        multi = len(case["tables"]) > 1
        rank = ms[2]["_rank"]
        ck = lambda i: rank[bg.composite_key({"source_dataset": i[0], "unique_id": i[1]}, multi)]
        real_p = sorted((ck(s["l"]), ck(s["r"]), core.f2b(s["score"]), s["found"]) for s in r["scored"])
        mod_p = sorted((x[0], x[1], x[2], x[3]) for x in ms[2]["rows"])
        if real_p != mod_p:
            return f"prepared labels (orientation / join / found_by_blocking_rules) differ: impl {real_p} model {mod_p}"
    return None


# --------------------------------------------------------------------------- generation
SCORES = [0.0, 1.0, 1.0, 0.0, 0.5, 0.25, 0.75, 0.9, 0.3]
THRESHOLDS = [0.5, 0.5, 0.5, 0.25, 0.75, 0.9, 0.3, 0.99, 0.01]
ROUNDS = [None, None, 0.1, 0.5, 1.0, 2.0, 0.25]
# boundary values of the public arguments (int and float spellings), values needing more than 6 decimals, scores next to a threshold
SCORES_X = SCORES + [0.7500001, 1e-07, 0.9999999]
THRESHOLDS_X = [0, 0.0, 1, 1.0, 0.7500001, 1e-07, 0.123456789]
# doubles with 16-17 significant digits (a quantile of the clerical scores, a score copied from a row): as a plain decimal literal DuckDB
# reads each of these as a DECIMAL that converts to a NEIGHBOURING double, so a label whose score EQUALS the threshold changes sides
FULL_PRECISION = [0.9452706955539223, 0.42451918914251396, 0.12380196114964559, 0.22323896460701453, 0.9762551055929201, 0.20595871281932654]
ROUNDS_X = [1, 2, 0.05, 0.125, 5.0, 10, 0.001, 0.3]
SRC_VARIANTS = {2: [["tb", "ta"], ["Z", "a"], ["left_table", "R_table"]], 3: [["tb", "tc", "ta"], ["Z", "a", "B"], ["t3", "t1", "t2"]]}
STR_LABELS = {0: "", 1: "A", 2: "a", 3: "B", 7: "only"}
OMITTABLE = ["threshold", "round", "opt", "err_threshold", "err_flags"]
SESSION_OPS = ["predict", "predict_thr", "other_args", "errors", "chart", "tf"]
CHART_TYPES = ["roc", "precision_recall", "accuracy", "threshold_selection"]
LABEL_RULE = ("eq", LABEL, LABEL)


def apply_omit(case, names):
    """The named arguments are not passed: the documented defaults are what the oracle then expects."""
    names = [n for n in names if n != "opt" or case["mode"] == "column"]
    for n in names:
        if n == "threshold":
            case["threshold"] = 0.5
        elif n == "round":
            case["round"] = 0.1
        elif n == "opt":
            case["opt"] = True
        elif n == "err_threshold":
            case["err_threshold"] = 0.5
        elif n == "err_flags":
            case["err_fp"], case["err_fn"] = True, True
    case["omit"] = sorted(names)


def gen_case(rng: random.Random, force: dict | None = None):
    force = force or {}

    def pick(name, sampler):
        return force[name] if name in force else sampler()

    def maybe(p, sampler, default=None):
        return sampler() if rng.random() < p else default

    engine = force.get("engine") or rng.choice(["duckdb", "duckdb", "sqlite"])
    k = force.get("k") or rng.choice([1, 1, 2, 3])
    link_type = "dedupe_only" if k == 1 else (force.get("link_type") or rng.choice(["link_only", "link_and_dedupe"]))
    idtype = rng.choice(["int", "str"])
    tables = bg.gen_tables(rng, k, max_rows={1: 9, 2: 6, 3: 4}[k], idtype=idtype, min_rows=2 if k == 1 else 1, null_rate=rng.choice([0.0, 0.1, 0.25]))
    for t in tables:
        for row in t:
            row[LABEL] = rng.choice([None, 0, 0, 1, 1, 2, 3])
    if pick("empty_strings", lambda: rng.random() < 0.1):
        for t in tables:
            for row in t:
                for col in ("a", "b"):
                    if row[col] is not None and rng.random() < 0.3:
                        row[col] = ""  # the empty string is a value like any other (not NULL)
    if pick("null_column", lambda: rng.random() < 0.04):
        for t in tables:
            for row in t:
                row["a"] = None  # a column that is NULL in every record
    if k > 1 and pick("empty_table", lambda: rng.random() < 0.06):
        tables[rng.randrange(k)] = []  # one dataset of a link job has no rows
    cols = rng.sample(["a", "b"], rng.choice([1, 2, 2]))
    comparisons = [{"col": c, "m": round(rng.uniform(0.55, 0.95), 3), "u": round(rng.uniform(0.05, 0.45), 3)} for c in cols]
    if pick("tf", lambda: rng.random() < 0.15):
        for c in rng.sample(comparisons, rng.randint(1, len(comparisons))):
            c["tf"] = True
    mode = force.get("mode") or rng.choice(["table", "column"])
    n_rules = force.get("n_rules", rng.choice([1, 1, 2, 0]) if mode == "table" else rng.choice([1, 1, 2]))
    asym = rng.random() < 0.3
    rules = [{"ast": bg.gen_rule(rng, depth=rng.choice([0, 1, 2]), asym_ok=asym), "top_unparenthesised": rng.random() < 0.5} for _ in range(n_rules)]
    if pick("label_rule", lambda: rng.random() < 0.06):
        # a model rule blocks on the label column itself (in column mode the added label rule then finds nothing new)
        rules.insert(rng.randint(0, len(rules)), {"ast": LABEL_RULE if rng.random() < 0.6 else ("and", LABEL_RULE, ("eq", "a", "a")), "top_unparenthesised": False})
    for ru in rules:
        form = pick("rule_form", lambda: maybe(0.25, lambda: rng.choice(["dict", "salted", "block_on"])))
        # salting is a DuckDB / Spark feature (C01 generates it for DuckDB only: SQLite's random() is a 64-bit integer, no partition matches)
        if form and (form != "block_on" or conj_columns(ru["ast"])) and (form != "salted" or engine == "duckdb"):
            ru["form"] = form
    x = rng.random() < 0.3  # boundary / long-decimal argument values
    case = {"engine": engine, "link_type": link_type, "tables": tables, "idtype": idtype, "comparisons": comparisons, "prior": rng.choice([0.02, 0.1, 0.3, 0.5]),
            "rules": rules, "mode": mode, "threshold": pick("threshold", lambda: rng.choice(THRESHOLDS_X if x and rng.random() < 0.6 else THRESHOLDS)),
            "round": pick("round", lambda: rng.choice(ROUNDS_X if x and rng.random() < 0.6 else ROUNDS)), "opt": True if mode == "table" else rng.random() < 0.6,
            "err_threshold": pick("err_threshold", lambda: rng.choice(THRESHOLDS_X if x and rng.random() < 0.5 else THRESHOLDS)), "shuffle": rng.randrange(1 << 30),
            "tag": force.get("tag", "random"), "labels": []}
    case["err_fp"], case["err_fn"] = rng.choice([(True, True), (True, True), (True, False), (False, True)])
    # -- input layout and forms
    if k > 1:
        src = pick("src", lambda: maybe(0.25, lambda: rng.choice(SRC_VARIANTS[k])))
        if src:
            case["src"] = list(src)
        if pick("preconcat", lambda: rng.random() < 0.15):
            case["layout"] = "preconcat"
        if pick("sdcol", lambda: rng.random() < 0.08):
            case["sdcol"] = "src_ds"
    if pick("idcol", lambda: rng.random() < 0.15):
        case["idcol"] = "rec_id"
    if pick("names", lambda: rng.random() < 0.15):
        case["input_form"] = "names"
    if pick("colperm", lambda: rng.random() < 0.25):
        case["colperm"] = rng.randrange(1 << 20)
    # -- settings options that must not matter
    if pick("retain_inter", lambda: rng.random() < 0.12):
        case["retain_inter"] = True
    if mode == "column" and pick("retain_matching_off", lambda: rng.random() < 0.06):
        case["retain_matching"] = False
    rc = pick("retain_cols", lambda: maybe(0.2, lambda: rng.choice([[LABEL], ["c", LABEL], ["c"], []])))
    if rc is not None:
        case["retain_cols"] = list(rc)
    if pick("label_str", lambda: rng.random() < 0.2):
        case["label_dtype"] = "str"
        for t in tables:
            for row in t:
                row[LABEL] = None if row[LABEL] is None else STR_LABELS[row[LABEL]]
    if mode == "table":
        pairs = admissible_pairs(case)
        rng.shuffle(pairs)
        tix = {al: i for i, al in enumerate(src_names(case))}
        binary = rng.random() < 0.4
        scores = SCORES_X if x and rng.random() < 0.6 else SCORES
        for a, b in pairs[: rng.randint(1, min(15, len(pairs)))] if pairs else []:
            if rng.random() < 0.5:
                a, b = b, a  # either id orientation
            s = rng.choice([0.0, 1.0]) if binary else rng.choice(scores)
            case["labels"].append([[tix[a["source_dataset"]], a["unique_id"]], [tix[b["source_dataset"]], b["unique_id"]], s])
        if not binary and case["labels"] and "threshold" not in force and rng.random() < 0.12:
            # labels whose score is EXACTLY the (full-precision) threshold: clerical positives (>=), and no prediction error by the score
            t = rng.choice(FULL_PRECISION)
            case["threshold"] = case["err_threshold"] = t
            for lab in rng.sample(case["labels"], rng.randint(1, min(4, len(case["labels"])))):
                lab[2] = t
            case["tag"] = "score-equals-full-precision-threshold"
        if force.get("dangling") and case["labels"]:
            t0, u0 = case["labels"][0][0]
            case["labels"].append([[t0, u0], [t0, "nope" if idtype == "str" else 99], 1.0])
        if pick("no_labels", lambda: rng.random() < 0.02):
            case["labels"] = []
        lf = pick("label_form", lambda: rng.choice(["sdf", "sdf", "physical_name", "named", "db_native"]))
        if lf != "sdf":
            case["label_form"] = lf
        lc = pick("label_cols", lambda: rng.choice(["canonical", "canonical", "reordered", "extra", "with_sd"]))
        if lc != "canonical" and (lc != "with_sd" or k == 1):
            case["label_cols"] = lc
        if binary and pick("score_int", lambda: rng.random() < 0.4):
            case["score_dtype"] = "int"
    om = pick("omit", lambda: maybe(0.15, lambda: rng.sample(OMITTABLE, rng.randint(1, len(OMITTABLE)))))
    if om:
        apply_omit(case, om)
    sess = pick("session", lambda: maybe(0.12, lambda: {"pre": rng.sample(SESSION_OPS, rng.randint(0, 3)), "reregister": rng.random() < 0.5, "chart_type": rng.choice(CHART_TYPES)}))
    if sess:
        sess = dict(sess)
        # replacing a table under its name is something Splink can only see when it is done through Splink
        sess["reregister"] = bool(sess.get("reregister")) and mode == "table" and case.get("label_form", "sdf") in ("sdf", "named", "physical_name") and bool(case["labels"])
        case["session"] = sess
    return case


def family_cases(rng: random.Random):
    """Adversarial families: every link type x mode x engine, all-positive / all-negative labels, every pair missed by blocking,
    labels that name no record, 3-table jobs, a single label, all labels NULL; boundary arguments, omitted arguments, input layouts and
    forms, labels-table forms, settings options, rule forms, sessions on one linker."""
    out = []
    for engine in ("duckdb", "sqlite"):
        for mode in ("table", "column"):
            for k, lt in ((1, "dedupe_only"), (2, "link_only"), (2, "link_and_dedupe"), (3, "link_only"), (3, "link_and_dedupe")):
                out.append(gen_case(rng, {"engine": engine, "mode": mode, "k": k, "link_type": lt, "tag": "grid"}))
    c = gen_case(rng, {"mode": "table", "tag": "all-positive"})
    for l in c["labels"]:
        l[2] = 1.0
    out.append(c)
    c = gen_case(rng, {"mode": "table", "tag": "all-negative"})
    for l in c["labels"]:
        l[2] = 0.0
    out.append(c)
    c = gen_case(rng, {"mode": "table", "tag": "single-label", "no_labels": False})
    c["labels"] = c["labels"][:1]
    out.append(c)
    out.append(gen_case(rng, {"mode": "table", "dangling": True, "tag": "dangling-label", "no_labels": False}))
    for mode in ("table", "column"):
        c = gen_case(rng, {"mode": mode, "tag": "blocking-misses-everything", "label_rule": False})
        c["rules"] = [{"ast": ("lit", "l", "a", "no-such-value"), "top_unparenthesised": False}]
        out.append(c)
        c = gen_case(rng, {"mode": mode, "tag": "blocking-finds-everything"})
        c["rules"] = [{"ast": ("or", ("eq", "a", "a"), ("not", ("eq", "a", "a"))), "top_unparenthesised": False}, {"ast": ("eq", "b", "b"), "top_unparenthesised": False}]
        out.append(c)
    c = gen_case(rng, {"mode": "column", "tag": "all-labels-null"})
    for t in c["tables"]:
        for row in t:
            row[LABEL] = None
    out.append(c)
    c = gen_case(rng, {"mode": "column", "tag": "one-cluster"})
    one = "only" if c.get("label_dtype") == "str" else 7
    for t in c["tables"]:
        for row in t:
            row[LABEL] = one
    out.append(c)
    c = gen_case(rng, {"mode": "column", "tag": "singleton-labels", "label_str": False})
    n = 0
    for t in c["tables"]:
        for row in t:
            row[LABEL] = n
            n += 1
    out.append(c)
    # ---- families added by the generator audit
    engines = itertools.cycle(["duckdb", "sqlite"])
    modes = ("table", "column")
    for t in (0, 0.0, 1, 1.0):
        for mode in modes:
            out.append(gen_case(rng, {"engine": next(engines), "mode": mode, "threshold": t, "err_threshold": t, "omit": None, "tag": "boundary-threshold"}))
    for rnd in ROUNDS_X:
        out.append(gen_case(rng, {"engine": next(engines), "round": rnd, "omit": None, "tag": "round-values"}))
    for engine in ("duckdb", "sqlite"):
        for mode in modes:
            out.append(gen_case(rng, {"engine": engine, "mode": mode, "omit": list(OMITTABLE), "tag": "arguments-omitted"}))
            out.append(gen_case(rng, {"engine": engine, "mode": mode, "k": 2, "idcol": True, "sdcol": True, "tag": "id-columns-renamed"}))
            out.append(gen_case(rng, {"engine": engine, "mode": mode, "names": True, "tag": "inputs-by-table-name"}))
            out.append(gen_case(rng, {"engine": engine, "mode": mode, "tf": True, "tag": "term-frequency-adjusted"}))
    for mode in modes:
        for k, lt in ((2, "link_only"), (2, "link_and_dedupe"), (3, "link_only"), (3, "link_and_dedupe")):
            out.append(gen_case(rng, {"engine": next(engines), "mode": mode, "k": k, "link_type": lt, "preconcat": True, "tag": "one-preconcatenated-input"}))
        for k in (2, 3):
            for src in SRC_VARIANTS[k][:2]:
                out.append(gen_case(rng, {"engine": next(engines), "mode": mode, "k": k, "src": src, "tag": "dataset-names-unsorted"}))
        for k, lt in ((3, "link_only"), (3, "link_and_dedupe"), (2, "link_and_dedupe"), (2, "link_only")):
            out.append(gen_case(rng, {"engine": next(engines), "mode": mode, "k": k, "link_type": lt, "empty_table": True, "sdcol": False, "tag": "empty-input-table"}))
        out.append(gen_case(rng, {"engine": next(engines), "mode": mode, "retain_inter": True, "retain_cols": [LABEL], "tag": "retain-options"}))
        out.append(gen_case(rng, {"engine": next(engines), "mode": mode, "retain_inter": True, "retain_cols": ["c", LABEL], "retain_matching_off": True, "tag": "retain-options"}))
        for form in ("dict", "salted", "block_on"):
            c = gen_case(rng, {"engine": next(engines), "mode": mode, "rule_form": form, "n_rules": 2, "tag": "rule-forms"})
            if form == "block_on":
                c["rules"][0] = {"ast": ("and", ("eq", "a", "a"), ("eq", "c", "c")), "top_unparenthesised": False, "form": "block_on"}
            out.append(c)
        for _ in range(2):
            out.append(gen_case(rng, {"engine": next(engines), "mode": mode, "label_rule": True, "tag": "rule-on-the-label-column"}))
        out.append(gen_case(rng, {"engine": next(engines), "mode": mode, "empty_strings": True, "tag": "empty-string-values"}))
        out.append(gen_case(rng, {"engine": next(engines), "mode": mode, "null_column": True, "tag": "all-null-column"}))
    for engine in ("duckdb", "sqlite"):
        out.append(gen_case(rng, {"engine": engine, "mode": "column", "label_str": True, "tag": "string-labels"}))
        c = gen_case(rng, {"engine": engine, "mode": "column", "label_str": True, "tag": "string-labels"})
        for t in c["tables"]:
            for row in t:
                row[LABEL] = rng.choice([None, "", "", " "])  # empty strings are labels like any other
        out.append(c)
        out.append(gen_case(rng, {"engine": engine, "mode": "table", "no_labels": True, "session": None, "tag": "empty-labels-table"}))
        for lf, lc in (("sdf", "extra"), ("physical_name", "reordered"), ("named", "extra"), ("db_native", "reordered"), ("named", "with_sd"), ("db_native", "canonical")):
            out.append(gen_case(rng, {"engine": engine, "mode": "table", "k": 1 if lc == "with_sd" else rng.choice([1, 2, 3]), "label_form": lf, "label_cols": lc, "score_int": True, "no_labels": False, "tag": "labels-table-forms"}))
        # sessions: every call on ONE linker; a labels table replaced under its name between two identical calls
        for lf in ("named", "sdf"):
            out.append(gen_case(rng, {"engine": engine, "mode": "table", "label_form": lf, "no_labels": False, "session": {"pre": [], "reregister": True}, "tag": "session-labels-replaced"}))
            out.append(gen_case(rng, {"engine": engine, "mode": "table", "label_form": lf, "no_labels": False, "session": {"pre": ["errors", "other_args"], "reregister": True}, "tag": "session-labels-replaced"}))
        for mode in modes:
            for n, op in enumerate(SESSION_OPS):
                out.append(gen_case(rng, {"engine": engine, "mode": mode, "no_labels": False, "session": {"pre": [op], "reregister": False, "chart_type": CHART_TYPES[(n + (mode == "table") + 2 * (engine == "sqlite")) % 4]}, "tag": "session-one-linker"}))
    return out


def normalise(case):
    def tup(x):
        return tuple(tup(y) for y in x) if isinstance(x, list) else x

    c = dict(case)
    c["rules"] = [dict(r, ast=tup(r["ast"])) for r in case["rules"]]
    return c


# --------------------------------------------------------------------------- compare
OPTIONAL_KEYS = ("idtype", "shuffle", "src", "layout", "idcol", "sdcol", "input_form", "colperm", "retain_inter", "retain_matching", "retain_cols", "label_dtype",
                 "label_form", "label_cols", "score_dtype", "omit", "session")


def canon(c):
    d = {k: c[k] for k in ("tables", "comparisons", "prior", "rules", "mode", "labels", "threshold", "round", "opt", "err_threshold", "err_fp", "err_fn", "link_type", "engine")}
    d.update({k: c[k] for k in OPTIONAL_KEYS if c.get(k) is not None})
    return d


def compare(ctx, cases, drv):
    res = core.pmap(run_impl_safe, cases, chunksize=2)
    reqs, owner = [], []
    for i, (c, r) in enumerate(zip(cases, res)):
        if isinstance(r, dict) and "truth" in r:
            rq = model_requests(c, r)
            for q in rq:
                owner.append(i)
                reqs.append({k: v for k, v in q.items() if not k.startswith("_")})
            c["_reqs"] = rq
    mres = drv.pbatch(reqs)
    per_case: dict[int, list] = {}
    for i, m in zip(owner, mres):
        if "error" in m:
            raise core.HarnessError("model driver error: " + m["error"])
        per_case.setdefault(i, []).append(m)
    problems = []
    sql_items = []  # (case, acc_truth request, acc_truth result): the regenerated truth-space SQL is evaluated on the same input
    for i, (c, r) in enumerate(zip(cases, res)):
        rq = c.pop("_reqs", None)
        pairs = labelled_pairs(c)
        n_scored = sum(1 for q in pairs if q["scored"])
        ctx.count("engine", c["engine"]); ctx.count("mode", c["mode"]); ctx.count("link_type", c["link_type"]); ctx.count("n_tables", len(c["tables"]))
        ctx.count("rounding", c["round"]); ctx.count("threshold_actual", c["threshold"]); ctx.count("n_rules", len(c["rules"])); ctx.count("tag", c["tag"])
        ctx.count("option_not_found_as_zero", c["opt"]); ctx.count("scored_pairs", min(n_scored, 20) // 5 * 5)
        ctx.count("some_pair_missed_by_blocking", any(q["scored"] and not q["found"] for q in pairs))
        if c["mode"] == "table":
            multi_ = len(c["tables"]) > 1
            ck_ = lambda e: bg.composite_key({"source_dataset": src_names(c)[e[0]], "unique_id": e[1]}, multi_)
            ctx.count("labels_reversed_orientation", any(ck_(l[0]) > ck_(l[1]) for l in c["labels"]))
            ctx.count("fractional_scores", any(l[2] not in (0.0, 1.0) for l in c["labels"]))
            ctx.count("labels_table_passed_as", {"sdf": "SplinkDataFrame of register_labels_table", "physical_name": "its physical name (str)", "named": "name of a table registered with register_table",
                                                 "db_native": "name of a table created in the database without Splink"}[c.get("label_form") or "sdf"])
            ctx.count("labels_table_columns", {"canonical": "documented order", "reordered": "shuffled order", "extra": "shuffled + extra single and _l/_r columns",
                                               "with_sd": "dedupe job, source dataset columns supplied"}[c.get("label_cols") or "canonical"])
            ctx.count("clerical_match_score_dtype", "int" if c.get("score_dtype") == "int" and all(l[2] in (0.0, 1.0) for l in c["labels"]) else "float")
            ctx.count("n_labels", min(len(c["labels"]), 15) // 5 * 5 if c["labels"] else "none (empty labels table)")
            ctx.count("scores_beyond_6_decimals", any(l[2] in (0.7500001, 1e-07, 0.9999999) for l in c["labels"]))
        else:
            ctx.count("null_labels", any(row[LABEL] is None for t in c["tables"] for row in t))
            ctx.count("label_column_dtype", label_type(c))
            ctx.count("empty_string_label", any(row[LABEL] == "" for t in c["tables"] for row in t))
            ctx.count("retain_matching_columns", c.get("retain_matching") is not False)
        spell = lambda v: f"{type(v).__name__} {v!r}"
        ctx.count("boundary_threshold_actual", spell(c["threshold"]) if c["threshold"] in (0, 1) else "interior")
        ctx.count("boundary_error_threshold", spell(c["err_threshold"]) if c["err_threshold"] in (0, 1) else "interior")
        ctx.count("threshold_beyond_6_decimals", c["threshold"] in (0.7500001, 1e-07, 0.123456789) or c["err_threshold"] in (0.7500001, 1e-07, 0.123456789))
        ctx.count("rounding_spelling", "None" if c["round"] is None else type(c["round"]).__name__)
        for nm in c.get("omit") or ["none (all passed explicitly)"]:
            ctx.count("argument_omitted_default_applies", nm)
        ctx.count("input_layout", ("one pre-concatenated table with its own source dataset column" if c.get("layout") == "preconcat" else "one frame per dataset")
                  + (", given as names of registered tables" if c.get("input_form") == "names" else ""))
        ctx.count("dataset_names", "default (sorted)" if not c.get("src") else "unsorted / mixed case")
        ctx.count("unique_id_column_name", idcol(c)); ctx.count("source_dataset_column_name", sdcol(c) if len(c["tables"]) > 1 else "n/a")
        ctx.count("columns_in_different_order_per_table", c.get("colperm") is not None)
        ctx.count("empty_input_table", any(not t for t in c["tables"]))
        ctx.count("empty_string_values", any(row[col] == "" for t in c["tables"] for row in t for col in ("a", "b")))
        ctx.count("comparison_column_all_null", any(all(row[x["col"]] is None for t in c["tables"] for row in t) for x in c["comparisons"]))
        ctx.count("term_frequency_adjustments", any(x.get("tf") for x in c["comparisons"]))
        ctx.count("retain_intermediate_calculation_columns", bool(c.get("retain_inter")))
        ctx.count("additional_columns_to_retain", "unset" if c.get("retain_cols") is None else ",".join(c["retain_cols"]) or "[]")
        for ru in c["rules"]:
            ctx.count("rule_form", ru.get("form") or "str")
        ctx.count("rule_on_the_label_column", any(LABEL in bg.columns_of(ru["ast"]) for ru in c["rules"]))
        se = c.get("session")
        ctx.count("session", "fresh linker per call" if not se else "every call on one linker, the table asked for twice" + (", labels table replaced under its name first" if se.get("reregister") else ""))
        for op in (se or {}).get("pre") or []:
            ctx.count("session_earlier_call", op)
        if se and "chart" in (se.get("pre") or []):
            ctx.count("chart_output_type", se.get("chart_type") or "roc")
        if core.impl_error(r):
            ctx.count("impl_error", r["__error__"])
            ctx.case(canon(c), False)
            problems.append((c, error_class(r), f"{r['__error__']}: {r['text'][:300]}", True))
            continue
        rows = r["truth"]
        ties = n_scored - len({round(q["w"], 9) for q in pairs if q["scored"]})
        ctx.count("tied_scores", ties > 0); ctx.count("truth_rows", min(len(rows), 8))
        ctx.case(canon(c), len(rows) >= 2 and ties > 0,
                 sample={"case": canon(c), "truth": [{k: row[k] for k in ["truth_threshold"] + COUNT_COLS} for row in rows], "errors": [[e["l"], e["r"], e["status"]] for e in r["errors"]]} if n_scored <= 4 and rows else None)
        v = verdict(c, r)
        for cls, detail in v:
            if cls == "excluded":
                ctx.count("excluded", detail)
            else:
                problems.append((c, cls, detail, True))
        ms = per_case[i]
        if rq and len(rq) == 3:
            ms[2]["_rank"] = rq[2]["_rank"]
        bad = compare_model(c, r, ms)
        if bad:
            problems.append((c, "model", "outputs differ from Lean model Accuracy: " + bad, False))
            continue
        if rq and c["mode"] == "table":
            sql_items.append((c, rq[0], ms[0]))
        ctx.traces_validated += 1
    from harness.props import c15_sql

    problems += [(c, "model", w, False) for c, w in c15_sql.validate(ctx, sql_items, drv)]
    return problems


def error_class(r):
    """'real code raised: <exception>: <what the engine / the code said>' with table-name hashes and numbers blanked, so that different
    errors are reported (and shrunk) separately."""
    import re

    t = r.get("text", "")
    t = t.split("Error was:")[-1].strip() if "Error was:" in t else t.strip()
    line = next((x.strip() for x in t.splitlines() if x.strip()), "")
    m = re.search(r'Referenced column "(\w+)" not found|no such column: (\w+)', line)  # DuckDB | SQLite: the same class on both engines
    if m:
        line = f"column {m.group(1) or m.group(2)} not found"
    line = re.sub(r"_[0-9a-f]{9}\b", "_#", line)
    line = re.sub(r"\d+", "#", line)
    return f"real code raised: {r['__error__']}: {line[:110]}"


def fails_class(cls):
    def f(case):
        case = normalise(case)
        r = run_impl_safe(case)
        if "__error__" in r:
            return error_class(r) == cls
        return any(k == cls for k, _ in verdict(case, r))

    return f


def shrink(case, still_fails):
    cur = json.loads(json.dumps(case))
    budget = 60
    # options first: drop every optional setting / form the failure does not need
    for k in [k for k in OPTIONAL_KEYS if k not in ("idtype", "shuffle")]:
        if cur.get(k) is None or budget <= 0:
            continue
        cand = json.loads(json.dumps(cur))
        del cand[k]
        if k == "label_dtype":  # string labels back to integer codes
            codes = label_codes(cur)
            for t in cand["tables"]:
                for row in t:
                    row[LABEL] = None if row[LABEL] is None else codes[row[LABEL]]
        budget -= 1
        if still_fails(cand):
            cur = cand
    for i, ru in enumerate(cur["rules"]):
        if ru.get("form") and budget > 0:
            cand = json.loads(json.dumps(cur))
            del cand["rules"][i]["form"]
            budget -= 1
            if still_fails(cand):
                cur = cand
    for c_ in cur["comparisons"]:
        if c_.get("tf") and budget > 0:
            cand = json.loads(json.dumps(cur))
            for x in cand["comparisons"]:
                x.pop("tf", None)
            budget -= 1
            if still_fails(cand):
                cur = cand
            break
    changed = True
    while changed and budget > 0:
        changed = False
        for k in range(len(cur["labels"]) - 1, -1, -1):
            if budget <= 0 or len(cur["labels"]) <= 1:
                break
            cand = json.loads(json.dumps(cur))
            del cand["labels"][k]
            budget -= 1
            if still_fails(cand):
                cur, changed = cand, True
        used = {(t, u) for l in cur["labels"] for t, u in (l[0], l[1])}
        for ti in range(len(cur["tables"])):
            for ri in range(len(cur["tables"][ti]) - 1, -1, -1):
                if budget <= 0 or len(cur["tables"][ti]) <= 1 or (ti, cur["tables"][ti][ri]["unique_id"]) in used:
                    continue
                cand = json.loads(json.dumps(cur))
                del cand["tables"][ti][ri]
                budget -= 1
                if still_fails(cand):
                    cur, changed = cand, True
        for k in range(len(cur["rules"]) - 1, -1, -1):
            if budget <= 0 or len(cur["rules"]) <= 1:
                break
            cand = json.loads(json.dumps(cur))
            del cand["rules"][k]
            budget -= 1
            if still_fails(cand):
                cur, changed = cand, True
        if len(cur["comparisons"]) > 1 and budget > 0:
            cand = json.loads(json.dumps(cur))
            del cand["comparisons"][-1]
            budget -= 1
            if still_fails(cand):
                cur, changed = cand, True
    return normalise(cur)


def run(ctx: core.Ctx):
    ctx.rule = (
        "cases = 1-3 tables x <= 12 records (NULL-heavy tiny domains, int/str ids incl. '10' < '9', a label column with NULLs, shared and singleton labels) x 1-2 ExactMatch "
        "comparisons with random m/u (few distinct scores, many ties) x 0-2 blocking rules (symmetric and asymmetric, NULL-valued) that miss some labelled pairs x "
        "mode labels-table (1-15 labels on admissible pairs, each written in either id orientation, scores in {0,1,.25,.3,.5,.75,.9}) or label-column "
        "(option positives_not_captured... on/off) x threshold in {.01,.25,.3,.5,.75,.9,.99} (equal to scores) x match_weight_round_to_nearest in {None,.1,.25,.5,1,2} x "
        "include_false_positives/negatives; all link types; duckdb+sqlite; + adversarial families (grid of engine x mode x link type, all-positive, all-negative, single label, "
        "label naming no record, blocking finds nothing / everything, all labels NULL, one cluster, singleton labels). "
        "Generator audit: boundary arguments (thresholds 0 / 0.0 / 1 / 1.0, values with > 6 decimals, scores next to a threshold, rounding 1 / 2 as int, .001 ... 10), "
        "arguments omitted (documented defaults expected), input layouts (one pre-concatenated table with its own source dataset column, inputs given as names of "
        "registered tables with other aliases, unsorted / mixed-case dataset names, per-table column order, renamed unique id / source dataset columns, an empty input "
        "table, empty strings, an all-NULL column), labels table passed as SplinkDataFrame / physical name / register_table name / table created without Splink, with "
        "shuffled / extra / superfluous source dataset columns, integer scores, no rows; string label column incl. ''; retain_* settings, additional_columns_to_retain "
        "with the label column, term-frequency adjusted comparisons (oracle m/tf), rules as dict / salted (DuckDB) / block_on / on the label column; sessions: every call "
        "on ONE linker after predict / other arguments / prediction errors / a chart (its records = the table) / compute_tf_table, the table asked for twice, the labels "
        "table replaced under its name (overwrite=True) between identical calls. "
        "non-trivial = table has >= 2 rows and some scores tie; distinct = hash of the whole case."
    )
    ctx.assumptions = [
        "labels of a labels table name admissible pairs of the link type, each pair at most once (duplicate or inadmissible labels are outside 'labelled pairs')",
        "match weights come from C02's scoring; the oracle recomputes them in closed form and excludes cases where a weight is within 1e-6 of a rounding boundary or two distinct scores are closer than 1e-6",
        "a rate whose definition has a zero denominator is not checked (engines return NULL, inf or NaN; Splink's conventions 1 / 0 are not part of 'definitions')",
        "prediction-error membership is not checked for pairs whose score equals the threshold or whose probability is within 1e-9 of it",
        "cast(x as float) is a 32-bit float on DuckDB and a double on SQLite; round() rounds half away from zero on both",
        "label-column mode with no blocking rule at all is generated only in the labels-table mode (see report: column mode then scores nothing as found)",
        "salted rules are generated on DuckDB only (as in C01: SQLite's random() is a 64-bit integer, a salted rule finds no pair there)",
        "a labels table replaced behind Splink's back (created in the database without Splink) is not replaced within a session; replacement goes through register_table / register_labels_table(overwrite=True)",
        "term-frequency adjusted exact match: Bayes factor m / tf(value), tf = share of the value among the non-NULL values of all input records",
    ]
    from harness.props import c15_sql

    sql_errs = c15_sql.prepare()  # Generated/AccSql.lean: the truth-space SQL accuracy.py emits now, as Rel terms (T-sql)
    ctx.lean = core.lean_check(PROP, ctx.thorough)
    if sql_errs:
        ctx.lean.ok = False
        ctx.lean.problems += ["T-sql: " + e for e in sql_errs]
    drv = core.Driver()
    if ctx.replay:
        cases = [normalise(json.loads(open(ctx.replay).read())["replay"]["case"])]
    else:
        from harness import graphs

        cases = [normalise(c) for c in graphs.load_corpus(PROP)] + family_cases(ctx.rng) + [gen_case(ctx.rng) for _ in range(ctx.budget(600, 6000))]
    problems = compare(ctx, cases, drv)
    if (not ctx.lean.ok or any(not conc for _, _, _, conc in problems)) and not ctx.replay:
        ctx.notes.append("proof or correspondence broke: ran the widened failing-input search")
        rng2 = random.Random(ctx.seed + 7919)
        problems += compare(ctx, [gen_case(rng2) for _ in range(1200)], drv)
    concrete = [(c, cls, w) for c, cls, w, conc in problems if conc]
    broken = [(c, w) for c, cls, w, conc in problems if not conc]
    reported = set()
    for c, cls, w in concrete:
        key = (cls, c["engine"] if cls.startswith("rate") else "", c["mode"])
        if key in reported or len(reported) >= 5:
            continue
        reported.add(key)
        small = shrink(c, fails_class(cls))
        rr = run_impl_safe(small)
        detail = next((d for k, d in verdict(small, rr) if k == cls), w) if "truth" in rr else f"{rr['__error__']}: {rr['text'][:300]}"
        ctx.violation(f"real output violates C15: {cls} ({small['mode']} mode, {small['engine']})",
                      {"case": small, "rules_sql": [rule_sql(x) for x in small["rules"]], "observed": rr, "detail": detail},
                      kind="concrete", match_info={"failure": cls, "mode": small["mode"], "engine": small["engine"], "threshold_actual": small["threshold"],
                                                   "source_dataset_column_name": sdcol(small), "retain_matching_columns": small.get("retain_matching") is not False,
                                                   "empty_input_table": any(not t for t in small["tables"])})
    # a concrete violation absorbed by a known finding must not hide a broken proof or correspondence
    if not any(v["kind"] == "concrete" for v in ctx.violations):
        if broken:
            c, w = broken[0]
            ctx.violation("correspondence Accuracy model <-> accuracy.py no longer checks",
                          {"correspondence": "harness/props/c15.py compare_model(): " + w, "case": c, "disagreeing_cases": len(broken), "searched_cases": ctx.evaluations, "lean": ctx.lean.as_dict()}, kind="unproved")
        elif not ctx.lean.ok:
            ctx.violation("Lean obligations for C15 no longer check",
                          {"theorems": ctx.lean.as_dict()["undischarged"], "problems": ctx.lean.problems, "build_log_tail": ctx.lean.build_log[-1500:], "searched_cases": ctx.evaluations}, kind="unproved")
