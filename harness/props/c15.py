"""C15 — accuracy tables are exact recounts of the labelled pairs.

Lean: Model/Accuracy.lean mirrors accuracy.py CTE by CTE (row-level truth threshold, -999 override for pairs the blocking
rules did not find, GROUP BY per threshold, cumulative window sums, ghost negatives of label-column mode, TP/TN/FP/FN, the
final `where`, the rate columns, both prediction_errors functions) plus lower_id_on_lhs / block_from_labels /
_select_found_by_blocking_rules; Properties/C15.lean proves recount, conservation, monotonicity, one row per score, the
not-found-means-predicted-negative reading, the error sets and orientation irrelevance.
Tie: the public evaluation entry points vs the compiled model fed with the real scored-labels table; an independent
oracle (closed-form Fellegi-Sunter scores, brute-force pair enumeration, direct recount) judges the real output end to end.
"""
from __future__ import annotations

import itertools
import json
import math
import random

from harness import blockgen as bg
from harness import core
from harness.props import c01

PROP = "C15"
ALIASES = c01.ALIASES
LABEL = "cl"
RATE_COLS = ["match_probability", "P_rate", "N_rate", "tp_rate", "tn_rate", "fp_rate", "fn_rate", "precision", "recall",
             "specificity", "npv", "accuracy", "f1", "f2", "f0_5", "p4", "phi"]
COUNT_COLS = ["total_clerical_labels", "p", "n", "tp", "tn", "fp", "fn"]


# --------------------------------------------------------------------------- real code
def rule_sql(r):
    return bg.sql_top(r["ast"]) if r.get("top_unparenthesised") else bg.sql(r["ast"])


def build_linker(case: dict, api):
    import splink.comparison_library as cl
    from splink import Linker, SettingsCreator

    from harness import impl

    idt = "str" if case["idtype"] == "str" else "int"
    types = {"unique_id": idt, "a": "str", "b": "str", "c": "int", LABEL: "int"}
    frames = []
    rng = random.Random(case.get("shuffle", 0))
    for rows in case["tables"]:
        rows = list(rows)
        rng.shuffle(rows)
        frames.append(impl.typed_frame([{k: r[k] for k in types} for r in rows], types))
    comps = [cl.ExactMatch(c["col"]).configure(m_probabilities=[c["m"], 1 - c["m"]], u_probabilities=[c["u"], 1 - c["u"]]) for c in case["comparisons"]]
    settings = SettingsCreator(
        link_type=case["link_type"],
        comparisons=comps,
        blocking_rules_to_generate_predictions=[rule_sql(r) for r in case["rules"]],
        probability_two_random_records_match=case["prior"],
        retain_intermediate_calculation_columns=False,
    )
    k = len(frames)
    if k == 1:
        return Linker(frames[0], settings, api)
    return Linker(frames, settings, api, input_table_aliases=ALIASES[:k])


def labels_frame(case):
    from harness import impl

    idt = "str" if case["idtype"] == "str" else "int"
    multi = len(case["tables"]) > 1
    rows = []
    for (tl, ul), (tr, ur), s in case["labels"]:
        d = {"unique_id_l": ul, "unique_id_r": ur, "clerical_match_score": s}
        if multi:
            d["source_dataset_l"], d["source_dataset_r"] = ALIASES[tl], ALIASES[tr]
        rows.append(d)
    types = ({"source_dataset_l": "str"} if multi else {}) | {"unique_id_l": idt} | ({"source_dataset_r": "str"} if multi else {}) | {"unique_id_r": idt, "clerical_match_score": "float"}
    return impl.typed_frame(rows, types)


def _ids(r, multi):
    if multi:
        return [r["source_dataset_l"], r["unique_id_l"]], [r["source_dataset_r"], r["unique_id_r"]]
    return [ALIASES[0], r["unique_id_l"]], [ALIASES[0], r["unique_id_r"]]


def _f(x):
    return None if x is None or (isinstance(x, float) and x != x) else float(x)


def run_impl(case: dict) -> dict:
    from splink.internals import accuracy
    from splink.internals.pipeline import CTEPipeline
    from splink.internals.vertically_concatenate import compute_df_concat_with_tf

    from harness import impl

    multi = len(case["tables"]) > 1
    out = {}
    thr, rnd, ethr = case["threshold"], case["round"], case["err_threshold"]

    def fresh():
        return build_linker(case, impl.make_api(case["engine"], threads=2))

    if case["mode"] == "table":
        # 1. the scored labels the truth table is computed from (trace; also the model's input)
        linker = fresh()
        lt = linker.table_management.register_labels_table(labels_frame(case))
        pipeline = CTEPipeline()
        nodes = compute_df_concat_with_tf(linker, pipeline)
        pipeline = CTEPipeline([nodes])
        pipeline.enqueue_list_of_sqls(accuracy.predictions_from_sample_of_pairwise_labels_sql(linker, lt.physical_name))
        rows = linker._db_api.sql_pipeline_to_splink_dataframe(pipeline).as_record_dict()
        out["scored"] = [{"l": _ids(r, multi)[0], "r": _ids(r, multi)[1], "score": _f(r["clerical_match_score"]), "w": _f(r["match_weight"]),
                          "p": _f(r["match_probability"]), "found": bool(r["found_by_blocking_rules"])} for r in rows]
        # 2. public entry points
        linker = fresh()
        lt = linker.table_management.register_labels_table(labels_frame(case))
        t = linker.evaluation.accuracy_analysis_from_labels_table(lt, threshold_match_probability=thr, match_weight_round_to_nearest=rnd, output_type="table")
        out["truth"] = [{k: _f(v) for k, v in r.items()} for r in t.as_record_dict()]
        linker = fresh()
        lt = linker.table_management.register_labels_table(labels_frame(case))
        e = linker.evaluation.prediction_errors_from_labels_table(lt, include_false_positives=case["err_fp"], include_false_negatives=case["err_fn"], threshold_match_probability=ethr)
        out["errors"] = [{"l": _ids(r, multi)[0], "r": _ids(r, multi)[1], "score": _f(r["clerical_match_score"]), "w": _f(r["match_weight"]), "p": _f(r["match_probability"]),
                          "found": bool(r["found_by_blocking_rules"]), "status": r["truth_status"]} for r in e.as_record_dict()]
    else:
        linker = fresh()
        rows = accuracy._predict_from_label_column_sql(linker, LABEL).as_record_dict()
        out["newkey"] = len(linker._settings_obj._blocking_rules_to_generate_predictions)

        def lab(v):
            return None if v is None or v != v else int(v)

        out["scored"] = [{"l": _ids(r, multi)[0], "r": _ids(r, multi)[1], "ll": lab(r[LABEL + "_l"]), "lr": lab(r[LABEL + "_r"]), "mk": int(r["match_key"]),
                          "w": _f(r["match_weight"]), "p": _f(r["match_probability"])} for r in rows]
        linker = fresh()
        t = linker.evaluation.accuracy_analysis_from_labels_column(LABEL, threshold_match_probability=thr, match_weight_round_to_nearest=rnd, output_type="table",
                                                                   positives_not_captured_by_blocking_rules_scored_as_zero=case["opt"])
        out["truth"] = [{k: _f(v) for k, v in r.items()} for r in t.as_record_dict()]
        linker = fresh()
        e = linker.evaluation.prediction_errors_from_labels_column(LABEL, include_false_positives=case["err_fp"], include_false_negatives=case["err_fn"], threshold_match_probability=ethr)
        out["errors"] = [{"l": _ids(r, multi)[0], "r": _ids(r, multi)[1], "score": _f(r["clerical_match_score"]), "w": _f(r["match_weight"]), "p": _f(r["match_probability"]),
                          "found": bool(r["found_by_blocking_rules"]), "status": None} for r in e.as_record_dict()]
    return out


run_impl_safe = core.safe(run_impl)


# --------------------------------------------------------------------------- oracle (independent of Splink and of the Lean model)
def records(case):
    return bg.concat_records(case["tables"], ALIASES[: len(case["tables"])])


def rid(rec):
    return (rec["source_dataset"], rec["unique_id"])


def oracle_score(case, l, r):
    """Fellegi-Sunter closed form: prior odds x product of m/u of the agreeing/disagreeing level, NULL -> factor 1."""
    bf = case["prior"] / (1 - case["prior"])
    for c in case["comparisons"]:
        a, b = l[c["col"]], r[c["col"]]
        if a is None or b is None:
            continue
        bf *= (c["m"] / c["u"]) if a == b else ((1 - c["m"]) / (1 - c["u"]))
    return math.log2(bf), bf / (1 + bf)


def admissible_pairs(case):
    """(l, r) record pairs the link type compares, oriented as blocking orients them: lower composite id on the left."""
    recs = records(case)
    multi = len(case["tables"]) > 1
    ck = [bg.composite_key(r, multi) for r in recs]
    out = []
    for i, j in itertools.combinations(range(len(recs)), 2):
        if case["link_type"] == "link_only" and recs[i]["source_dataset"] == recs[j]["source_dataset"]:
            continue
        out.append((recs[i], recs[j]) if ck[i] < ck[j] else (recs[j], recs[i]))
    return out


def found_by_rules(case, l, r):
    if not case["rules"]:
        return True
    return any(bg.ev(ru["ast"], l, r) is True for ru in case["rules"])


def labelled_pairs(case):
    """Oracle view of the labelled universe: list of dict(l, r, score, w, p, found, ghost) and the number of implicit negatives."""
    recs = records(case)
    multi = len(case["tables"]) > 1
    by_id = {rid(r): r for r in recs}
    out = []
    if case["mode"] == "table":
        for (tl, ul), (tr, ur), s in case["labels"]:
            a, b = by_id.get((ALIASES[tl], ul)), by_id.get((ALIASES[tr], ur))
            if a is None or b is None:
                continue  # a label naming no record cannot be scored
            if not (bg.composite_key(a, multi) < bg.composite_key(b, multi)):
                a, b = b, a
            w, p = oracle_score(case, a, b)
            out.append({"l": a, "r": b, "score": s, "w": w, "p": p, "found": found_by_rules(case, a, b), "scored": True})
        return out
    for a, b in admissible_pairs(case):
        pos = a[LABEL] is not None and a[LABEL] == b[LABEL]
        w, p = oracle_score(case, a, b)
        f = found_by_rules(case, a, b)
        # a pair neither blocked nor a clerical match is never scored: an implicit negative, predicted negative at every threshold
        out.append({"l": a, "r": b, "score": 1.0 if pos else 0.0, "w": w, "p": p, "found": f, "scored": f or pos})
    return out


def round_half_away(x):
    return math.floor(x + 0.5) if x >= 0 else -math.floor(-x + 0.5)


def oracle_values(case, pairs):
    """Adjusted score of each pair (None = never scored); returns (values, excluded_reason)."""
    opt = True if case["mode"] == "table" else case["opt"]
    vals = []
    for q in pairs:
        if not q["scored"]:
            vals.append(None)
            continue
        if opt and not q["found"]:
            vals.append(-999.0)
            continue
        w = q["w"]
        if case["round"] is not None:
            x = w / case["round"]
            if abs(abs(x - math.floor(x)) - 0.5) < 1e-6:
                return None, "a match weight lies within 1e-6 of a rounding boundary"
            w = round_half_away(x) * case["round"]
        vals.append(w)
    d = sorted({v for v in vals if v is not None})
    for a, b in zip(d, d[1:]):
        if b - a < 1e-6 * max(1.0, abs(a)):
            return None, "two distinct scores closer than 1e-6 (floating-point ties are engine business)"
    return vals, None


def undefined(x):
    return x is None or x != x or x in (float("inf"), float("-inf"))


def definitions(tp, tn, fp, fn):
    """Textbook definitions (None where undefined)."""
    def div(a, b):
        return None if b == 0 else a / b

    P, N = tp + fn, tn + fp
    prec, rec, spec, npv = div(tp, tp + fp), div(tp, P), div(tn, N), div(tn, tn + fn)

    def fbeta(beta):
        if prec is None or rec is None or (beta * beta * prec + rec) == 0:
            return None
        return (1 + beta * beta) * prec * rec / (beta * beta * prec + rec)

    p4 = None
    if None not in (prec, rec, spec, npv) and min(prec, rec, spec, npv) > 0:
        p4 = 4 / (1 / prec + 1 / rec + 1 / spec + 1 / npv)
    den = (tp + fp) * (tp + fn) * (tn + fp) * (tn + fn)
    phi = None if den == 0 else (tp * tn - fp * fn) / math.sqrt(den)
    return {"P_rate": div(P, P + N), "N_rate": div(N, P + N), "tp_rate": div(tp, P), "tn_rate": div(tn, N), "fp_rate": div(fp, N), "fn_rate": div(fn, P),
            "precision": prec, "recall": rec, "specificity": spec, "npv": npv, "accuracy": div(tp + tn, P + N), "f1": fbeta(1), "f2": fbeta(2), "f0_5": fbeta(0.5), "p4": p4, "phi": phi}


def verdict(case, r):
    """List of (failure class, detail) found on the REAL output; [] = property holds; ('excluded', reason) entries are not failures."""
    problems = []
    pairs = labelled_pairs(case)
    vals, excl = oracle_values(case, pairs)
    thr = case["threshold"]
    rows = sorted(r["truth"], key=lambda x: x["truth_threshold"])
    # -- conservation and monotonicity need no oracle
    for row in rows:
        tp, tn, fp, fn, P, N, tot = (row[k] for k in ("tp", "tn", "fp", "fn", "p", "n", "total_clerical_labels"))
        if tp + fn != P or tn + fp != N or P + N != tot:
            problems.append(("conservation identity broken", f"row t={row['truth_threshold']}: TP={tp} FN={fn} P={P} TN={tn} FP={fp} N={N} total={tot}"))
            break
    for a, b in zip(rows, rows[1:]):
        if b["tp"] > a["tp"] or b["fp"] > a["fp"]:
            problems.append(("TP/FP increase with the threshold", f"rows t={a['truth_threshold']} -> t={b['truth_threshold']}: TP {a['tp']}->{b['tp']}, FP {a['fp']}->{b['fp']}"))
            break
    if excl:
        problems.append(("excluded", excl))
    else:
        tol_rel = 1e-6 if case["round"] is not None else 1e-9
        for row in rows:
            t = row["truth_threshold"]
            tol = tol_rel * max(1.0, abs(t))
            exp = {"tp": 0, "tn": 0, "fp": 0, "fn": 0}
            for q, v in zip(pairs, vals):
                pos = q["score"] >= thr
                pred = v is not None and v >= t - tol
                exp[("tp" if pred else "fn") if pos else ("fp" if pred else "tn")] += 1
            exp["p"], exp["n"] = exp["tp"] + exp["fn"], exp["tn"] + exp["fp"]
            exp["total_clerical_labels"] = len(pairs)
            bad = [k for k in COUNT_COLS if row[k] != exp[k]]
            if bad:
                problems.append(("count differs from the direct recount", f"row t={t}: " + ", ".join(f"{k}={row[k]} expected {exp[k]}" for k in bad)))
                break
    # -- rates by definition, from the row's own counts
    for row in rows:
        d = definitions(row["tp"], row["tn"], row["fp"], row["fn"])
        d["match_probability"] = 2 ** row["truth_threshold"] / (1 + 2 ** row["truth_threshold"])
        bad = [(k, row.get(k), d[k]) for k in RATE_COLS if d[k] is not None and not (not undefined(row.get(k)) and core.close(row[k], d[k], 1e-7, 1e-9))]
        if bad:
            k, got, want = bad[0]
            problems.append((f"rate {k} does not follow its definition", f"row t={row['truth_threshold']} counts TP={row['tp']} TN={row['tn']} FP={row['fp']} FN={row['fn']}: {k}={got}, definition gives {want}"))
            break
    # -- prediction errors
    et = case["err_threshold"]
    must, may = set(), set()
    for q in pairs:
        key = frozenset([rid(q["l"]), rid(q["r"])])
        border = q["score"] == et or abs(q["p"] - et) < 1e-9
        predicted_pos = q["scored"] and q["p"] > et and (case["mode"] == "table" or q["found"])
        predicted_neg = (q["p"] < et) if case["mode"] == "table" else (q["p"] < et or not q["found"])
        is_fp = q["score"] < et and predicted_pos
        is_fn = q["score"] > et and predicted_neg
        want = (case["err_fp"] and is_fp) or (case["err_fn"] and is_fn)
        if border:
            may.add(key)
        elif want:
            must.add((key, "FP" if is_fp else "FN"))
    got = [(frozenset([tuple(e["l"]), tuple(e["r"])]), e["status"]) for e in r["errors"]]
    got_keys = [k for k, _ in got]
    must_keys = {k for k, _ in must}
    missing = [k for k in must_keys if k not in got_keys]
    extra = [k for k in got_keys if k not in must_keys and k not in may]
    if len(set(got_keys)) != len(got_keys):
        problems.append(("prediction_errors returns a pair twice", str(sorted(map(sorted, got_keys)))))
    elif missing or extra:
        problems.append(("prediction_errors is not the set of FP and FN pairs", f"missing {sorted(map(sorted, missing))} unexpected {sorted(map(sorted, extra))}"))
    elif case["mode"] == "table":
        wrong = [(sorted(k), s) for k, s in got if k in must_keys and (k, s) not in must]
        if wrong:
            problems.append(("truth_status wrong", str(wrong)))
    return problems


# --------------------------------------------------------------------------- model requests
def model_requests(case, r):
    """acc_truth, acc_errors (+ acc_prepare for a labels table) fed with the REAL scored-labels table."""
    f32 = case["engine"] == "duckdb"
    common = {}
    if case["mode"] == "table":
        common["rows"] = [[core.f2b(s["score"]), core.f2b(s["w"]), core.f2b(s["p"]), s["found"]] for s in r["scored"]]
    else:
        common["colrows"] = [[s["ll"], s["lr"], s["mk"], core.f2b(s["w"]), core.f2b(s["p"])] for s in r["scored"]]
        common["newkey"] = r["newkey"]
    sizes = [len(t) for t in case["tables"]]
    truth = dict(common, op="acc_truth", thr=core.f2b(case["threshold"]), round=None if case["round"] is None else core.f2b(case["round"]), f32=f32,
                 opt=True if case["mode"] == "table" else case["opt"], intdiv=case["engine"] == "sqlite",
                 counts=None if case["mode"] == "table" else [core.f2b(float(c)) for c in sizes], lt=case["link_type"])
    errs = dict(common, op="acc_errors", thr=core.f2b(case["err_threshold"]), fp=case["err_fp"], fn=case["err_fn"], mode=case["mode"])
    reqs = [truth, errs]
    if case["mode"] == "table":
        recs = records(case)
        multi = len(case["tables"]) > 1
        by_id = {rid(x): x for x in recs}
        keys = [bg.composite_key(x, multi) for x in recs]
        lab_keys = []
        for (tl, ul), (tr, ur), s in case["labels"]:
            for t_, u_ in ((tl, ul), (tr, ur)):
                lab_keys.append(bg.composite_key({"source_dataset": ALIASES[t_], "unique_id": u_}, multi))
        order = sorted(set(keys) | set(lab_keys))
        rank = {k: i for i, k in enumerate(order)}
        present = [0] * len(order)
        for k in keys:
            present[rank[k]] += 1
        labels = []
        for (tl, ul), (tr, ur), s in case["labels"]:
            a, b = by_id.get((ALIASES[tl], ul)), by_id.get((ALIASES[tr], ur))
            ka = rank[bg.composite_key({"source_dataset": ALIASES[tl], "unique_id": ul}, multi)]
            kb = rank[bg.composite_key({"source_dataset": ALIASES[tr], "unique_id": ur}, multi)]
            e1 = [] if a is None or b is None else [bg.ev(ru["ast"], a, b) for ru in case["rules"]]
            e2 = [] if a is None or b is None else [bg.ev(ru["ast"], b, a) for ru in case["rules"]]
            labels.append([ka, kb, core.f2b(s), e1, e2])
        reqs.append({"op": "acc_prepare", "labels": labels, "present": present, "_rank": rank})
    return reqs


def compare_model(case, r, ms):
    """None if the model reproduces the real output, else a description."""
    mt, me = ms[0], ms[1]
    real = sorted(r["truth"], key=lambda x: x["truth_threshold"])
    mod = sorted(mt["rows"], key=lambda x: core.b2f(x[0]))
    if len(real) != len(mod):
        return f"truth table has {len(real)} rows, model {len(mod)}"
    for a, b in zip(real, mod):
        if not core.close(a["truth_threshold"], core.b2f(b[0]), 1e-9):
            return f"thresholds differ: impl {a['truth_threshold']} model {core.b2f(b[0])}"
        got = [a[k] for k in COUNT_COLS]
        if got != [float(x) for x in b[1:8]]:
            return f"counts at t={a['truth_threshold']}: impl {dict(zip(COUNT_COLS, got))} model {dict(zip(COUNT_COLS, b[1:8]))}"
        for k, bits in zip(RATE_COLS, b[8]):
            x, y = a.get(k), core.b2f(bits)
            if undefined(x) or undefined(y):
                if undefined(x) != undefined(y):
                    return f"rate {k} at t={a['truth_threshold']}: impl {x} model {y}"
            elif not core.close(x, y, 1e-9, 1e-12):
                return f"rate {k} at t={a['truth_threshold']}: impl {x} model {y}"
    key = lambda e: (e[0], e[1], e[2], e[3], e[4] or "")
    real_e = sorted(((core.f2b(e["score"]), core.f2b(e["w"]), core.f2b(e["p"]), e["found"], e["status"]) for e in r["errors"]), key=key)
    mod_e = sorted(((x[0], x[1], x[2], x[3], x[4]) for x in me["rows"]), key=key)
    if real_e != mod_e:
        return f"prediction errors differ: impl {len(real_e)} rows, model {len(mod_e)} rows"
    if case["mode"] == "table":
        multi = len(case["tables"]) > 1
        rank = ms[2]["_rank"]
        ck = lambda i: rank[bg.composite_key({"source_dataset": i[0], "unique_id": i[1]}, multi)]
        real_p = sorted((ck(s["l"]), ck(s["r"]), core.f2b(s["score"]), s["found"]) for s in r["scored"])
        mod_p = sorted((x[0], x[1], x[2], x[3]) for x in ms[2]["rows"])
        if real_p != mod_p:
            return f"prepared labels (orientation / join / found_by_blocking_rules) differ: impl {real_p} model {mod_p}"
    return None


# --------------------------------------------------------------------------- generation
SCORES = [0.0, 1.0, 1.0, 0.0, 0.5, 0.25, 0.75, 0.9, 0.3]
THRESHOLDS = [0.5, 0.5, 0.5, 0.25, 0.75, 0.9, 0.3, 0.99, 0.01]
ROUNDS = [None, None, 0.1, 0.5, 1.0, 2.0, 0.25]


def gen_case(rng: random.Random, force: dict | None = None):
    force = force or {}
    engine = force.get("engine") or rng.choice(["duckdb", "duckdb", "sqlite"])
    k = force.get("k") or rng.choice([1, 1, 2, 3])
    link_type = "dedupe_only" if k == 1 else (force.get("link_type") or rng.choice(["link_only", "link_and_dedupe"]))
    idtype = rng.choice(["int", "str"])
    tables = bg.gen_tables(rng, k, max_rows={1: 9, 2: 6, 3: 4}[k], idtype=idtype, min_rows=2 if k == 1 else 1, null_rate=rng.choice([0.0, 0.1, 0.25]))
    for t in tables:
        for row in t:
            row[LABEL] = rng.choice([None, 0, 0, 1, 1, 2, 3])
    cols = rng.sample(["a", "b"], rng.choice([1, 2, 2]))
    comparisons = [{"col": c, "m": round(rng.uniform(0.55, 0.95), 3), "u": round(rng.uniform(0.05, 0.45), 3)} for c in cols]
    mode = force.get("mode") or rng.choice(["table", "column"])
    n_rules = force.get("n_rules", rng.choice([1, 1, 2, 0]) if mode == "table" else rng.choice([1, 1, 2]))
    asym = rng.random() < 0.3
    rules = [{"ast": bg.gen_rule(rng, depth=rng.choice([0, 1, 2]), asym_ok=asym), "top_unparenthesised": rng.random() < 0.5} for _ in range(n_rules)]
    case = {"engine": engine, "link_type": link_type, "tables": tables, "idtype": idtype, "comparisons": comparisons, "prior": rng.choice([0.02, 0.1, 0.3, 0.5]),
            "rules": rules, "mode": mode, "threshold": rng.choice(THRESHOLDS), "round": rng.choice(ROUNDS), "opt": True if mode == "table" else rng.random() < 0.6,
            "err_threshold": rng.choice(THRESHOLDS), "shuffle": rng.randrange(1 << 30), "tag": force.get("tag", "random"), "labels": []}
    case["err_fp"], case["err_fn"] = rng.choice([(True, True), (True, True), (True, False), (False, True)])
    if mode == "table":
        pairs = admissible_pairs(case)
        rng.shuffle(pairs)
        tix = {al: i for i, al in enumerate(ALIASES)}
        binary = rng.random() < 0.4
        for a, b in pairs[: rng.randint(1, min(15, len(pairs)))] if pairs else []:
            if rng.random() < 0.5:
                a, b = b, a  # either id orientation
            s = rng.choice([0.0, 1.0]) if binary else rng.choice(SCORES)
            case["labels"].append([[tix[a["source_dataset"]], a["unique_id"]], [tix[b["source_dataset"]], b["unique_id"]], s])
        if force.get("dangling") and case["labels"]:
            t0, u0 = case["labels"][0][0]
            case["labels"].append([[t0, u0], [t0, "nope" if idtype == "str" else 99], 1.0])
    return case


def family_cases(rng: random.Random):
    """Adversarial families: every link type x mode x engine, all-positive / all-negative labels, every pair missed by blocking,
    labels that name no record, 3-table jobs, a single label, all labels NULL."""
    out = []
    for engine in ("duckdb", "sqlite"):
        for mode in ("table", "column"):
            for k, lt in ((1, "dedupe_only"), (2, "link_only"), (2, "link_and_dedupe"), (3, "link_only"), (3, "link_and_dedupe")):
                out.append(gen_case(rng, {"engine": engine, "mode": mode, "k": k, "link_type": lt, "tag": "grid"}))
    c = gen_case(rng, {"mode": "table", "tag": "all-positive"})
    for l in c["labels"]:
        l[2] = 1.0
    out.append(c)
    c = gen_case(rng, {"mode": "table", "tag": "all-negative"})
    for l in c["labels"]:
        l[2] = 0.0
    out.append(c)
    c = gen_case(rng, {"mode": "table", "tag": "single-label"})
    c["labels"] = c["labels"][:1]
    out.append(c)
    out.append(gen_case(rng, {"mode": "table", "dangling": True, "tag": "dangling-label"}))
    for mode in ("table", "column"):
        c = gen_case(rng, {"mode": mode, "tag": "blocking-misses-everything"})
        c["rules"] = [{"ast": ("lit", "l", "a", "no-such-value"), "top_unparenthesised": False}]
        out.append(c)
        c = gen_case(rng, {"mode": mode, "tag": "blocking-finds-everything"})
        c["rules"] = [{"ast": ("or", ("eq", "a", "a"), ("not", ("eq", "a", "a"))), "top_unparenthesised": False}, {"ast": ("eq", "b", "b"), "top_unparenthesised": False}]
        out.append(c)
    c = gen_case(rng, {"mode": "column", "tag": "all-labels-null"})
    for t in c["tables"]:
        for row in t:
            row[LABEL] = None
    out.append(c)
    c = gen_case(rng, {"mode": "column", "tag": "one-cluster"})
    for t in c["tables"]:
        for row in t:
            row[LABEL] = 7
    out.append(c)
    c = gen_case(rng, {"mode": "column", "tag": "singleton-labels"})
    n = 0
    for t in c["tables"]:
        for row in t:
            row[LABEL] = n
            n += 1
    out.append(c)
    return out


def normalise(case):
    def tup(x):
        return tuple(tup(y) for y in x) if isinstance(x, list) else x

    c = dict(case)
    c["rules"] = [dict(r, ast=tup(r["ast"])) for r in case["rules"]]
    return c


# --------------------------------------------------------------------------- compare
def canon(c):
    return {k: c[k] for k in ("tables", "comparisons", "prior", "rules", "mode", "labels", "threshold", "round", "opt", "err_threshold", "err_fp", "err_fn", "link_type", "engine")}


def compare(ctx, cases, drv):
    res = core.pmap(run_impl_safe, cases, chunksize=2)
    reqs, owner = [], []
    for i, (c, r) in enumerate(zip(cases, res)):
        if isinstance(r, dict) and "truth" in r:
            rq = model_requests(c, r)
            for q in rq:
                owner.append(i)
                reqs.append({k: v for k, v in q.items() if not k.startswith("_")})
            c["_reqs"] = rq
    mres = drv.pbatch(reqs)
    per_case: dict[int, list] = {}
    for i, m in zip(owner, mres):
        if "error" in m:
            raise core.HarnessError("model driver error: " + m["error"])
        per_case.setdefault(i, []).append(m)
    problems = []
    sql_items = []  # (case, acc_truth request, acc_truth result): the regenerated truth-space SQL is evaluated on the same input
    for i, (c, r) in enumerate(zip(cases, res)):
        rq = c.pop("_reqs", None)
        pairs = labelled_pairs(c)
        n_scored = sum(1 for q in pairs if q["scored"])
        ctx.count("engine", c["engine"]); ctx.count("mode", c["mode"]); ctx.count("link_type", c["link_type"]); ctx.count("n_tables", len(c["tables"]))
        ctx.count("rounding", c["round"]); ctx.count("threshold_actual", c["threshold"]); ctx.count("n_rules", len(c["rules"])); ctx.count("tag", c["tag"])
        ctx.count("option_not_found_as_zero", c["opt"]); ctx.count("scored_pairs", min(n_scored, 20) // 5 * 5)
        ctx.count("some_pair_missed_by_blocking", any(q["scored"] and not q["found"] for q in pairs))
        if c["mode"] == "table":
            multi_ = len(c["tables"]) > 1
            ck_ = lambda e: bg.composite_key({"source_dataset": ALIASES[e[0]], "unique_id": e[1]}, multi_)
            ctx.count("labels_reversed_orientation", any(ck_(l[0]) > ck_(l[1]) for l in c["labels"]))
            ctx.count("fractional_scores", any(l[2] not in (0.0, 1.0) for l in c["labels"]))
        else:
            ctx.count("null_labels", any(row[LABEL] is None for t in c["tables"] for row in t))
        if core.impl_error(r):
            ctx.count("impl_error", r["__error__"])
            ctx.case(canon(c), False)
            problems.append((c, "real code raised", f"{r['__error__']}: {r['text'][:300]}", True))
            continue
        rows = r["truth"]
        ties = n_scored - len({round(q["w"], 9) for q in pairs if q["scored"]})
        ctx.count("tied_scores", ties > 0); ctx.count("truth_rows", min(len(rows), 8))
        ctx.case(canon(c), len(rows) >= 2 and ties > 0,
                 sample={"case": canon(c), "truth": [{k: row[k] for k in ["truth_threshold"] + COUNT_COLS} for row in rows], "errors": [[e["l"], e["r"], e["status"]] for e in r["errors"]]} if n_scored <= 4 and rows else None)
        v = verdict(c, r)
        for cls, detail in v:
            if cls == "excluded":
                ctx.count("excluded", detail)
            else:
                problems.append((c, cls, detail, True))
        ms = per_case[i]
        if rq and len(rq) == 3:
            ms[2]["_rank"] = rq[2]["_rank"]
        bad = compare_model(c, r, ms)
        if bad:
            problems.append((c, "model", "outputs differ from Lean model Accuracy: " + bad, False))
            continue
        if rq and c["mode"] == "table":
            sql_items.append((c, rq[0], ms[0]))
        ctx.traces_validated += 1
    from harness.props import c15_sql

    problems += [(c, "model", w, False) for c, w in c15_sql.validate(ctx, sql_items, drv)]
    return problems


def fails_class(cls):
    def f(case):
        case = normalise(case)
        r = run_impl_safe(case)
        if "__error__" in r:
            return cls == "real code raised"
        return any(k == cls for k, _ in verdict(case, r))

    return f


def shrink(case, still_fails):
    cur = json.loads(json.dumps(case))
    budget = 45
    changed = True
    while changed and budget > 0:
        changed = False
        for k in range(len(cur["labels"]) - 1, -1, -1):
            if budget <= 0 or len(cur["labels"]) <= 1:
                break
            cand = json.loads(json.dumps(cur))
            del cand["labels"][k]
            budget -= 1
            if still_fails(cand):
                cur, changed = cand, True
        used = {(t, u) for l in cur["labels"] for t, u in (l[0], l[1])}
        for ti in range(len(cur["tables"])):
            for ri in range(len(cur["tables"][ti]) - 1, -1, -1):
                if budget <= 0 or len(cur["tables"][ti]) <= 1 or (ti, cur["tables"][ti][ri]["unique_id"]) in used:
                    continue
                cand = json.loads(json.dumps(cur))
                del cand["tables"][ti][ri]
                budget -= 1
                if still_fails(cand):
                    cur, changed = cand, True
        for k in range(len(cur["rules"]) - 1, -1, -1):
            if budget <= 0 or len(cur["rules"]) <= 1:
                break
            cand = json.loads(json.dumps(cur))
            del cand["rules"][k]
            budget -= 1
            if still_fails(cand):
                cur, changed = cand, True
        if len(cur["comparisons"]) > 1 and budget > 0:
            cand = json.loads(json.dumps(cur))
            del cand["comparisons"][-1]
            budget -= 1
            if still_fails(cand):
                cur, changed = cand, True
    return normalise(cur)


def run(ctx: core.Ctx):
    ctx.rule = (
        "cases = 1-3 tables x <= 12 records (NULL-heavy tiny domains, int/str ids incl. '10' < '9', a label column with NULLs, shared and singleton labels) x 1-2 ExactMatch "
        "comparisons with random m/u (few distinct scores, many ties) x 0-2 blocking rules (symmetric and asymmetric, NULL-valued) that miss some labelled pairs x "
        "mode labels-table (1-15 labels on admissible pairs, each written in either id orientation, scores in {0,1,.25,.3,.5,.75,.9}) or label-column "
        "(option positives_not_captured... on/off) x threshold in {.01,.25,.3,.5,.75,.9,.99} (equal to scores) x match_weight_round_to_nearest in {None,.1,.25,.5,1,2} x "
        "include_false_positives/negatives; all link types; duckdb+sqlite; + adversarial families (grid of engine x mode x link type, all-positive, all-negative, single label, "
        "label naming no record, blocking finds nothing / everything, all labels NULL, one cluster, singleton labels). "
        "non-trivial = table has >= 2 rows and some scores tie; distinct = hash of the whole case."
    )
    ctx.assumptions = [
        "labels of a labels table name admissible pairs of the link type, each pair at most once (duplicate or inadmissible labels are outside 'labelled pairs')",
        "match weights come from C02's scoring; the oracle recomputes them in closed form and excludes cases where a weight is within 1e-6 of a rounding boundary or two distinct scores are closer than 1e-6",
        "a rate whose definition has a zero denominator is not checked (engines return NULL, inf or NaN; Splink's conventions 1 / 0 are not part of 'definitions')",
        "prediction-error membership is not checked for pairs whose score equals the threshold or whose probability is within 1e-9 of it",
        "cast(x as float) is a 32-bit float on DuckDB and a double on SQLite; round() rounds half away from zero on both",
        "label-column mode with no blocking rule at all is generated only in the labels-table mode (see report: column mode then scores nothing as found)",
    ]
    from harness.props import c15_sql

    sql_errs = c15_sql.prepare()  # Generated/AccSql.lean: the truth-space SQL accuracy.py emits now, as Rel terms (T-sql)
    ctx.lean = core.lean_check(PROP, ctx.thorough)
    if sql_errs:
        ctx.lean.ok = False
        ctx.lean.problems += ["T-sql: " + e for e in sql_errs]
    drv = core.Driver()
    if ctx.replay:
        cases = [normalise(json.loads(open(ctx.replay).read())["replay"]["case"])]
    else:
        from harness import graphs

        cases = [normalise(c) for c in graphs.load_corpus(PROP)] + family_cases(ctx.rng) + [gen_case(ctx.rng) for _ in range(ctx.budget(600, 6000))]
    problems = compare(ctx, cases, drv)
    if (not ctx.lean.ok or any(not conc for _, _, _, conc in problems)) and not ctx.replay:
        ctx.notes.append("proof or correspondence broke: ran the widened failing-input search")
        rng2 = random.Random(ctx.seed + 7919)
        problems += compare(ctx, [gen_case(rng2) for _ in range(1200)], drv)
    concrete = [(c, cls, w) for c, cls, w, conc in problems if conc]
    broken = [(c, w) for c, cls, w, conc in problems if not conc]
    reported = set()
    for c, cls, w in concrete:
        key = (cls, c["engine"] if cls.startswith("rate") else "", c["mode"])
        if key in reported or len(reported) >= 5:
            continue
        reported.add(key)
        small = shrink(c, fails_class(cls))
        rr = run_impl_safe(small)
        detail = next((d for k, d in verdict(small, rr) if k == cls), w) if "truth" in rr else f"{rr['__error__']}: {rr['text'][:300]}"
        ctx.violation(f"real output violates C15: {cls} ({small['mode']} mode, {small['engine']})",
                      {"case": small, "rules_sql": [rule_sql(x) for x in small["rules"]], "observed": rr, "detail": detail},
                      kind="concrete", match_info={"failure": cls, "mode": small["mode"], "engine": small["engine"]})
    # a concrete violation absorbed by a known finding must not hide a broken proof or correspondence
    if not any(v["kind"] == "concrete" for v in ctx.violations):
        if broken:
            c, w = broken[0]
            ctx.violation("correspondence Accuracy model <-> accuracy.py no longer checks",
                          {"correspondence": "harness/props/c15.py compare_model(): " + w, "case": c, "disagreeing_cases": len(broken), "searched_cases": ctx.evaluations, "lean": ctx.lean.as_dict()}, kind="unproved")
        elif not ctx.lean.ok:
            ctx.violation("Lean obligations for C15 no longer check",
                          {"theorems": ctx.lean.as_dict()["undischarged"], "problems": ctx.lean.problems, "build_log_tail": ctx.lean.build_log[-1500:], "searched_cases": ctx.evaluations}, kind="unproved")
