"""C11, SQL level: T-sql regeneration of Generated/MultiSql.lean (+ CCSql.lean) and its translation validation
(the regenerated statements evaluated by `Rel.eval` in the compiled driver vs the engine's result for the real code)."""
from __future__ import annotations

from harness import core

MAX_N = 12
MAX_CASES = 500


def prepare() -> list[str]:
    from harness.translate import tsql

    errs = []
    for which in ("cc", "multi"):
        errs += tsql.run_isolated(which)
    return errs


def request(case: dict, order: list[int]):
    ts = list(case["ts"])
    if case["weights"]:
        ts = [(2.0**w) / (1.0 + 2.0**w) for w in ts]
    ts = sorted(ts)
    rank = [0] * len(order)
    for r, i in enumerate(order):
        rank[i] = r
    vals = sorted({p for _, _, p in case["edges"]} | set(ts) | {1.0})
    key = {v: k for k, v in enumerate(vals)}
    req = {"op": "multi_sql", "n": len(order), "edges": [[rank[a], rank[b], key[p]] for a, b, p in case["edges"]],
           "thrs": [key[t] for t in ts], "one": key[1.0]}
    # all_results is a dict keyed by threshold: of equal thresholds the last pass wins
    last = {}
    for i, t in enumerate(ts):
        last[t] = i
    return req, [last[t] for t in sorted(last)]


def validate(ctx: core.Ctx, items, drv: core.Driver):
    """items: (case, order, real_result) with real_result = {'cols','table',...} (detailed mode), not excluded."""
    items = [it for it in items if len(it[0]["ids"]) <= MAX_N and not it[0]["stats"]][:MAX_CASES]
    if not items:
        return []
    built = [request(c, o) for c, o, _ in items]
    out = drv.pbatch([b[0] for b in built])
    problems = []
    for (c, order, r), (_, pick), m in zip(items, built, out):
        if "error" in m:
            ctx.count("sql_model_unavailable", m["error"][:80])
            continue
        ctx.count("translation_validation", "multi_sql evaluated")
        cols = []
        for i in pick:
            d = {order[a]: order[b] for a, b in m["results"][i]}
            if len(d) != len(order) or len(m["results"][i]) != len(order):
                d = None
            cols.append(d)
        real = dict(r["table"])
        ok = all(d is not None for d in cols) and len(cols) == len(r["cols"]) and all(
            [d[i] for d in cols] == real[i] for i in range(len(order))
        )
        if not ok:
            problems.append((c, "result of the regenerated SQL of the threshold loop evaluated by Rel.eval (Generated/MultiSql.lean, CCSql.lean) differs from the engine's result", False, r))
        else:
            ctx.count("translation_validation", "multi_sql agrees with engine")
    return problems
