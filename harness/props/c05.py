"""C05 — clusters are exactly the connected components of the thresholded graph.

Lean: Model/CC.lean mirrors solve_connected_components statement by statement;
Properties/C05.lean proves termination and correctness for every finite graph.
Tie: this correspondence check runs the real code (standalone function and linker
method; DuckDB, SQLite; Spark in thorough) and the compiled model on the same
graphs and compares the cluster table AND the per-iteration `needs_updating`
counts taken from Splink's own log; a naive union-find oracle decides the
property itself on the real output.
"""
from __future__ import annotations

import itertools
import math
import random

from harness import core, graphs

PROP = "C05"
CC_LOGGER = "splink.internals.connected_components"


# --------------------------------------------------------------------------- real code
def run_impl(case: dict) -> dict:
    """Run the real Splink code on one case; returns cluster index per node index + iteration trace."""
    import pandas as pd

    from harness import impl

    engine = case["engine"]
    api = impl.make_api(engine, threads=case.get("threads", 2))
    ids = case["ids"]
    n = len(ids)
    rng = random.Random(case.get("shuffle", 0))
    node_order = list(range(n))
    rng.shuffle(node_order)
    edges = list(case["edges"])
    rng.shuffle(edges)
    thr, kind = case.get("thr"), case.get("thr_kind")
    kw = {}
    if thr is not None:
        kw["threshold_match_weight" if kind == "weight" else "threshold_match_probability"] = thr
    idt = "str" if isinstance(ids[0], str) else "int"
    if case["entry"] == "fn":
        from splink.internals.clustering import cluster_pairwise_predictions_at_threshold

        nodes_df = impl.typed_frame([{"my_id": ids[i]} for i in node_order], {"my_id": idt})
        edges_df = impl.typed_frame(
            [{"n_1": ids[a], "n_2": ids[b], "match_probability": p} for a, b, p in edges],
            {"n_1": idt, "n_2": idt, "match_probability": "float"},
        )
        with impl.capture_log(CC_LOGGER) as msgs:
            cc = cluster_pairwise_predictions_at_threshold(
                nodes_df, edges_df, api, "my_id", "n_1", "n_2", **kw
            )
            rows = cc.as_record_dict()
        key = {ids[i]: i for i in range(n)}
        out = [(key[r["my_id"]], key.get(r["cluster_id"], -1)) for r in rows]
    else:
        # linker method: records live in 1..k input tables; composite (source_dataset, unique_id) identities
        from splink import Linker, SettingsCreator

        sds = case["sds"]
        names = sorted(set(sds))
        link_type = "dedupe_only" if len(names) == 1 else case.get("link_type", "link_and_dedupe")
        frames = []
        for nm in names:
            rows_ = [{"unique_id": ids[i], "v": "x"} for i in node_order if sds[i] == nm]
            frames.append(impl.typed_frame(rows_, {"unique_id": idt, "v": "str"}))
        settings = SettingsCreator(link_type=link_type, comparisons=[], blocking_rules_to_generate_predictions=[])
        if len(names) > 1 and case.get("layout") == "concat":
            # ONE pre-concatenated input table that carries the source_dataset column itself (a supported input shape)
            rows_ = [{"unique_id": ids[i], "source_dataset": sds[i], "v": "x"} for i in node_order]
            linker = Linker(impl.typed_frame(rows_, {"unique_id": idt, "source_dataset": "str", "v": "str"}), settings, api)
        else:
            linker = Linker(frames if len(frames) > 1 else frames[0], settings, api, input_table_aliases=names if len(frames) > 1 else None)
        if len(names) == 1:
            erows = [{"unique_id_l": ids[a], "unique_id_r": ids[b], "match_probability": p} for a, b, p in edges]
            types = {"unique_id_l": idt, "unique_id_r": idt, "match_probability": "float"}
        else:
            erows = [
                {"source_dataset_l": sds[a], "unique_id_l": ids[a], "source_dataset_r": sds[b], "unique_id_r": ids[b], "match_probability": p}
                for a, b, p in edges
            ]
            types = {"source_dataset_l": "str", "unique_id_l": idt, "source_dataset_r": "str", "unique_id_r": idt, "match_probability": "float"}
        edges_df = impl.typed_frame(erows, types)
        df_predict = linker.table_management.register_table_predict(edges_df, overwrite=True)
        with impl.capture_log(CC_LOGGER) as msgs:
            cc = linker.clustering.cluster_pairwise_predictions_at_threshold(df_predict, **kw)
            rows = cc.as_record_dict()
        if len(names) == 1:
            key = {str(ids[i]): i for i in range(n)}
            out = [(key[str(r["unique_id"])], key.get(str(r["cluster_id"]), -1)) for r in rows]
        else:
            key = {f"{sds[i]}{impl.SEP}{ids[i]}": i for i in range(n)}
            out = [(key[f"{r['source_dataset']}{impl.SEP}{r['unique_id']}"], key.get(str(r["cluster_id"]), -1)) for r in rows]
    return {"rows": sorted(out), "trace": impl.cc_trace(msgs)}


run_impl_safe = core.safe(run_impl)


# --------------------------------------------------------------------------- model + oracle
def node_keys(case: dict) -> list:
    """The value the engine orders nodes by (composite string for multi-table linker jobs)."""
    ids = case["ids"]
    if case["entry"] == "linker" and len(set(case["sds"])) > 1:
        return [f"{case['sds'][i]}-__-{ids[i]}" for i in range(len(ids))]
    return list(ids)


def model_request(case: dict) -> tuple[dict, list[int]]:
    keys = node_keys(case)
    order = sorted(range(len(keys)), key=lambda i: keys[i])
    rank = [0] * len(keys)
    for r, i in enumerate(order):
        rank[i] = r
    req = {
        "op": "cc",
        "n": len(keys),
        "edges": [[rank[a], rank[b], core.f2b(p)] for a, b, p in case["edges"]],
        "thr": None,
        "thrw": None,
    }
    if case.get("thr") is not None:
        if case.get("thr_kind") == "weight":
            req["thrw"] = core.f2b(case["thr"])
        else:
            req["thr"] = core.f2b(case["thr"])
    return req, order


def oracle_threshold(case: dict):
    thr = case.get("thr")
    if thr is None:
        return None
    if case.get("thr_kind") == "weight":
        bf = 2.0**thr
        return bf / (1.0 + bf)
    return thr


def oracle_clusters(case: dict) -> dict[int, int]:
    """Union-find components; cluster label = node index with the smallest key in the component."""
    n = len(case["ids"])
    t = oracle_threshold(case)
    parent = list(range(n))

    def find(x):
        while parent[x] != x:
            parent[x] = parent[parent[x]]
            x = parent[x]
        return x

    for a, b, p in case["edges"]:
        if t is None or p >= t:
            ra, rb = find(a), find(b)
            if ra != rb:
                parent[ra] = rb
    keys = node_keys(case)
    best: dict[int, int] = {}
    for i in range(n):
        r = find(i)
        if r not in best or keys[i] < keys[best[r]]:
            best[r] = i
    return {i: best[find(i)] for i in range(n)}


def oracle_verdict(case: dict, rows) -> str | None:
    """None if the real output satisfies C05 on this case, else a description."""
    n = len(case["ids"])
    want = oracle_clusters(case)
    seen = [i for i, _ in rows]
    if sorted(seen) != list(range(n)):
        return f"records not returned exactly once: got node indices {sorted(seen)} for {n} nodes"
    got = dict(rows)
    for i in range(n):
        if got[i] != want[i]:
            same_partition = all((got[a] == got[b]) == (want[a] == want[b]) for a in range(n) for b in range(a + 1, n)) if n <= 200 else False
            return (
                ("cluster_id is not the smallest member id" if same_partition else "partition differs from connected components")
                + f": node {i} got cluster {got[i]} expected {want[i]}"
            )
    return None


def is_threshold_fragile(case: dict) -> bool:
    """A weight threshold whose probability lands within rounding of an edge probability is excluded
    (the property's own wording: equivalence up to floating point)."""
    if case.get("thr") is not None and case.get("engine") == "sqlite" and not core.sqlite_literal_exact(oracle_threshold(case)):
        return True  # SQLite reads this decimal literal one ulp high (engine defect, see core.sqlite_literal_exact)
    if case.get("thr") is None or case.get("thr_kind") != "weight":
        return False
    t = oracle_threshold(case)
    return any(p != t and abs(p - t) <= 1e-12 for _, _, p in case["edges"])


# --------------------------------------------------------------------------- generators
def with_probs(rng: random.Random, pairs, style: str):
    if style == "all1":
        return [(a, b, 1.0) for a, b in pairs]
    if style == "grid":
        return [(a, b, rng.choice([0.1, 0.25, 0.5, 0.75, 0.9, 1.0])) for a, b in pairs]
    return [(a, b, round(rng.random(), 6)) for a, b in pairs]


def make_ids(rng: random.Random, n: int, order: str, idtype: str):
    """ids whose ORDER (rank) follows `order`; returns list of ids per node index."""
    perm = graphs.order_perm(rng, n, order)  # perm[i] = rank of node i
    if idtype == "int":
        base = sorted(rng.sample(range(0, 10 * n + 10), n))
        return [base[perm[i]] for i in range(n)]
    if idtype == "str":
        # fixed width so that string order = numeric order; plus a variant with mixed widths
        base = sorted({f"{x:05d}" for x in rng.sample(range(0, 10 * n + 10), n)})
        return [base[perm[i]] for i in range(n)]
    if idtype == "strmixed":
        base = sorted({str(x) for x in rng.sample(range(0, 10 * n + 10), n)})  # "10" < "9"
        return [base[perm[i]] for i in range(n)]
    raise ValueError(idtype)


def decorate(rng: random.Random, n: int, pairs, *, engine, entry, order="random", idtype=None, probs=None, thr="auto", tag=""):
    idtype = idtype or rng.choice(["int", "int", "str", "strmixed"])
    ids = make_ids(rng, n, order, idtype)
    probs = probs or rng.choice(["all1", "grid", "rand"])
    edges = with_probs(rng, pairs, probs)
    # noise: duplicate, reversed, self loops
    extra = []
    for a, b, p in edges:
        r = rng.random()
        if r < 0.08:
            extra.append((a, b, p))
        elif r < 0.16:
            extra.append((b, a, p))
    if n and rng.random() < 0.3:
        v = rng.randrange(n)
        extra.append((v, v, 1.0))
    edges += extra
    case = {"n": n, "ids": ids, "edges": edges, "engine": engine, "entry": entry, "shuffle": rng.randrange(1 << 30), "tag": tag, "order": order, "idtype": idtype}
    if thr == "auto":
        r = rng.random()
        ps = sorted({p for _, _, p in edges})
        if r < 0.22 or not ps:
            case["thr"] = None
        elif r < 0.30:
            # boundary values of both arguments: falsy-but-given (0, 0.0, -0.0), the ends of [0, 1] and 0.5 (= weight 0)
            case["thr"], case["thr_kind"] = rng.choice([(0, "weight"), (0.0, "weight"), (-0.0, "weight"), (0, "prob"), (0.0, "prob"), (0.5, "prob"), (1.0, "prob"), (1, "prob")])
        elif r < 0.55:
            case["thr"], case["thr_kind"] = rng.choice(ps), "prob"  # exactly on an edge probability
        elif r < 0.8:
            case["thr"], case["thr_kind"] = round(rng.random(), 3), "prob"
        else:
            case["thr"], case["thr_kind"] = round(rng.uniform(-6, 6), 2), "weight"
    elif thr is not None:
        case["thr"], case["thr_kind"] = thr
    if entry == "linker":
        k = rng.choice([1, 2, 2, 3])
        names = ["a", "b", "c"][:k]
        sds = [rng.choice(names) for _ in range(n)]
        # overlapping unique ids across datasets: reuse ids where the dataset differs
        if k > 1 and idtype == "int" and n >= 2:
            pool = sorted(rng.sample(range(0, 3 * n + 3), max(1, (n + 1) // 2)))
            used, ids2 = set(), []
            for i in range(n):
                cand = [x for x in pool if (sds[i], x) not in used]
                x = rng.choice(cand) if cand else max(pool) + 1 + i
                used.add((sds[i], x))
                ids2.append(x)
            case["ids"] = ids2
        case["sds"] = sds
        if len(set(sds)) > 1:
            case["link_type"] = rng.choice(["link_and_dedupe", "link_only"])
            case["layout"] = "concat" if rng.random() < 0.35 else "tables"
    return case


def gen_cases(ctx: core.Ctx) -> list[dict]:
    rng = ctx.rng
    cases = []
    engines = ["duckdb", "sqlite"]

    def eng():
        return rng.choice(engines)

    # (1) exhaustive: every labelled graph on <= 4 nodes, every id permutation, standalone function
    for n in range(0 if False else 1, 5):
        for pairs in graphs.all_graphs(n):
            for perm in itertools.permutations(range(n)):
                ids = [perm[i] * 3 + 1 for i in range(n)]
                cases.append({"n": n, "ids": ids, "edges": [(a, b, 1.0) for a, b in pairs], "engine": "sqlite" if (len(cases) % 2) else "duckdb",
                              "entry": "fn", "shuffle": len(cases), "tag": f"exh{n}", "order": "perm", "idtype": "int", "thr": None})
    # (2) every labelled graph on 5 nodes (6 in thorough): batched as disjoint unions + a sample one by one
    big = 6 if ctx.thorough else 5
    allg = list(graphs.all_graphs(big))
    rng.shuffle(allg)
    per = 24
    for k in range(0, len(allg), per):
        chunk = allg[k : k + per]
        n = big * len(chunk)
        pairs = [(a + big * gi, b + big * gi) for gi, g in enumerate(chunk) for a, b in g]
        cases.append(decorate(rng, n, pairs, engine=eng(), entry="fn", order="random", probs="all1", thr=None, tag=f"union{big}"))
    for g in allg[: ctx.budget(120, 1500)]:
        cases.append(decorate(rng, big, g, engine=eng(), entry=rng.choice(["fn", "linker"]), tag=f"single{big}"))
    # (3) structured / adversarial families
    nmax = 300 if ctx.thorough else 40
    fams = ctx.budget(140, 1200)
    for _ in range(fams):
        fam = rng.choice(["path", "path", "cycle", "star", "cliques", "caterpillar", "gnp", "gnp", "forest", "grid"])
        n = rng.randint(2, nmax if fam in ("path", "cycle") else min(nmax, 60))
        pairs = graphs.family(rng, fam, n)
        order = rng.choice(["identity", "reversed", "bitrev", "zigzag", "random", "random"])
        cases.append(decorate(rng, n, pairs, engine=eng(), entry=rng.choice(["fn", "fn", "linker"]), order=order, tag=fam))
    if ctx.thorough:
        for order in ["identity", "bitrev", "zigzag"]:
            n = 1200
            cases.append(decorate(rng, n, graphs.family(rng, "path", n), engine="sqlite", entry="fn", order=order, idtype="int", probs="all1", thr=None, tag="longpath"))
        for _ in range(40):
            n = rng.randint(2, 12)
            cases.append(decorate(rng, n, graphs.family(rng, "gnp", n), engine="spark", entry=rng.choice(["fn", "linker"]), tag="spark"))
    return cases


# --------------------------------------------------------------------------- comparison
def compare(ctx: core.Ctx, cases: list[dict], drv: core.Driver, label="corr"):
    """Run impl + model on all cases; returns list of (case, problem, concrete?)."""
    reqs, orders = [], []
    for c in cases:
        r, o = model_request(c)
        reqs.append(r)
        orders.append(o)
    spark = [i for i, c in enumerate(cases) if c["engine"] == "spark"]
    par = [i for i, c in enumerate(cases) if c["engine"] != "spark"]
    res = [None] * len(cases)
    for i, r in zip(par, core.pmap(run_impl_safe, [cases[i] for i in par], chunksize=4)):
        res[i] = r
    for i in spark:
        res[i] = run_impl_safe(cases[i])
    mres = drv.pbatch(reqs)
    problems = []
    sql_items = []  # small standalone cases on which the regenerated SQL is evaluated by Rel.eval (translation validation)
    for c, order, r, m in zip(cases, orders, res, mres):
        n = len(c["ids"])
        comps = oracle_clusters(c)
        ncomp = len(set(comps.values()))
        nontrivial = any(list(comps.values()).count(v) >= 3 for v in set(comps.values())) and ncomp >= 1
        ctx.case({k: c[k] for k in ("ids", "edges", "thr", "thr_kind", "entry", "engine", "sds") if k in c}, nontrivial,
                 sample={"case": {k: c[k] for k in c if k != "shuffle"} if n <= 8 else {"tag": c["tag"], "n": n, "n_edges": len(c["edges"])},
                         "impl_rows": r.get("rows") if n <= 8 and isinstance(r, dict) else None, "impl_trace": r.get("trace") if isinstance(r, dict) else None})
        ctx.count("family", c["tag"])
        ctx.count("engine", c["engine"])
        ctx.count("entry", c["entry"])
        ctx.count("n_nodes", "0-4" if n <= 4 else "5-8" if n <= 8 else "9-40" if n <= 40 else "41-300" if n <= 300 else ">300")
        ctx.count("threshold", "none" if c.get("thr") is None else c.get("thr_kind"))
        ctx.count("idtype", c.get("idtype")); ctx.count("linker_input_layout", c.get("layout", "n/a"))
        if core.impl_error(r):
            ctx.count("impl_error", r["__error__"])
            problems.append((c, f"real code raised {r['__error__']}: {r['text'][:300]}", True, r))
            continue
        if "error" in m and ctx.lean.ok:
            raise core.HarnessError(f"model driver error: {m['error']}")
        ctx.count("iterations", len(r["trace"]) if len(r["trace"]) < 6 else "6-20" if len(r["trace"]) <= 20 else ">20")
        fragile = is_threshold_fragile(c)
        verdict = None if fragile else oracle_verdict(c, r["rows"])
        if "error" in m:
            # translated part of the model not regenerable from the current source (a broken obligation already): oracle only
            ctx.count("model_unavailable", m["error"][:80])
            if verdict is not None:
                problems.append((c, verdict, True, r))
            continue
        # model output is in rank space
        mrows = sorted((order[a], order[b]) for a, b in m["clusters"])
        if verdict is not None:
            problems.append((c, verdict, True, r))
            continue
        if fragile:
            ctx.count("excluded", "weight threshold within 1e-12 of an edge probability / SQLite misreads the threshold literal")
            continue
        sql_items.append((c, order, r, oracle_threshold(c)))
        if mrows != r["rows"]:
            problems.append((c, "cluster table differs from Lean model CC.cluster (real output still satisfies the property)", False, r))
            continue
        if m["trace"] != r["trace"]:
            problems.append((c, f"per-iteration needs_updating counts differ from Lean model CC.trace: impl {r['trace'][:12]} model {m['trace'][:12]}", False, r))
            continue
        ctx.traces_validated += 1
    from harness.props import c05_sql

    problems += c05_sql.validate(ctx, sql_items, drv)
    return problems


def shrink(case: dict, still_fails) -> dict:
    """Greedy delta-debugging over edges then nodes (bounded)."""
    cur = dict(case)
    budget = 80
    changed = True
    while changed and budget > 0:
        changed = False
        for k in range(len(cur["edges"]) - 1, -1, -1):
            if budget <= 0:
                break
            cand = dict(cur)
            cand["edges"] = cur["edges"][:k] + cur["edges"][k + 1 :]
            budget -= 1
            if still_fails(cand):
                cur, changed = cand, True
        used = {a for a, _, _ in cur["edges"]} | {b for _, b, _ in cur["edges"]}
        for v in range(len(cur["ids"]) - 1, -1, -1):
            if v in used or budget <= 0 or len(cur["ids"]) <= 1:
                continue
            cand = dict(cur)
            cand["ids"] = cur["ids"][:v] + cur["ids"][v + 1 :]
            if "sds" in cur:
                cand["sds"] = cur["sds"][:v] + cur["sds"][v + 1 :]
            cand["edges"] = [(a - (a > v), b - (b > v), p) for a, b, p in cur["edges"]]
            cand["n"] = len(cand["ids"])
            budget -= 1
            if still_fails(cand):
                cur, changed = cand, True
                break
    return cur


def impl_fails_property(case: dict) -> bool:
    r = run_impl_safe(case)
    if "__error__" in r:
        return True
    return oracle_verdict(case, r["rows"]) is not None


# --------------------------------------------------------------------------- entry
def run(ctx: core.Ctx):
    ctx.rule = (
        "cases = every labelled graph on <=4 nodes under every id permutation (exhaustive), every labelled graph on 5 nodes "
        "(6 in thorough) batched as disjoint unions plus a sample singly, structured families (paths/cycles with identity, reversed, "
        "bit-reversal, zig-zag and random id orders; stars; cliques joined by bridges; caterpillars; G(n,p); forests; grids) with duplicate/"
        "reversed edges and self loops, int/str/mixed-width-str/composite ids, thresholds none / equal to an edge probability / random / "
        "match weight; entry = standalone function or linker method (1-3 tables, overlapping ids); engines duckdb+sqlite (+spark thorough). "
        "non-trivial = the thresholded graph has a component with >= 3 nodes; distinct = hash of (ids, edges, threshold, entry, engine)."
    )
    ctx.assumptions = [
        "edge endpoints are node ids, node ids distinct and non-NULL (property's hypotheses)",
        "node ids map to ranks order-isomorphically (ASCII strings; engine collation = code-point order)",
        "weight thresholds whose probability lies within 1e-12 of an edge probability are excluded (floating point)",
    ]
    from harness.translate import tarith

    errs = tarith.write({"threshold_args_to_match_prob", "bayes_factor_to_prob", "match_weight_to_bayes_factor"})  # Generated/Arith.lean: the model's threshold conversion is the translated threshold_args_to_match_prob
    from harness.props import c05_sql

    sql_errs = c05_sql.prepare()  # Generated/CCSql.lean: the SQL solve_connected_components emits now, as Rel terms (T-sql); Properties/C05Sql.lean is re-checked against it
    ctx.lean = core.lean_check(PROP, ctx.thorough)
    if errs or sql_errs:
        ctx.lean.ok = False
        ctx.lean.problems += ["T-arith: " + e for e in errs] + ["T-sql: " + e for e in sql_errs]
    drv = core.Driver()
    if ctx.replay:
        import json

        body = json.loads(open(ctx.replay).read())
        case = body["replay"]["case"]
        case["edges"] = [tuple(e) for e in case["edges"]]
        cases = [case]
    else:
        corpus = graphs.load_corpus(PROP)
        cases = corpus + gen_cases(ctx)
    problems = compare(ctx, cases, drv)
    ctx.exhaustive = True  # the <=4-node / 5-node sub-domain is enumerated completely
    lean_broken = not ctx.lean.ok
    if lean_broken or any(not conc for _, _, conc, _ in problems):
        # failing-input search: widen with fresh adversarial cases, judged by the oracle on the real code
        ctx.notes.append("proof or correspondence broke: ran the widened failing-input search")
        extra_ctx_rng = random.Random(ctx.seed + 7919)
        save, ctx.rng = ctx.rng, extra_ctx_rng
        ctx.thorough, was = True, ctx.thorough
        try:
            more = gen_cases(ctx)[: 1500]
        finally:
            ctx.thorough = was
            ctx.rng = save
        more = [c for c in more if c["engine"] != "spark" and len(c["ids"]) <= 150]
        problems += compare(ctx, more, drv, label="search")
    concrete = [(c, w, r) for c, w, conc, r in problems if conc]
    broken = [(c, w, r) for c, w, conc, r in problems if not conc]
    seen_keys = set()
    for c, w, r in concrete:
        # SQLite refuses a compound SELECT of more than 500 terms; the final UNION ALL has one term per iteration (finding K12)
        limit = isinstance(r, dict) and "too many terms in compound SELECT" in r.get("text", "")
        key = (c["entry"], w.split(":")[0], c["engine"] if limit else None, limit)
        if key in seen_keys or len(seen_keys) >= 5:
            continue
        seen_keys.add(key)
        small = shrink(c, impl_fails_property) if len(c["ids"]) <= 120 else c
        rr = run_impl_safe(small)
        what = oracle_verdict(small, rr["rows"]) if "rows" in rr else f"real code raised {rr.get('__error__')}: {rr.get('text', '')[:200]}"
        limit = "too many terms in compound SELECT" in rr.get("text", "") if isinstance(rr, dict) else False
        ctx.violation(
            "real output violates C05: " + (what or w).split(":")[0] + (" [SQLite compound SELECT limit]" if limit else ""),
            {"case": small if len(small["ids"]) <= 300 else {"tag": small["tag"], "n": len(small["ids"]), "order": small.get("order"), "engine": small["engine"]},
             "observed": rr if len(small["ids"]) <= 40 else {"trace": rr.get("trace"), "error": rr.get("text", "")[-300:] if isinstance(rr, dict) else None},
             "expected_clusters": oracle_clusters(small) if len(small["ids"]) <= 40 else None,
             "detail": what or w, "original_case_size": len(c["ids"])},
            kind="concrete",
            match_info={"entry": small["entry"], "failure": (what or w).split(":")[0], "engine": small["engine"], "sqlite_compound_select_limit": limit},
        )
    if not concrete:
        if broken:
            c, w, r = broken[0]
            ctx.violation(
                "correspondence CC model <-> solve_connected_components no longer checks",
                {"correspondence": "harness/props/c05.py compare(): " + w, "case": c if len(c["ids"]) <= 40 else {"tag": c["tag"], "n": len(c["ids"])},
                 "disagreeing_cases": len(broken), "searched_cases": ctx.evaluations, "lean": ctx.lean.as_dict()},
                kind="unproved",
            )
        elif lean_broken:
            ctx.violation(
                "Lean obligations for C05 no longer check",
                {"theorems": ctx.lean.as_dict()["undischarged"], "problems": ctx.lean.problems, "build_log_tail": ctx.lean.build_log[-1500:],
                 "searched_cases": ctx.evaluations},
                kind="unproved",
            )
