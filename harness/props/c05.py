"""C05 — clusters are exactly the connected components of the thresholded graph.

Lean: Model/CC.lean mirrors solve_connected_components statement by statement;
Properties/C05.lean proves termination and correctness for every finite graph.
Tie: this correspondence check runs the real code (standalone function and linker
method; DuckDB, SQLite; Spark in thorough) and the compiled model on the same
graphs and compares the cluster table AND the per-iteration `needs_updating`
counts taken from Splink's own log; a naive union-find oracle decides the
property itself on the real output.
"""
from __future__ import annotations

import itertools
import math
import random

from harness import core, graphs

PROP = "C05"
CC_LOGGER = "splink.internals.connected_components"


# --------------------------------------------------------------------------- real code
def run_impl(case: dict) -> dict:
    """Run the real Splink code on one case; returns cluster index per node index + iteration trace."""
    import pandas as pd

    from harness import impl

    engine = case["engine"]
    api = impl.make_api(engine, threads=case.get("threads", 2))
    ids = case["ids"]
    n = len(ids)
    rng = random.Random(case.get("shuffle", 0))
    node_order = list(range(n))
    rng.shuffle(node_order)
    edges = list(case["edges"])
    rng.shuffle(edges)
    thr, kind = case.get("thr"), case.get("thr_kind")
    kw = {}
    if thr is not None:
        kw["threshold_match_weight" if kind == "weight" else "threshold_match_probability"] = thr
    idt = "str" if isinstance(ids[0], str) else "int"
    if case["entry"] == "fn":
        from splink.internals.clustering import cluster_pairwise_predictions_at_threshold

        nodes_df = impl.typed_frame([{"my_id": ids[i]} for i in node_order], {"my_id": idt})
        edges_df = impl.typed_frame(
            [{"n_1": ids[a], "n_2": ids[b], "match_probability": p} for a, b, p in edges],
            {"n_1": idt, "n_2": idt, "match_probability": "float"},
        )
        with impl.capture_log(CC_LOGGER) as msgs:
            cc = cluster_pairwise_predictions_at_threshold(
                nodes_df, edges_df, api, "my_id", "n_1", "n_2", **kw
            )
            rows = cc.as_record_dict()
        key = {ids[i]: i for i in range(n)}
        out = [(key[r["my_id"]], key.get(r["cluster_id"], -1)) for r in rows]
    else:
        # linker method: records live in 1..k input tables; composite (source_dataset, unique_id) identities
        from splink import Linker, SettingsCreator

        sds = case["sds"]
        names = sorted(set(sds))
        link_type = "dedupe_only" if len(names) == 1 else case.get("link_type", "link_and_dedupe")
        frames = []
        for nm in names:
            rows_ = [{"unique_id": ids[i], "v": "x"} for i in node_order if sds[i] == nm]
            frames.append(impl.typed_frame(rows_, {"unique_id": idt, "v": "str"}))
        settings = SettingsCreator(link_type=link_type, comparisons=[], blocking_rules_to_generate_predictions=[])
        if len(names) > 1 and case.get("layout") == "concat":
            # ONE pre-concatenated input table that carries the source_dataset column itself (a supported input shape)
            rows_ = [{"unique_id": ids[i], "source_dataset": sds[i], "v": "x"} for i in node_order]
            linker = Linker(impl.typed_frame(rows_, {"unique_id": idt, "source_dataset": "str", "v": "str"}), settings, api)
        else:
            linker = Linker(frames if len(frames) > 1 else frames[0], settings, api, input_table_aliases=names if len(frames) > 1 else None)
        if len(names) == 1:
            erows = [{"unique_id_l": ids[a], "unique_id_r": ids[b], "match_probability": p} for a, b, p in edges]
            types = {"unique_id_l": idt, "unique_id_r": idt, "match_probability": "float"}
        else:
            erows = [
                {"source_dataset_l": sds[a], "unique_id_l": ids[a], "source_dataset_r": sds[b], "unique_id_r": ids[b], "match_probability": p}
                for a, b, p in edges
            ]
            types = {"source_dataset_l": "str", "unique_id_l": idt, "source_dataset_r": "str", "unique_id_r": idt, "match_probability": "float"}
        edges_df = impl.typed_frame(erows, types)
        df_predict = linker.table_management.register_table_predict(edges_df, overwrite=True)
        with impl.capture_log(CC_LOGGER) as msgs:
            cc = linker.clustering.cluster_pairwise_predictions_at_threshold(df_predict, **kw)
            rows = cc.as_record_dict()
        if len(names) == 1:
            key = {str(ids[i]): i for i in range(n)}
            out = [(key[str(r["unique_id"])], key.get(str(r["cluster_id"]), -1)) for r in rows]
        else:
            key = {f"{sds[i]}{impl.SEP}{ids[i]}": i for i in range(n)}
            out = [(key[f"{r['source_dataset']}{impl.SEP}{r['unique_id']}"], key.get(str(r["cluster_id"]), -1)) for r in rows]
    return {"rows": sorted(out), "trace": impl.cc_trace(msgs)}


run_impl_safe = core.safe(run_impl)


# --------------------------------------------------------------------------- model + oracle
def node_keys(case: dict) -> list:
    """The value the engine orders nodes by (composite string for multi-table linker jobs)."""
    ids = case["ids"]
    if case["entry"] == "linker" and len(set(case["sds"])) > 1:
        return [f"{case['sds'][i]}-__-{ids[i]}" for i in range(len(ids))]
    return list(ids)


def model_request(case: dict) -> tuple[dict, list[int]]:
    keys = node_keys(case)
    order = sorted(range(len(keys)), key=lambda i: keys[i])
    rank = [0] * len(keys)
    for r, i in enumerate(order):
        rank[i] = r
    req = {
        "op": "cc",
        "n": len(keys),
        "edges": [[rank[a], rank[b], core.f2b(p)] for a, b, p in case["edges"]],
        "thr": None,
        "thrw": None,
    }
    if case.get("thr") is not None:
        if case.get("thr_kind") == "weight":
            req["thrw"] = core.f2b(case["thr"])
        else:
            req["thr"] = core.f2b(case["thr"])
    return req, order


def oracle_threshold(case: dict):
    thr = case.get("thr")
    if thr is None:
        return None
    if case.get("thr_kind") == "weight":
        bf = 2.0**thr
        return bf / (1.0 + bf)
    return thr


def oracle_clusters(case: dict) -> dict[int, int]:
    """Union-find components; cluster label = node index with the smallest key in the component."""
    n = len(case["ids"])
    t = oracle_threshold(case)
    parent = list(range(n))

    def find(x):
        while parent[x] != x:
            parent[x] = parent[parent[x]]
            x = parent[x]
        return x

    for a, b, p in case["edges"]:
        if t is None or p >= t:
            ra, rb = find(a), find(b)
            if ra != rb:
                parent[ra] = rb
    keys = node_keys(case)
    best: dict[int, int] = {}
    for i in range(n):
        r = find(i)
        if r not in best or keys[i] < keys[best[r]]:
            best[r] = i
    return {i: best[find(i)] for i in range(n)}


def oracle_verdict(case: dict, rows) -> str | None:
    """None if the real output satisfies C05 on this case, else a description."""
    n = len(case["ids"])
    want = oracle_clusters(case)
    seen = [i for i, _ in rows]
    if sorted(seen) != list(range(n)):
        return f"records not returned exactly once: got node indices {sorted(seen)} for {n} nodes"
    got = dict(rows)
    for i in range(n):
        if got[i] != want[i]:
            same_partition = all((got[a] == got[b]) == (want[a] == want[b]) for a in range(n) for b in range(a + 1, n)) if n <= 200 else False
            return (
                ("cluster_id is not the smallest member id" if same_partition else "partition differs from connected components")
                + f": node {i} got cluster {got[i]} expected {want[i]}"
            )
    return None


def is_threshold_fragile(case: dict) -> bool:
    """A weight threshold whose probability lands within rounding of an edge probability is excluded
    (the property's own wording: equivalence up to floating point)."""
    if case.get("thr") is not None and case.get("engine") == "sqlite" and not core.sqlite_literal_exact(oracle_threshold(case)):
        return True  # SQLite reads this decimal literal one ulp high (engine defect, see core.sqlite_literal_exact)
    if case.get("thr") is None or case.get("thr_kind") != "weight":
        return False
    t = oracle_threshold(case)
    return any(p != t and abs(p - t) <= 1e-12 for _, _, p in case["edges"])


# --------------------------------------------------------------------------- generators
def with_probs(rng: random.Random, pairs, style: str):
    if style == "all1":
        return [(a, b, 1.0) for a, b in pairs]
    if style == "grid":
        return [(a, b, rng.choice([0.1, 0.25, 0.5, 0.75, 0.9, 1.0])) for a, b in pairs]
    return [(a, b, round(rng.random(), 6)) for a, b in pairs]


def make_ids(rng: random.Random, n: int, order: str, idtype: str):
    """ids whose ORDER (rank) follows `order`; returns list of ids per node index."""
    perm = graphs.order_perm(rng, n, order)  # perm[i] = rank of node i
    if idtype == "int":
        base = sorted(rng.sample(range(0, 10 * n + 10), n))
        return [base[perm[i]] for i in range(n)]
    if idtype == "str":
        # fixed width so that string order = numeric order; plus a variant with mixed widths
        base = sorted({f"{x:05d}" for x in rng.sample(range(0, 10 * n + 10), n)})
        return [base[perm[i]] for i in range(n)]
    if idtype == "strmixed":
        base = sorted({str(x) for x in rng.sample(range(0, 10 * n + 10), n)})  # "10" < "9"
        return [base[perm[i]] for i in range(n)]
    raise ValueError(idtype)


def pick_threshold(rng: random.Random, edges):
    """(threshold, kind) of one call: none / boundary values of both arguments / exactly an edge probability / random / a weight."""
    r = rng.random()
    ps = sorted({p for _, _, p in edges})
    if r < 0.22 or not ps:
        return None, None
    if r < 0.30:
        # boundary values of both arguments: falsy-but-given (0, 0.0, -0.0), the ends of [0, 1] and 0.5 (= weight 0), values outside
        # [0, 1] (nothing / everything qualifies), a literal printed in exponent form, weights whose probability rounds to 1.0 / to ~1e-18
        return rng.choice([(0, "weight"), (0.0, "weight"), (-0.0, "weight"), (0, "prob"), (0.0, "prob"), (0.5, "prob"), (1.0, "prob"), (1, "prob"),
                           (1.5, "prob"), (-0.5, "prob"), (1e-07, "prob"), (60, "weight"), (-60.0, "weight")])
    if r < 0.55:
        return rng.choice(ps), "prob"  # exactly on an edge probability
    if r < 0.8:
        return round(rng.random(), 3), "prob"
    return round(rng.uniform(-6, 6), 2), "weight"


def decorate(rng: random.Random, n: int, pairs, *, engine, entry, order="random", idtype=None, probs=None, thr="auto", tag=""):
    idtype = idtype or rng.choice(["int", "int", "str", "strmixed"])
    ids = make_ids(rng, n, order, idtype)
    probs = probs or rng.choice(["all1", "grid", "rand"])
    edges = with_probs(rng, pairs, probs)
    # noise: duplicate, reversed, self loops
    extra = []
    for a, b, p in edges:
        r = rng.random()
        if r < 0.08:
            extra.append((a, b, p))
        elif r < 0.16:
            extra.append((b, a, p))
    if n and rng.random() < 0.3:
        v = rng.randrange(n)
        extra.append((v, v, 1.0))
    edges += extra
    case = {"n": n, "ids": ids, "edges": edges, "engine": engine, "entry": entry, "shuffle": rng.randrange(1 << 30), "tag": tag, "order": order, "idtype": idtype}
    if thr == "auto":
        t, kind = pick_threshold(rng, edges)
        case["thr"] = t
        if t is not None:
            case["thr_kind"] = kind
    elif thr is not None:
        case["thr"], case["thr_kind"] = thr
    if entry == "linker":
        k = rng.choice([1, 2, 2, 3])
        names = ["a", "b", "c"][:k]
        sds = [rng.choice(names) for _ in range(n)]
        # overlapping unique ids across datasets: reuse ids where the dataset differs
        if k > 1 and idtype == "int" and n >= 2:
            pool = sorted(rng.sample(range(0, 3 * n + 3), max(1, (n + 1) // 2)))
            used, ids2 = set(), []
            for i in range(n):
                cand = [x for x in pool if (sds[i], x) not in used]
                x = rng.choice(cand) if cand else max(pool) + 1 + i
                used.add((sds[i], x))
                ids2.append(x)
            case["ids"] = ids2
        case["sds"] = sds
        if len(set(sds)) > 1:
            case["link_type"] = rng.choice(["link_and_dedupe", "link_only"])
            case["layout"] = "concat" if rng.random() < 0.35 else "tables"
    return case


# --------------------------------------------------------------------------- sessions: several calls on ONE database API object
# A session is {"session": True, "engine", "entry", "steps": [step, ...]}; every step is a complete single-call case (ids, edges, thr,
# thr_kind, sds ...: the oracle and the model request read it like any other case) plus HOW the call is made:
#   k          the step's number (names of the tables the harness registers derive from it)
#   keep       keep the returned SplinkDataFrame alive (and read it AGAIN after the last call) / drop it right after reading it
#   fn:     form = (nodes form, edges form) out of FN_FORMS, cols = (node id column, left edge column | None, right edge column | None)
#   linker: epoch (a new number = a NEW Linker on the same database API), form out of PREDICT_FORMS, uid_col, sd_col, alias
#   extra_cols (further columns, id columns not first), no_prob_col (edge table without match_probability; only without a threshold)
FN_FORMS = ("raw_pandas", "raw_records", "raw_dict", "sdf_new", "sdf_same", "name_new", "name_same", "reuse")
FN_FORM_WEIGHTED = ("raw_pandas", "raw_pandas", "raw_records", "raw_dict", "sdf_new", "sdf_new", "sdf_same", "sdf_same", "name_new", "name_same")
PREDICT_FORMS = ("predict_overwrite", "table_new", "table_same", "reuse")
FN_COLS = [("my_id", "n_1", "n_2"), ("unique_id", None, None), ("node", None, None), ("my_id", "n_1", None), ("Rec_ID", None, "other_end")]


def _step_content(st: dict):
    return (list(st["ids"]), [tuple(e) for e in st["edges"]], list(st.get("sds") or []))


def _same_call_shape(a: dict, b: dict) -> bool:
    """Could step b be made with the very objects step a was made with?  (same tables, same column names, same linker)"""
    keys = ("cols", "epoch", "uid_col", "sd_col", "extra_cols", "no_prob_col", "shuffle")
    return _step_content(a) == _step_content(b) and all(_tup(a.get(k)) == _tup(b.get(k)) for k in keys)


def _tup(x):
    return tuple(x) if isinstance(x, list) else x


def step_table_names(steps: list[dict], i: int):
    """Symbolic names of the input tables of call i as far as the CALLER (or Splink's fixed naming) chose them; None = raw data.
    fn: (nodes, edges); linker: (input tables, predictions)."""
    st = steps[i]
    form = _tup(st["form"])
    if st["entry"] == "fn":
        out = []
        for which, f in zip(("nodes", "edges"), form):
            if f == "reuse" and i > 0 and _same_call_shape(steps[i - 1], st):
                out.append(step_table_names(steps, i - 1)[0 if which == "nodes" else 1])
            elif f.endswith("_same"):
                out.append(f"user_{which}")
            elif f.endswith("_new"):
                out.append(f"user_{which}_{st['k']}")
            else:
                out.append(None)
        return tuple(out)
    inputs = st.get("alias") or "__splink__input_table_<i>"
    if len(set(st["sds"])) > 1 and st.get("layout") != "concat":
        inputs = tuple(sorted(set(st["sds"])))
    if form == "reuse" and i > 0 and _same_call_shape(steps[i - 1], st):
        return step_table_names(steps, i - 1)
    pred = {"table_new": f"user_pred_{st['k']}", "table_same": "user_pred"}.get(form, "__splink__df_predict")
    return (inputs, pred)


def input_names_reused(sess: dict, i: int) -> bool:
    """Call i reads only tables whose names an EARLIER call of the session used for different content (re-registration under a fixed
    name: register_table(..., overwrite=True), register_table_predict(..., overwrite=True), a second Linker with default aliases)."""
    steps = sess["steps"]
    names = step_table_names(steps, i)
    if any(x is None for x in names):
        return False
    return any(step_table_names(steps, j) == names and _step_content(steps[j]) != _step_content(steps[i]) for j in range(i))


def _idt(st: dict) -> str:
    ids = st["ids"]
    if ids:
        return "str" if isinstance(ids[0], str) else "int"
    return "str" if str(st.get("idtype", "int")).startswith("str") else "int"  # an empty nodes table still has a column type


def _fn_tables(st: dict):
    """(node rows, node types, edge rows, edge types, node column) of a standalone-function call."""
    node_col, left, right = st["cols"]
    el, er = left or f"{node_col}_l", right or f"{node_col}_r"
    ids = st["ids"]
    n = len(ids)
    rng = random.Random(st.get("shuffle", 0))
    node_order = list(range(n))
    rng.shuffle(node_order)
    edges = [tuple(e) for e in st["edges"]]
    rng.shuffle(edges)
    idt = _idt(st)
    if st.get("extra_cols"):
        ntypes = {"label": "str", node_col: idt, "score": "float"}
        nrows = [{"label": f"r{i}", node_col: ids[i], "score": i / 7.0} for i in node_order]
        etypes = {"match_probability": "float", er: idt, "note": "str", el: idt, "match_weight": "float"}
        erows = [{"match_probability": p, er: ids[b], "note": "e", el: ids[a], "match_weight": 3.5 - a} for a, b, p in edges]
    else:
        ntypes = {node_col: idt}
        nrows = [{node_col: ids[i]} for i in node_order]
        etypes = {el: idt, er: idt, "match_probability": "float"}
        erows = [{el: ids[a], er: ids[b], "match_probability": p} for a, b, p in edges]
    if st.get("no_prob_col"):
        etypes.pop("match_probability")
        for r in erows:
            r.pop("match_probability")
    return nrows, ntypes, erows, etypes, node_col, left, right


def _materialise(api, rows, types, form: str, base: str, k: int):
    """One input table in the requested form: raw data (pandas / list of records / dict of columns), a SplinkDataFrame registered by
    the caller under a fresh name or again under the same name (overwrite=True), or just that table's name."""
    from harness import impl

    df = impl.typed_frame(rows, types)
    if form in ("raw_records", "raw_dict") and not rows:
        form = "raw_pandas"  # an empty list / a dict of empty lists carries no column types
    if form in ("raw_pandas", "reuse"):
        return df
    if form == "raw_records":
        return [dict(r) for r in rows]
    if form == "raw_dict":
        return {c: [r[c] for r in rows] for c in types}
    same = form.endswith("_same")
    name = base if same else f"{base}_{k}"
    sdf = api.register_table(df, name, overwrite=same)
    return sdf if form.startswith("sdf") else name


def _build_linker(api, st: dict, node_order, idt):
    from harness import impl
    from splink import Linker, SettingsCreator

    ids, sds = st["ids"], st["sds"]
    uid, sdc = st.get("uid_col", "unique_id"), st.get("sd_col", "source_dataset")
    names = sorted(set(sds))
    kw = {}
    if uid != "unique_id":
        kw["unique_id_column_name"] = uid
    if sdc != "source_dataset":
        kw["source_dataset_column_name"] = sdc
    link_type = "dedupe_only" if len(names) == 1 else st.get("link_type", "link_and_dedupe")
    settings = SettingsCreator(link_type=link_type, comparisons=[], blocking_rules_to_generate_predictions=[], **kw)
    if len(names) > 1 and st.get("layout") == "concat":
        rows_ = [{uid: ids[i], sdc: sds[i], "v": "x"} for i in node_order]
        return Linker(impl.typed_frame(rows_, {uid: idt, sdc: "str", "v": "str"}), settings, api, input_table_aliases=st.get("alias"))
    frames = []
    for nm in names:
        rows_ = [{"v": "x", uid: ids[i]} for i in node_order if sds[i] == nm]
        frames.append(impl.typed_frame(rows_, {"v": "str", uid: idt}))
    if len(frames) == 1:
        return Linker(frames[0], settings, api, input_table_aliases=st.get("alias"))
    default = all(nm.startswith("__splink__input_table_") for nm in names)  # Splink's own aliases become the source dataset names
    return Linker(frames, settings, api, input_table_aliases=None if default else names)


def _predict_frame(st: dict, edges, idt):
    from harness import impl

    ids, sds = st["ids"], st["sds"]
    uid, sdc = st.get("uid_col", "unique_id"), st.get("sd_col", "source_dataset")
    multi = len(set(sds)) > 1
    rows_, types = [], {}
    for a, b, p in edges:
        r = {}
        if st.get("extra_cols"):
            r["match_weight"] = 1.25
        if multi:
            r[f"{sdc}_l"] = sds[a]
        r[f"{uid}_l"] = ids[a]
        if multi:
            r[f"{sdc}_r"] = sds[b]
        r[f"{uid}_r"] = ids[b]
        if not st.get("no_prob_col"):
            r["match_probability"] = p
        if st.get("extra_cols"):
            r["match_key"] = "0"
        rows_.append(r)
    if st.get("extra_cols"):
        types["match_weight"] = "float"
    if multi:
        types[f"{sdc}_l"] = "str"
    types[f"{uid}_l"] = idt
    if multi:
        types[f"{sdc}_r"] = "str"
    types[f"{uid}_r"] = idt
    if not st.get("no_prob_col"):
        types["match_probability"] = "float"
    if st.get("extra_cols"):
        types["match_key"] = "str"
    return impl.typed_frame(rows_, types)


def run_session(sess: dict) -> dict:
    """All calls of a session on ONE database API object; per call: the clusters read right after it, the iteration trace and, for
    results the caller keeps, the clusters read AGAIN after the last call."""
    from harness import impl

    api = impl.make_api(sess["engine"], threads=sess.get("threads", 2))
    steps = sess["steps"]
    outs, kept = [], []
    linker, prev_args = None, None
    counts = {}
    for pos, st in enumerate(steps):
        try:
            ids = st["ids"]
            n = len(ids)
            idt = _idt(st)
            thr, kind = st.get("thr"), st.get("thr_kind")
            kw = {}
            if thr is not None:
                kw["threshold_match_weight" if kind == "weight" else "threshold_match_probability"] = thr
            form = _tup(st["form"])
            reusable = pos > 0 and prev_args is not None and _same_call_shape(steps[pos - 1], st)
            if st["entry"] == "fn":
                from splink.internals.clustering import cluster_pairwise_predictions_at_threshold

                nrows, ntypes, erows, etypes, node_col, left, right = _fn_tables(st)
                nodes = prev_args[0] if (form[0] == "reuse" and reusable) else _materialise(api, nrows, ntypes, form[0], "user_nodes", st["k"])
                edges_in = prev_args[1] if (form[1] == "reuse" and reusable) else _materialise(api, erows, etypes, form[1], "user_edges", st["k"])
                prev_args = (nodes, edges_in)
                ckw = dict(kw)
                if left is not None:
                    ckw["edge_id_column_name_left"] = left
                if right is not None:
                    ckw["edge_id_column_name_right"] = right
                with impl.capture_log(CC_LOGGER) as msgs:
                    cc = cluster_pairwise_predictions_at_threshold(nodes, edges_in, api, node_col, **ckw)
                    rows = cc.as_record_dict()
                key = {ids[i]: i for i in range(n)}

                def parse(rows_, key=key, node_col=node_col):
                    return sorted((key.get(r.get(node_col), -1), key.get(r.get("cluster_id"), -1)) for r in rows_)
            else:
                sds = st["sds"]
                uid, sdc = st.get("uid_col", "unique_id"), st.get("sd_col", "source_dataset")
                rng = random.Random(st.get("shuffle", 0))
                node_order = list(range(n))
                rng.shuffle(node_order)
                edges = [tuple(e) for e in st["edges"]]
                rng.shuffle(edges)
                if linker is None or pos == 0 or steps[pos - 1].get("epoch") != st.get("epoch"):
                    linker = _build_linker(api, st, node_order, idt)
                    reusable = False
                if form == "reuse" and reusable:
                    df_predict = prev_args
                else:
                    frame = _predict_frame(st, edges, idt)
                    if form == "table_new":
                        df_predict = linker.table_management.register_table(frame, f"user_pred_{st['k']}")
                    elif form == "table_same":
                        df_predict = linker.table_management.register_table(frame, "user_pred", overwrite=True)
                    else:
                        df_predict = linker.table_management.register_table_predict(frame, overwrite=True)
                prev_args = df_predict
                with impl.capture_log(CC_LOGGER) as msgs:
                    cc = linker.clustering.cluster_pairwise_predictions_at_threshold(df_predict, **kw)
                    rows = cc.as_record_dict()
                if len(set(sds)) == 1:
                    key = {str(ids[i]): i for i in range(n)}

                    def parse(rows_, key=key, uid=uid):
                        return sorted((key.get(str(r.get(uid)), -1), key.get(str(r.get("cluster_id")), -1)) for r in rows_)
                else:
                    key = {f"{sds[i]}{impl.SEP}{ids[i]}": i for i in range(n)}

                    def parse(rows_, key=key, uid=uid, sdc=sdc):
                        return sorted((key.get(f"{r.get(sdc)}{impl.SEP}{r.get(uid)}", -1), key.get(str(r.get("cluster_id")), -1)) for r in rows_)
            out = {"rows": parse(rows), "trace": impl.cc_trace(msgs), "rows_end": None, "table": cc.physical_name}
            if st.get("keep", True):
                kept.append((out, cc, parse))
            elif any(k_cc.physical_name == cc.physical_name for _, k_cc, _ in kept):
                # the very table of a result the caller still holds (an identical repeated call is served from the cache): nobody drops that
                counts["drop_skipped_same_table_as_kept_result"] = counts.get("drop_skipped_same_table_as_kept_result", 0) + 1
            else:
                cc.drop_table_from_database_and_remove_from_cache()
            outs.append(out)
        except Exception as e:  # noqa: BLE001
            e.partial = {"failed_step": pos, "steps": outs}
            raise
    pos = len(steps)
    try:
        for out, cc, parse in kept:
            out["rows_end"] = parse(cc.as_record_dict())
    except Exception as e:  # noqa: BLE001
        e.partial = {"failed_step": "re-reading a kept result after the last call", "steps": outs}
        raise
    return {"steps": outs, "counts": counts}


run_session_safe = core.safe(run_session)


def session_verdict(sess: dict, r: dict):
    """(index of the first call whose output violates C05, description) or None.  Decided by the union-find oracle on the real output of
    every call, read right after the call and - for results the caller keeps - once more after the last call."""
    for k, (st, out) in enumerate(zip(sess["steps"], r["steps"])):
        if is_threshold_fragile(st):
            continue
        v = oracle_verdict(st, out["rows"])
        if v is not None:
            return k, v
        if out.get("rows_end") is not None:
            v = oracle_verdict(st, out["rows_end"])
            if v is not None:
                return k, "result kept by the caller changed under a later call; " + v
    return None


def session_fails(sess: dict):
    """None if every call of the session satisfies C05 on the real code, else (call index | None, description)."""
    r = run_session_safe(sess)
    if "__error__" in r:
        k = (r.get("partial") or {}).get("failed_step")
        return (k if isinstance(k, int) else None), f"real code raised {r['__error__']}"
    return session_verdict(sess, r)


def shrink_session(sess: dict, reused: bool) -> dict:
    """Greedy: drop calls, then edges of the remaining calls (bounded); the failure must stay in the same class (`reused`)."""

    def still(cand):
        f = session_fails(cand)
        return f is not None and (f[0] is None or input_names_reused(cand, f[0]) == reused)

    cur = dict(sess)
    budget = 40
    changed = True
    while changed and budget > 0:
        changed = False
        for k in range(len(cur["steps"]) - 1, -1, -1):
            if len(cur["steps"]) <= 1 or budget <= 0:
                break
            cand = dict(cur, steps=cur["steps"][:k] + cur["steps"][k + 1 :])
            budget -= 1
            if still(cand):
                cur, changed = cand, True
    for k in range(len(cur["steps"])):
        for e in range(len(cur["steps"][k]["edges"]) - 1, -1, -1):
            if budget <= 0:
                break
            st = dict(cur["steps"][k])
            st["edges"] = st["edges"][:e] + st["edges"][e + 1 :]
            cand = dict(cur, steps=cur["steps"][:k] + [st] + cur["steps"][k + 1 :])
            budget -= 1
            if still(cand):
                cur = cand
    return cur


def small_graph(rng: random.Random, n: int):
    fam = rng.choice(["gnp", "gnp", "forest", "path", "star", "cliques", "cycle"])
    return graphs.family(rng, fam, n)


def noisy_edges(rng: random.Random, n: int, pairs, probs: str):
    edges = with_probs(rng, pairs, probs)
    extra = []
    for a, b, p in edges:
        r = rng.random()
        if r < 0.08:
            extra.append((a, b, p))
        elif r < 0.16:
            extra.append((b, a, p))
    if n and rng.random() < 0.2:
        v = rng.randrange(n)
        extra.append((v, v, 1.0))
    return edges + extra


def gen_session(rng: random.Random, engine: str, entry: str) -> dict:
    """1-4 calls of cluster_pairwise_predictions_at_threshold on one database API object (standalone function or linker method):
    same or different data / thresholds / column names from call to call, every accepted form of the input tables, results kept or
    dropped in between.  Small graphs (most converge within 1-3 iterations, so consecutive calls run the same statements)."""
    nsteps = rng.choice([1, 2, 2, 2, 3, 3, 4])
    same_thr = rng.random() < 0.65
    same_cols = rng.random() < 0.7
    same_form = rng.random() < 0.7
    same_nodes = rng.random() < 0.5
    idtype = rng.choice(["int", "int", "str", "strmixed"])
    probs = rng.choice(["grid", "rand", "all1"])
    big = rng.random() < 0.15
    steps: list[dict] = []
    epoch = 0
    for k in range(nsteps):
        prev = steps[-1] if steps else None
        n = rng.randint(2, 20) if big else rng.randint(2, 8)
        if entry == "fn" and rng.random() < 0.04:
            n = rng.choice([0, 1])  # an empty nodes table / a single record
        new_epoch = entry == "linker" and prev is not None and rng.random() < 0.25
        epoch += 1 if new_epoch else 0
        share_nodes = prev is not None and (not new_epoch) and (entry == "linker" or same_nodes)
        repeat_data = prev is not None and not new_epoch and rng.random() < 0.15
        if repeat_data:
            st = {kk: prev[kk] for kk in prev}
            st = dict(st)
        elif share_nodes:
            st = dict(prev)
            st["edges"] = noisy_edges(rng, len(prev["ids"]), small_graph(rng, len(prev["ids"])), probs)
            st["shuffle"] = rng.randrange(1 << 30)
        else:
            st = decorate(rng, n, small_graph(rng, n), engine=engine, entry=entry, order=rng.choice(["random", "identity", "reversed"]),
                          idtype=idtype if rng.random() < 0.85 else None, probs=probs, thr=None, tag="session")
            if entry == "linker":
                multi = len(set(st["sds"])) > 1
                present = sorted(set(st["sds"]))
                amode = rng.choice(["names", "names", "default"])
                if multi and st.get("layout") != "concat":
                    # source dataset names = the aliases of the input tables: unique per Linker, or Splink's own default aliases
                    ren = {nm: (f"__splink__input_table_{j}" if amode == "default" else f"{nm}{epoch}") for j, nm in enumerate(present)}
                    st["sds"] = [ren[x] for x in st["sds"]]
                    st["alias"] = None
                else:
                    st["alias"] = None if amode == "default" else f"inp_{epoch}"
                st["uid_col"] = rng.choice(["unique_id", "unique_id", "id", "Rec_ID"])
                st["sd_col"] = rng.choice(["source_dataset", "source_dataset", "src"]) if multi else "source_dataset"
        st["k"], st["epoch"] = k, epoch
        st["engine"], st["entry"] = engine, entry
        # threshold
        if prev is not None and same_thr:
            st["thr"], st["thr_kind"] = prev.get("thr"), prev.get("thr_kind")
        else:
            t, kind = pick_threshold(rng, st["edges"])
            st["thr"], st["thr_kind"] = t, kind
        if st.get("thr_kind") is None:
            st.pop("thr_kind", None)
        # shape of the tables
        if prev is None or not (same_cols or repeat_data):
            st["cols"] = rng.choice(FN_COLS)
            st["extra_cols"] = rng.random() < 0.3
        else:
            st["cols"], st["extra_cols"] = prev["cols"], prev["extra_cols"]
        st["no_prob_col"] = st.get("thr") is None and (prev["no_prob_col"] if repeat_data else rng.random() < 0.25)
        if repeat_data and not st["no_prob_col"] and prev["no_prob_col"]:
            st["no_prob_col"] = False
            repeat_data = False  # a threshold needs the probability column: other tables than the previous call's
        # form of the inputs
        if entry == "fn":
            if repeat_data and rng.random() < 0.7:
                form = ("reuse", "reuse")
            elif prev is not None and same_form and prev["form"][0] != "reuse":
                form = prev["form"]
            else:
                f = rng.choice(FN_FORM_WEIGHTED)
                form = (f, f if rng.random() < 0.75 else rng.choice(FN_FORMS[:-1]))
        else:
            if repeat_data and rng.random() < 0.7:
                form = "reuse"
            elif prev is not None and same_form and prev["form"] != "reuse":
                form = prev["form"]
            else:
                form = rng.choice(PREDICT_FORMS[:-1])
        st["form"] = form
        st["keep"] = rng.random() < 0.7
        steps.append(st)
    return {"session": True, "engine": engine, "entry": entry, "steps": steps, "tag": "session", "n": max(len(s["ids"]) for s in steps),
            "ids": steps[0]["ids"], "edges": steps[0]["edges"]}


def gen_cases(ctx: core.Ctx) -> list[dict]:
    rng = ctx.rng
    cases = []
    engines = ["duckdb", "sqlite"]

    def eng():
        return rng.choice(engines)

    # (1) exhaustive: every labelled graph on <= 4 nodes, every id permutation, standalone function
    for n in range(0 if False else 1, 5):
        for pairs in graphs.all_graphs(n):
            for perm in itertools.permutations(range(n)):
                ids = [perm[i] * 3 + 1 for i in range(n)]
                cases.append({"n": n, "ids": ids, "edges": [(a, b, 1.0) for a, b in pairs], "engine": "sqlite" if (len(cases) % 2) else "duckdb",
                              "entry": "fn", "shuffle": len(cases), "tag": f"exh{n}", "order": "perm", "idtype": "int", "thr": None})
    # (2) every labelled graph on 5 nodes (6 in thorough): batched as disjoint unions + a sample one by one
    big = 6 if ctx.thorough else 5
    allg = list(graphs.all_graphs(big))
    rng.shuffle(allg)
    per = 24
    for k in range(0, len(allg), per):
        chunk = allg[k : k + per]
        n = big * len(chunk)
        pairs = [(a + big * gi, b + big * gi) for gi, g in enumerate(chunk) for a, b in g]
        cases.append(decorate(rng, n, pairs, engine=eng(), entry="fn", order="random", probs="all1", thr=None, tag=f"union{big}"))
    for g in allg[: ctx.budget(120, 1500)]:
        cases.append(decorate(rng, big, g, engine=eng(), entry=rng.choice(["fn", "linker"]), tag=f"single{big}"))
    # (2b) fine-grained thresholds: probabilities that differ from the 7th decimal on, threshold exactly on one of them or between two
    # (a threshold rendered with fewer digits than it has moves edges across it); at most 9 decimals: longer decimal literals are
    # read inexactly by DuckDB (DECIMAL -> DOUBLE) and SQLite, an engine matter excluded elsewhere
    for _ in range(ctx.budget(60, 400)):
        n = rng.randint(3, 10)
        pairs = graphs.family(rng, rng.choice(["path", "cycle", "gnp", "star"]), n)
        base = rng.choice([0.95, 0.5, 0.999999, 0.1234])
        grid = [round(base + k * 1e-7, 9) for k in range(-4, 5)]
        c = decorate(rng, n, pairs, engine=eng(), entry=rng.choice(["fn", "fn", "linker"]), thr=None, tag="fine_thr")
        c["edges"] = [(a, b, min(1.0, rng.choice(grid))) for a, b, _ in c["edges"]]
        ps = sorted({p for _, _, p in c["edges"]})
        if not ps:
            continue
        t = rng.choice(ps) if rng.random() < 0.6 else round(rng.choice(ps) + rng.choice([-5e-8, 5e-8]), 9)
        c["thr"], c["thr_kind"] = min(1.0, t), "prob"
        cases.append(c)
    # (3) structured / adversarial families
    nmax = 300 if ctx.thorough else 40
    fams = ctx.budget(140, 1200)
    for _ in range(fams):
        fam = rng.choice(["path", "path", "cycle", "star", "cliques", "caterpillar", "gnp", "gnp", "forest", "grid"])
        n = rng.randint(2, nmax if fam in ("path", "cycle") else min(nmax, 60))
        pairs = graphs.family(rng, fam, n)
        order = rng.choice(["identity", "reversed", "bitrev", "zigzag", "random", "random"])
        cases.append(decorate(rng, n, pairs, engine=eng(), entry=rng.choice(["fn", "fn", "linker"]), order=order, tag=fam))
    # (4) sessions: 1-4 calls on ONE database API object (see gen_session)
    for _ in range(ctx.budget(220, 1200)):
        cases.append(gen_session(rng, eng(), rng.choice(["fn", "fn", "linker"])))
    if ctx.thorough:
        for order in ["identity", "bitrev", "zigzag"]:
            n = 1200
            cases.append(decorate(rng, n, graphs.family(rng, "path", n), engine="sqlite", entry="fn", order=order, idtype="int", probs="all1", thr=None, tag="longpath"))
        for _ in range(40):
            n = rng.randint(2, 12)
            cases.append(decorate(rng, n, graphs.family(rng, "gnp", n), engine="spark", entry=rng.choice(["fn", "linker"]), tag="spark"))
    return cases


# --------------------------------------------------------------------------- comparison
def compare(ctx: core.Ctx, cases: list[dict], drv: core.Driver, label="corr"):
    """Run impl + model on all cases; returns list of (case, problem, concrete?)."""
    sessions = [c for c in cases if c.get("session")]
    cases = [c for c in cases if not c.get("session")]
    reqs, orders = [], []
    for c in cases:
        r, o = model_request(c)
        reqs.append(r)
        orders.append(o)
    spark = [i for i, c in enumerate(cases) if c["engine"] == "spark"]
    par = [i for i, c in enumerate(cases) if c["engine"] != "spark"]
    res = [None] * len(cases)
    for i, r in zip(par, core.pmap(run_impl_safe, [cases[i] for i in par], chunksize=4)):
        res[i] = r
    for i, r in zip(spark, core.fresh_process_map(run_impl_safe, [cases[i] for i in spark])):
        res[i] = r
    mres = drv.pbatch(reqs)
    problems = []
    sql_items = []  # small standalone cases on which the regenerated SQL is evaluated by Rel.eval (translation validation)
    for c, order, r, m in zip(cases, orders, res, mres):
        n = len(c["ids"])
        comps = oracle_clusters(c)
        ncomp = len(set(comps.values()))
        nontrivial = any(list(comps.values()).count(v) >= 3 for v in set(comps.values())) and ncomp >= 1
        ctx.case({k: c[k] for k in ("ids", "edges", "thr", "thr_kind", "entry", "engine", "sds") if k in c}, nontrivial,
                 sample={"case": {k: c[k] for k in c if k != "shuffle"} if n <= 8 else {"tag": c["tag"], "n": n, "n_edges": len(c["edges"])},
                         "impl_rows": r.get("rows") if n <= 8 and isinstance(r, dict) else None, "impl_trace": r.get("trace") if isinstance(r, dict) else None})
        ctx.count("family", c["tag"])
        ctx.count("engine", c["engine"])
        ctx.count("entry", c["entry"])
        ctx.count("n_nodes", "0-4" if n <= 4 else "5-8" if n <= 8 else "9-40" if n <= 40 else "41-300" if n <= 300 else ">300")
        ctx.count("threshold", "none" if c.get("thr") is None else c.get("thr_kind"))
        ctx.count("idtype", c.get("idtype")); ctx.count("linker_input_layout", c.get("layout", "n/a"))
        if c["engine"] == "spark" and core.timed_out(r):
            ctx.count("excluded", "spark: no answer within the time limit / JVM heap exhausted")
            continue
        if core.impl_error(r):
            ctx.count("impl_error", r["__error__"])
            problems.append((c, f"real code raised {r['__error__']}: {r['text'][:300]}", True, r))
            continue
        if "error" in m and ctx.lean.ok:
            raise core.HarnessError(f"model driver error: {m['error']}")
        ctx.count("iterations", len(r["trace"]) if len(r["trace"]) < 6 else "6-20" if len(r["trace"]) <= 20 else ">20")
        fragile = is_threshold_fragile(c)
        verdict = None if fragile else oracle_verdict(c, r["rows"])
        if "error" in m:
            # translated part of the model not regenerable from the current source (a broken obligation already): oracle only
            ctx.count("model_unavailable", m["error"][:80])
            if verdict is not None:
                problems.append((c, verdict, True, r))
            continue
        # model output is in rank space
        mrows = sorted((order[a], order[b]) for a, b in m["clusters"])
        if verdict is not None:
            problems.append((c, verdict, True, r))
            continue
        if fragile:
            ctx.count("excluded", "weight threshold within 1e-12 of an edge probability / SQLite misreads the threshold literal")
            continue
        sql_items.append((c, order, r, oracle_threshold(c)))
        if mrows != r["rows"]:
            problems.append((c, "cluster table differs from Lean model CC.cluster (real output still satisfies the property)", False, r))
            continue
        if m["trace"] != r["trace"]:
            problems.append((c, f"per-iteration needs_updating counts differ from Lean model CC.trace: impl {r['trace'][:12]} model {m['trace'][:12]}", False, r))
            continue
        ctx.traces_validated += 1
    from harness.props import c05_sql

    problems += c05_sql.validate(ctx, sql_items, drv)
    return problems + compare_sessions(ctx, sessions, drv)


def compare_sessions(ctx: core.Ctx, sessions: list[dict], drv: core.Driver):
    """Sessions: every call is judged by the oracle (right after the call; kept results once more after the last call) and compared
    with the Lean model like a single case.  Returns (session, problem, concrete?, impl result) like compare()."""
    if not sessions:
        return []
    reqs, orders = [], []
    for s in sessions:
        for st in s["steps"]:
            r, o = model_request(st)
            reqs.append(r)
            orders.append(o)
    res = core.pmap(run_session_safe, sessions, chunksize=2)
    mres = drv.pbatch(reqs)
    problems = []
    pos = 0
    for s, r in zip(sessions, res):
        steps = s["steps"]
        ms, os_ = mres[pos : pos + len(steps)], orders[pos : pos + len(steps)]
        pos += len(steps)
        ctx.count("family", "session")
        ctx.count("session_calls", len(steps))
        ctx.count("session_entry", s["entry"])
        ctx.count("session_engine", s["engine"])
        if len(steps) > 1:
            ctx.count("session_thresholds", "same in every call" if len({(st.get("thr"), st.get("thr_kind")) for st in steps}) == 1 else "differ")
            ctx.count("session_column_names", "same in every call" if len({(_tup(st["cols"]) if s["entry"] == "fn" else (st.get("uid_col"), st.get("sd_col"))) for st in steps}) == 1 else "differ")
            ctx.count("session_linkers_on_the_api", len({st["epoch"] for st in steps}) if s["entry"] == "linker" else "n/a")
        for k, st in enumerate(steps):
            n = len(st["ids"])
            comps = oracle_clusters(st)
            nontrivial = any(list(comps.values()).count(v) >= 3 for v in set(comps.values()))
            ctx.case({"session_call": k, "of": [(_step_content(x), x.get("thr"), _tup(x["form"])) for x in steps[: k + 1]], "entry": s["entry"], "engine": s["engine"]},
                     nontrivial and k > 0, sample=None)
            ctx.count("engine", s["engine"])
            ctx.count("entry", s["entry"])
            ctx.count("n_nodes", "0-4" if n <= 4 else "5-8" if n <= 8 else "9-40")
            if n == 0:
                ctx.count("session_empty_nodes_table", True)
            ctx.count("threshold", "none" if st.get("thr") is None else st.get("thr_kind"))
            form = _tup(st["form"])
            if s["entry"] == "fn":
                ctx.count("session_fn_nodes_form", form[0])
                ctx.count("session_fn_edges_form", form[1])
                ctx.count("session_fn_columns", "/".join(str(x) for x in st["cols"]))
            else:
                ctx.count("session_linker_predict_form", form)
                ctx.count("session_linker_unique_id_column", st.get("uid_col"))
                ctx.count("session_linker_source_dataset_column", st.get("sd_col") if len(set(st["sds"])) > 1 else "n/a (one dataset)")
                ctx.count("session_linker_input_aliases", "default (__splink__input_table_<i>)" if (st.get("alias") is None and (len(set(st["sds"])) == 1 or st.get("layout") == "concat" or st["sds"][0].startswith("__splink__"))) else "explicit")
            ctx.count("session_result", "kept" if st.get("keep", True) else "dropped")
            ctx.count("session_extra_columns", bool(st.get("extra_cols")))
            ctx.count("session_edges_without_match_probability_column", bool(st.get("no_prob_col")))
            if k > 0:
                ctx.count("session_data_vs_previous_call", "same" if _step_content(steps[k - 1]) == _step_content(st) else "same nodes, other edges" if list(steps[k - 1]["ids"]) == list(st["ids"]) and steps[k - 1].get("sds") == st.get("sds") else "other nodes and edges")
                ctx.count("session_input_names_reused_with_other_content", input_names_reused(s, k))
                if (not input_names_reused(s, k) and _step_content(steps[k - 1]) != _step_content(st) and steps[k - 1].get("keep", True)
                        and (steps[k - 1].get("thr"), steps[k - 1].get("thr_kind")) == (st.get("thr"), st.get("thr_kind"))):
                    ctx.count("session_other_data_same_threshold_previous_result_kept", "raw inputs" if None in step_table_names(steps, k) else "fresh table names")
        if len(ctx.samples) < 6 and len(steps) > 1 and sum(1 for x in ctx.samples if isinstance(x, dict) and "session" in x) < 2:
            ctx.samples.append({"session": {"engine": s["engine"], "entry": s["entry"], "calls": [{kk: st[kk] for kk in st if kk not in ("shuffle", "engine", "entry", "tag", "n", "order")} for st in steps]},
                                "impl": r.get("steps") if isinstance(r, dict) else None})
        if core.impl_error(r):
            ctx.count("impl_error", r["__error__"])
            problems.append((s, f"call {(r.get('partial') or {}).get('failed_step')}: real code raised {r['__error__']}: {r['text'][:300]}", True, r))
            continue
        for kk, vv in (r.get("counts") or {}).items():
            ctx.count("session_" + kk, True, vv)
        bad = session_verdict(s, r)
        if bad is not None:
            problems.append((s, f"call {bad[0] + 1} of {len(steps)}: {bad[1]}", True, r))
            continue
        for k, (st, m, order) in enumerate(zip(steps, ms, os_)):
            out = r["steps"][k]
            if "error" in m and ctx.lean.ok:
                raise core.HarnessError(f"model driver error: {m['error']}")
            ctx.count("iterations", len(out["trace"]) if len(out["trace"]) < 6 else "6-20" if len(out["trace"]) <= 20 else ">20")
            if "error" in m:
                ctx.count("model_unavailable", m["error"][:80])
                continue
            if is_threshold_fragile(st):
                ctx.count("excluded", "weight threshold within 1e-12 of an edge probability / SQLite misreads the threshold literal")
                continue
            mrows = sorted((order[a], order[b]) for a, b in m["clusters"])
            if mrows != out["rows"]:
                problems.append((s, f"call {k + 1}: cluster table differs from Lean model CC.cluster (real output still satisfies the property)", False, r))
                break
            if m["trace"] != out["trace"]:
                problems.append((s, f"call {k + 1}: per-iteration needs_updating counts differ from Lean model CC.trace: impl {out['trace'][:12]} model {m['trace'][:12]}", False, r))
                break
            ctx.traces_validated += 1
    return problems


def shrink(case: dict, still_fails) -> dict:
    """Greedy delta-debugging over edges then nodes (bounded)."""
    cur = dict(case)
    budget = 80
    changed = True
    while changed and budget > 0:
        changed = False
        for k in range(len(cur["edges"]) - 1, -1, -1):
            if budget <= 0:
                break
            cand = dict(cur)
            cand["edges"] = cur["edges"][:k] + cur["edges"][k + 1 :]
            budget -= 1
            if still_fails(cand):
                cur, changed = cand, True
        used = {a for a, _, _ in cur["edges"]} | {b for _, b, _ in cur["edges"]}
        for v in range(len(cur["ids"]) - 1, -1, -1):
            if v in used or budget <= 0 or len(cur["ids"]) <= 1:
                continue
            cand = dict(cur)
            cand["ids"] = cur["ids"][:v] + cur["ids"][v + 1 :]
            if "sds" in cur:
                cand["sds"] = cur["sds"][:v] + cur["sds"][v + 1 :]
            cand["edges"] = [(a - (a > v), b - (b > v), p) for a, b, p in cur["edges"]]
            cand["n"] = len(cand["ids"])
            budget -= 1
            if still_fails(cand):
                cur, changed = cand, True
                break
    return cur


def impl_fails_property(case: dict) -> bool:
    r = run_impl_safe(case)
    if "__error__" in r:
        return True
    return oracle_verdict(case, r["rows"]) is not None


# --------------------------------------------------------------------------- entry
def report_session(ctx: core.Ctx, sess: dict, w: str, r, seen_keys: set):
    """One VIOLATION per (entry, does the failing call read tables re-registered under the names of an earlier call?)."""
    f = session_verdict(sess, r) if isinstance(r, dict) and "steps" in r and "__error__" not in r else None
    k = f[0] if f else (r.get("partial") or {}).get("failed_step") if isinstance(r, dict) else None
    reused = input_names_reused(sess, k) if isinstance(k, int) else False
    key = ("session", sess["entry"], reused)
    if key in seen_keys or len(seen_keys) >= 5:
        return
    seen_keys.add(key)
    small = shrink_session(sess, reused)
    rr = run_session_safe(small)
    if "__error__" in rr:
        fk, what = (rr.get("partial") or {}).get("failed_step"), f"real code raised {rr['__error__']}: {rr.get('text', '')[:200]}"
    else:
        ff = session_verdict(small, rr)
        fk, what = (ff[0], ff[1]) if ff else (None, w)
    failure = what.split(":")[0]
    how = ("the failing call reads tables registered again under the names an earlier call used" if reused
           else "the failing call is given raw data or tables under fresh names")
    calls = [{kk: st[kk] for kk in st if kk not in ("engine", "entry", "tag", "n", "order")} for st in small["steps"]]
    ctx.violation(
        f"real output violates C05 in a sequence of calls on one database API ({sess['entry']}; {how}): {failure}",
        {"case": small,
         "calls": calls, "failing_call_index": fk, "observed": rr,
         "expected_clusters_per_call": [oracle_clusters(st) for st in small["steps"]],
         "input_table_names_per_call": [step_table_names(small["steps"], i) for i in range(len(small["steps"]))],
         "detail": what, "original_calls": len(sess["steps"])},
        kind="concrete",
        match_info={"entry": sess["entry"], "failure": failure, "engine": sess["engine"], "sqlite_compound_select_limit": False,
                    "session": True, "input_names_reused": reused},
    )


def run(ctx: core.Ctx):
    ctx.rule = (
        "cases = every labelled graph on <=4 nodes under every id permutation (exhaustive), every labelled graph on 5 nodes "
        "(6 in thorough) batched as disjoint unions plus a sample singly, structured families (paths/cycles with identity, reversed, "
        "bit-reversal, zig-zag and random id orders; stars; cliques joined by bridges; caterpillars; G(n,p); forests; grids) with duplicate/"
        "reversed edges and self loops, int/str/mixed-width-str/composite ids, thresholds none / equal to an edge probability / random / "
        "match weight / boundary values (0, -0.0, 1, outside [0,1], exponent-form literal, weights +-60); entry = standalone function or linker "
        "method (1-3 tables, overlapping ids); engines duckdb+sqlite (+spark thorough); sessions = 1-4 calls on ONE database API object "
        "(standalone function: nodes/edges as pandas / list of records / dict of columns / SplinkDataFrame / table name, registered under "
        "fresh names or again under the same name, given / defaulted edge column names, further columns, no match_probability column; linker "
        "method: predictions via register_table_predict(overwrite=True) / register_table under fresh or repeated names, 1-3 Linkers on the "
        "API, non-default unique id / source dataset column names, default / explicit input aliases; same or different data, thresholds, "
        "column names from call to call; results kept - and read again after the last call - or dropped). "
        "non-trivial = the thresholded graph has a component with >= 3 nodes; distinct = hash of (ids, edges, threshold, entry, engine)."
    )
    ctx.assumptions = [
        "edge endpoints are node ids, node ids distinct and non-NULL (property's hypotheses)",
        "node ids map to ranks order-isomorphically (ASCII strings; engine collation = code-point order)",
        "weight thresholds whose probability lies within 1e-12 of an edge probability are excluded (floating point)",
    ]
    from harness.translate import tarith

    errs = tarith.write({"threshold_args_to_match_prob", "bayes_factor_to_prob", "match_weight_to_bayes_factor"})  # Generated/Arith.lean: the model's threshold conversion is the translated threshold_args_to_match_prob
    from harness.props import c05_sql

    sql_errs = c05_sql.prepare()  # Generated/CCSql.lean: the SQL solve_connected_components emits now, as Rel terms (T-sql); Properties/C05Sql.lean is re-checked against it
    ctx.lean = core.lean_check(PROP, ctx.thorough)
    if errs or sql_errs:
        ctx.lean.ok = False
        ctx.lean.problems += ["T-arith: " + e for e in errs] + ["T-sql: " + e for e in sql_errs]
    drv = core.Driver()
    if ctx.replay:
        import json

        body = json.loads(open(ctx.replay).read())
        case = body["replay"]["case"]
        case["edges"] = [tuple(e) for e in case["edges"]]
        for st in case.get("steps", []):  # a session: JSON turned the tuples into lists
            st["edges"] = [tuple(e) for e in st["edges"]]
            st["form"] = _tup(st["form"])
            st["cols"] = _tup(st["cols"])
        cases = [case]
    else:
        corpus = graphs.load_corpus(PROP)
        cases = corpus + gen_cases(ctx)
    problems = compare(ctx, cases, drv)
    ctx.exhaustive = True  # the <=4-node / 5-node sub-domain is enumerated completely
    lean_broken = not ctx.lean.ok
    if lean_broken or any(not conc for _, _, conc, _ in problems):
        # failing-input search: widen with fresh adversarial cases, judged by the oracle on the real code
        ctx.notes.append("proof or correspondence broke: ran the widened failing-input search")
        extra_ctx_rng = random.Random(ctx.seed + 7919)
        save, ctx.rng = ctx.rng, extra_ctx_rng
        ctx.thorough, was = True, ctx.thorough
        try:
            more = gen_cases(ctx)[: 1500]
        finally:
            ctx.thorough = was
            ctx.rng = save
        more = [c for c in more if c["engine"] != "spark" and len(c["ids"]) <= 150]
        problems += compare(ctx, more, drv, label="search")
    concrete = [(c, w, r) for c, w, conc, r in problems if conc]
    broken = [(c, w, r) for c, w, conc, r in problems if not conc]
    seen_keys = set()
    for c, w, r in concrete:
        if c.get("session"):
            report_session(ctx, c, w, r, seen_keys)
            continue
        # SQLite refuses a compound SELECT of more than 500 terms; the final UNION ALL has one term per iteration (finding K12)
        limit = isinstance(r, dict) and "too many terms in compound SELECT" in r.get("text", "")
        key = (c["entry"], w.split(":")[0], c["engine"] if limit else None, limit)
        if key in seen_keys or len(seen_keys) >= 5:
            continue
        seen_keys.add(key)
        small = shrink(c, impl_fails_property) if len(c["ids"]) <= 120 else c
        rr = run_impl_safe(small)
        what = oracle_verdict(small, rr["rows"]) if "rows" in rr else f"real code raised {rr.get('__error__')}: {rr.get('text', '')[:200]}"
        limit = "too many terms in compound SELECT" in rr.get("text", "") if isinstance(rr, dict) else False
        ctx.violation(
            "real output violates C05: " + (what or w).split(":")[0] + (" [SQLite compound SELECT limit]" if limit else ""),
            {"case": small if len(small["ids"]) <= 300 else {"tag": small["tag"], "n": len(small["ids"]), "order": small.get("order"), "engine": small["engine"]},
             "observed": rr if len(small["ids"]) <= 40 else {"trace": rr.get("trace"), "error": rr.get("text", "")[-300:] if isinstance(rr, dict) else None},
             "expected_clusters": oracle_clusters(small) if len(small["ids"]) <= 40 else None,
             "detail": what or w, "original_case_size": len(c["ids"])},
            kind="concrete",
            match_info={"entry": small["entry"], "failure": (what or w).split(":")[0], "engine": small["engine"], "sqlite_compound_select_limit": limit,
                        "empty_edge_table_as_pandas_frame": not small["edges"] and "CANNOT_INFER_EMPTY_SCHEMA" in (what or w)},
        )
    if not ctx.violations:  # no NEW concrete violation (none at all, or only ones a registered known finding describes)
        if broken:
            c, w, r = broken[0]
            ctx.violation(
                "correspondence CC model <-> solve_connected_components no longer checks",
                {"correspondence": "harness/props/c05.py compare(): " + w, "case": c if len(c["ids"]) <= 40 else {"tag": c["tag"], "n": len(c["ids"])},
                 "disagreeing_cases": len(broken), "searched_cases": ctx.evaluations, "lean": ctx.lean.as_dict()},
                kind="unproved",
            )
        elif lean_broken:
            ctx.violation(
                "Lean obligations for C05 no longer check",
                {"theorems": ctx.lean.as_dict()["undischarged"], "problems": ctx.lean.problems, "build_log_tail": ctx.lean.build_log[-1500:],
                 "searched_cases": ctx.evaluations},
                kind="unproved",
            )
