"""C02 — scores follow the Fellegi-Sunter formula with the model's parameters.

Lean: Model/Score.lean mirrors the CASE statement for gamma, the Bayes-factor and TF-adjustment CASEs,
the product with the prior, log2 / match probability and the threshold; Properties/C02.lean proves
first-true level selection, TF divisor = max, the additive formula over the reals, product/sum
decomposition and threshold exactness.
Tie: real predict() (all retained columns) vs the compiled model at Float on generated data x models
(guards and term frequencies computed by the harness itself); an independent closed-form oracle
(log2 sum) decides the property on the real output.
"""
from __future__ import annotations

import json
import math
import random

from harness import core

PROP = "C02"
STR_DOM = ["ann", "anne", "bob", "bobb", "cy", "dee"]
INT_DOM = [0, 1, 2, 5]


def lev(a: str, b: str) -> int:
    if a == b:
        return 0
    prev = list(range(len(b) + 1))
    for i, ca in enumerate(a, 1):
        cur = [i]
        for j, cb in enumerate(b, 1):
            cur.append(min(prev[j] + 1, cur[j - 1] + 1, prev[j - 1] + (ca != cb)))
        prev = cur
    return prev[-1]


# --------------------------------------------------------------------------- case generation
def gen_probs(rng, k, allow_zero_u=False):
    xs = [rng.uniform(0.02, 1.0) for _ in range(k)]
    s = sum(xs)
    out = [round(x / s, 6) or 0.000001 for x in xs]
    return out


def gen_comparison(rng: random.Random, col: str, engine: str):
    kind = {"a": rng.choice(["exact", "lev", "lev2"]), "b": rng.choice(["exact", "lev"]), "c": rng.choice(["num", "numexact"])}[col]
    has_null = rng.random() < 0.85
    levels = []
    if has_null:
        levels.append({"kind": "null"})
    if kind in ("exact", "lev", "lev2", "numexact", "num"):
        levels.append({"kind": "eq"})
    if kind == "lev":
        levels.append({"kind": "lev", "k": 1})
    if kind == "lev2":
        levels.append({"kind": "lev", "k": 1})
        levels.append({"kind": "lev", "k": 2})
    if kind == "num":
        levels.append({"kind": "absdiff", "k": 1})
    levels.append({"kind": "else"})
    nn = [l for l in levels if l["kind"] != "null"]
    ms, us = gen_probs(rng, len(nn)), gen_probs(rng, len(nn))
    for l, m, u in zip(nn, ms, us):
        l["m"], l["u"] = m, u
    tf = col in ("a", "b") and rng.random() < 0.6
    if tf:
        for l in nn:
            if l["kind"] == "eq" or (l["kind"] == "lev" and rng.random() < 0.6):
                l["tf"] = {"weight": rng.choice([0.0, 0.3, 1.0, 1.0, 0.5]), "minU": rng.choice([0.0, 0.0, 0.01, 0.2])}
                if l["kind"] == "lev" and rng.random() < 0.25:
                    l["tf"]["disable_detection"] = True
    if rng.random() < 0.12:
        # infinite Bayes factor: u = 0 on a level that carries no TF adjustment and is not the exact-match level a TF level
        # takes its u from ((0/x)^w * Infinity is undefined - outside the property's quantifier)
        cand = [l for l in nn if "tf" not in l and not (tf and l["kind"] == "eq")]
        if cand and engine != "sqlite":  # known finding K6: SQLite cannot represent an infinite Bayes factor (corpus case keeps it visible)
            rng.choice(cand)["u"] = 0.0
    return {"col": col, "levels": levels}


def gen_case(rng: random.Random, engine=None):
    engine = engine or rng.choice(["duckdb", "duckdb", "sqlite"])
    n = rng.randint(2, 9)
    null_rate = rng.choice([0.0, 0.15, 0.35])
    rows = []
    for i in range(n):
        rows.append({
            "unique_id": i + 1,
            "a": None if rng.random() < null_rate else rng.choice(STR_DOM),
            "b": None if rng.random() < null_rate else rng.choice(STR_DOM[:4]),
            "c": None if rng.random() < null_rate else rng.choice(INT_DOM),
        })
    cols = rng.sample(["a", "b", "c"], rng.randint(1, 3))
    if rng.random() < 0.15:
        cols.append(rng.choice(["a", "b"]))  # 4 comparisons, one column used twice (different output names)
    comps = [gen_comparison(rng, c, engine) for c in cols]
    prior = rng.choice([0.0001, 0.01, 0.3, 0.5, 0.9, round(rng.uniform(0.001, 0.999), 4)])
    case = {"engine": engine, "rows": rows, "comparisons": comps, "prior": prior, "thr": None, "shuffle": rng.randrange(1 << 30), "tag": "random",
            "construct": rng.choice(["dict", "dict", "creator"])}
    # registered TF lookup for a TF column, possibly with missing values
    tfcols = sorted({c["col"] for c in comps if any("tf" in l for l in c["levels"])})
    if tfcols and rng.random() < 0.35:
        col = rng.choice(tfcols)
        dom = STR_DOM if col == "a" else STR_DOM[:4]
        vals = [v for v in dom if rng.random() < 0.7]
        case["tf_lookup"] = {col: {v: round(rng.uniform(0.01, 0.6), 4) for v in vals}}
    return case


# --------------------------------------------------------------------------- settings construction
def level_sql(col, l):
    cl, cr = f'"{col}_l"', f'"{col}_r"'
    k = l["kind"]
    if k == "null":
        return f"{cl} IS NULL OR {cr} IS NULL"
    if k == "eq":
        return f"{cl} = {cr}"
    if k == "lev":
        return f"levenshtein({cl}, {cr}) <= {l['k']}"
    if k == "absdiff":
        return f"abs({cl} - {cr}) <= {l['k']}"
    return "ELSE"


def settings_dict(case):
    comps = []
    for ci, c in enumerate(case["comparisons"]):
        lv = []
        for l in c["levels"]:
            d = {"sql_condition": level_sql(c["col"], l), "label_for_charts": l["kind"] + str(l.get("k", ""))}
            if l["kind"] == "null":
                d["is_null_level"] = True
            else:
                d["m_probability"], d["u_probability"] = l["m"], l["u"]
            if "tf" in l:
                d["tf_adjustment_column"] = c["col"]
                d["tf_adjustment_weight"] = l["tf"]["weight"]
                d["tf_minimum_u_value"] = l["tf"]["minU"]
                if l["tf"].get("disable_detection"):
                    d["disable_tf_exact_match_detection"] = True
            lv.append(d)
        comps.append({"output_column_name": f"{c['col']}{ci}", "comparison_levels": lv})
    return {
        "link_type": "dedupe_only", "comparisons": comps, "blocking_rules_to_generate_predictions": [],
        "probability_two_random_records_match": case["prior"], "retain_matching_columns": True,
        "retain_intermediate_calculation_columns": True,
    }


def settings_via_creators(case):
    """Same model through the public creator API (CustomComparison / CustomLevel.configure)."""
    import splink.comparison_level_library as cll
    import splink.comparison_library as cl
    from splink import SettingsCreator

    comps = []
    for ci, c in enumerate(case["comparisons"]):
        lv = []
        for l in c["levels"]:
            if l["kind"] == "null":
                lv.append(cll.CustomLevel(level_sql(c["col"], l), "null").configure(is_null_level=True))
                continue
            x = cll.CustomLevel(level_sql(c["col"], l), l["kind"] + str(l.get("k", "")))
            kw = {"m_probability": l["m"], "u_probability": l["u"]}
            if "tf" in l:
                kw.update(tf_adjustment_column=c["col"], tf_adjustment_weight=l["tf"]["weight"], tf_minimum_u_value=l["tf"]["minU"])
                if l["tf"].get("disable_detection"):
                    kw["disable_tf_exact_match_detection"] = True
            lv.append(x.configure(**kw))
        comps.append(cl.CustomComparison(output_column_name=f"{c['col']}{ci}", comparison_levels=lv))
    return SettingsCreator(link_type="dedupe_only", comparisons=comps, blocking_rules_to_generate_predictions=[],
                           probability_two_random_records_match=case["prior"], retain_matching_columns=True,
                           retain_intermediate_calculation_columns=True)


def run_impl(case: dict) -> dict:
    from splink import Linker, SettingsCreator

    from harness import impl

    api = impl.make_api(case["engine"], threads=2)
    rows = list(case["rows"])
    random.Random(case.get("shuffle", 0)).shuffle(rows)
    df = impl.typed_frame(rows, {"unique_id": "int", "a": "str", "b": "str", "c": "int"})
    settings = settings_via_creators(case) if case.get("construct") == "creator" else settings_dict(case)
    linker = Linker(df, settings, api)
    for col, table in (case.get("tf_lookup") or {}).items():
        tdf = impl.typed_frame([{col: v, f"tf_{col}": t} for v, t in table.items()], {col: "str", f"tf_{col}": "float"})
        linker.table_management.register_term_frequency_lookup(tdf, col, overwrite=True)
    kw = {}
    if case.get("thr"):
        kw["threshold_match_weight" if case["thr"]["kind"] == "weight" else "threshold_match_probability"] = case["thr"]["value"]
    out = linker.inference.predict(**kw).as_record_dict()
    res = {}
    for r in out:
        key = f"{r['unique_id_l']}-{r['unique_id_r']}"
        res[key] = {k: v for k, v in r.items() if k.startswith(("gamma_", "bf_", "tf_", "match_"))}
    return {"rows": res}


run_impl_safe = core.safe(run_impl)


# --------------------------------------------------------------------------- expected inputs for the model
def tf_tables(case):
    out = {}
    for col in ("a", "b"):
        if col in (case.get("tf_lookup") or {}):
            out[col] = dict(case["tf_lookup"][col])
            continue
        vals = [r[col] for r in case["rows"] if r[col] is not None]
        out[col] = {v: vals.count(v) / len(vals) for v in set(vals)} if vals else {}
    return out


def guard(l, x, y):
    k = l["kind"]
    if k == "null":
        return 1 if (x is None or y is None) else 0
    if k == "else":
        return 1
    if x is None or y is None:
        return 2
    if k == "eq":
        return 1 if x == y else 0
    if k == "lev":
        return 1 if lev(x, y) <= l["k"] else 0
    if k == "absdiff":
        return 1 if abs(x - y) <= l["k"] else 0
    raise ValueError(k)


def model_levels(case):
    comps = []
    tfcol_index = {"a": 0, "b": 1}
    for c in case["comparisons"]:
        nn = [l for l in c["levels"] if l["kind"] != "null"]
        out = []
        counter = len(nn) - 1
        exact_u = next((l["u"] for l in c["levels"] if l["kind"] == "eq"), None)
        for l in c["levels"]:
            d = {"isNull": l["kind"] == "null", "isElse": l["kind"] == "else", "m": core.f2b(l.get("m", 0.5)), "u": core.f2b(l.get("u", 0.5)), "tf": None}
            if l["kind"] == "null":
                d["cvv"] = -1
            else:
                d["cvv"] = counter
                counter -= 1
            if "tf" in l:
                ue = l["u"] if l["tf"].get("disable_detection") else exact_u
                d["tf"] = {"col": tfcol_index[c["col"]], "weight": core.f2b(l["tf"]["weight"]), "minU": core.f2b(l["tf"]["minU"]), "uExact": core.f2b(ue)}
            out.append(d)
        comps.append(out)
    return comps


def pairs_of(case):
    rows = sorted(case["rows"], key=lambda r: r["unique_id"])
    return [(x, y) for i, x in enumerate(rows) for y in rows[i + 1 :]]


def model_request(case):
    tfs = tf_tables(case)
    pairs = []
    for x, y in pairs_of(case):
        guards = [[guard(l, x[c["col"]], y[c["col"]]) for l in c["levels"]] for c in case["comparisons"]]

        def tfv(rec, col):
            v = rec[col]
            t = tfs[col].get(v) if v is not None else None
            return None if t is None else core.f2b(t)

        pairs.append({"guards": guards, "tfl": [tfv(x, "a"), tfv(x, "b")], "tfr": [tfv(y, "a"), tfv(y, "b")]})
    thr = None
    if case.get("thr"):
        thr = {"kind": case["thr"]["kind"], "value": core.f2b(case["thr"]["value"])}
    return {"op": "score", "prior": core.f2b(case["prior"]), "comparisons": model_levels(case), "pairs": pairs, "thr": thr}


def fac(x):
    if x is None:
        return None
    return math.inf if x == "inf" else core.b2f(x)


# --------------------------------------------------------------------------- independent oracle (closed form)
def oracle_weight(case, x, y):
    """log2(prior odds) + sum over comparisons of log2(m/u) + w*log2(uExact/max(tfl,tfr,minU)) for the first true level."""
    tfs = tf_tables(case)
    w = math.log2(case["prior"] / (1 - case["prior"]))
    gam = []
    infinite = False
    for c in case["comparisons"]:
        nn = [l for l in c["levels"] if l["kind"] != "null"]
        chosen = None
        for l in c["levels"]:
            if guard(l, x[c["col"]], y[c["col"]]) == 1:
                chosen = l
                break
        if chosen["kind"] == "null":
            gam.append(-1)
            continue
        gam.append(len(nn) - 1 - nn.index(chosen))
        if chosen["u"] == 0:
            infinite = True
            continue
        w += math.log2(chosen["m"] / chosen["u"])
        if "tf" in chosen and chosen["tf"]["weight"] != 0 and chosen["kind"] != "else":
            tl = tfs[c["col"]].get(x[c["col"]])
            tr = tfs[c["col"]].get(y[c["col"]])
            cands = [t for t in (tl, tr) if t is not None]
            if cands:
                exact_u = chosen["u"] if chosen["tf"].get("disable_detection") else next(l["u"] for l in c["levels"] if l["kind"] == "eq")
                div = max(cands + [chosen["tf"]["minU"]])
                w += chosen["tf"]["weight"] * math.log2(exact_u / div)
    return gam, (math.inf if infinite else w)


def verdict(case, r):
    """Property decided on the real output only."""
    thr = case.get("thr")
    tw = None
    if thr:
        tw = thr["value"] if thr["kind"] == "weight" else (None if thr["value"] == 0 else math.log2(thr["value"] / (1 - thr["value"])))
    for x, y in pairs_of(case):
        key = f"{x['unique_id']}-{y['unique_id']}"
        gam, w = oracle_weight(case, x, y)
        row = r["rows"].get(key)
        if tw is not None and w != math.inf and abs(w - tw) <= 1e-9 * max(1, abs(tw)):
            continue  # within rounding of the threshold: excepted by the property
        should = tw is None or w >= tw
        if row is None:
            if should:
                return f"pair {key} with weight {w} is missing (threshold {tw})"
            continue
        if not should:
            return f"pair {key} with weight {w} is below the threshold {tw} but was returned"
        got_g = [row[f"gamma_{c['col']}{ci}"] for ci, c in enumerate(case["comparisons"])]
        if got_g != gam:
            return f"comparison levels of pair {key}: got {got_g}, first-true levels are {gam}"
        if not core.close(row["match_weight"], w, 1e-7, 1e-7):
            return f"match_weight of pair {key}: got {row['match_weight']}, Fellegi-Sunter formula gives {w}"
        p = 1.0 if w == math.inf else (2.0**w) / (1 + 2.0**w)
        if not core.close(row["match_probability"], p, 1e-7, 1e-9):
            return f"match_probability of pair {key}: got {row['match_probability']}, expected {p}"
        # retained intermediate columns multiply to the score
        prod = case["prior"] / (1 - case["prior"])
        for k, v in row.items():
            if k.startswith("bf_") and v is not None:
                prod *= v
        if w != math.inf and not core.close(math.log2(prod) if prod > 0 else -math.inf, row["match_weight"], 1e-7, 1e-7):
            return f"intermediate columns of pair {key} multiply to weight {math.log2(prod) if prod > 0 else None}, match_weight is {row['match_weight']}"
    return None


# --------------------------------------------------------------------------- comparison
def compare(ctx, cases, drv):
    reqs = [model_request(c) for c in cases]
    res = core.pmap(run_impl_safe, cases, chunksize=2)
    mres = drv.pbatch(reqs)
    problems = []
    for c, req, r, m in zip(cases, reqs, res, mres):
        ps = pairs_of(c)
        has_tf = any("tf" in l for cc in c["comparisons"] for l in cc["levels"])
        has_inf = any(l.get("u") == 0 for cc in c["comparisons"] for l in cc["levels"])
        ctx.case({k: c[k] for k in ("rows", "comparisons", "prior", "thr", "engine", "construct", "tf_lookup") if k in c}, len(ps) >= 1 and len(c["comparisons"]) >= 1,
                 sample={"case": {k: c[k] for k in ("rows", "comparisons", "prior", "thr", "engine", "construct")}, "impl": r.get("rows") if isinstance(r, dict) else None} if len(c["rows"]) <= 2 and len(c["comparisons"]) <= 2 else None)
        ctx.count("engine", c["engine"]); ctx.count("n_comparisons", len(c["comparisons"])); ctx.count("has_tf", has_tf); ctx.count("has_u_zero", has_inf)
        ctx.count("threshold", "none" if not c.get("thr") else c["thr"]["kind"]); ctx.count("construct", c.get("construct", "dict")); ctx.count("tf_lookup_registered", bool(c.get("tf_lookup")))
        ctx.count("tf_weights", sorted({l["tf"]["weight"] for cc in c["comparisons"] for l in cc["levels"] if "tf" in l}).__str__())
        if core.impl_error(r):
            ctx.count("impl_error", r["__error__"])
            problems.append((c, f"real code raised {r['__error__']}: {r['text'][:300]}", True))
            continue
        if "error" in m:
            if ctx.lean.ok:
                raise core.HarnessError("model driver error: " + m["error"])
            ctx.count("model_unavailable", m["error"][:80])  # translated part not regenerable (a broken obligation already): oracle only
            v_ = verdict(c, r) if not core.impl_error(r) else None
            if v_ is not None:
                problems.append((c, v_, True))
            continue
        v = verdict(c, r)
        if v is not None:
            problems.append((c, v, True))
            continue
        # model vs impl: every column
        bad = None
        for (x, y), mr in zip(ps, m["rows"]):
            key = f"{x['unique_id']}-{y['unique_id']}"
            row = r["rows"].get(key)
            mw = fac(mr["weight"])
            tw = None
            if c.get("thr"):
                tw = c["thr"]["value"] if c["thr"]["kind"] == "weight" else (None if c["thr"]["value"] == 0 else math.log2(c["thr"]["value"] / (1 - c["thr"]["value"])))
            near = tw is not None and mw is not None and mw != math.inf and abs(mw - tw) <= 1e-9 * max(1, abs(tw))
            if near:
                continue
            if (row is not None) != mr["keep"]:
                bad = f"pair {key}: kept by impl={row is not None}, by model={mr['keep']} (model weight {mw}, threshold {tw})"
                break
            if row is None:
                continue
            gm = [row[f"gamma_{cc['col']}{ci}"] for ci, cc in enumerate(c["comparisons"])]
            if gm != mr["gammas"]:
                bad = f"pair {key}: gammas impl {gm} model {mr['gammas']}"
                break
            # terms in order: bf_x, [bf_tf_adj_x]
            terms = []
            for ci, cc in enumerate(c["comparisons"]):
                nm = f"{cc['col']}{ci}"
                terms.append(row.get(f"bf_{nm}"))
                if any("tf" in l for l in cc["levels"]):
                    terms.append(row.get(f"bf_tf_adj_{nm}"))
            mt = [fac(t) for t in mr["terms"]]
            if len(terms) != len(mt) or any(not core.close(a, b, 1e-9) for a, b in zip(terms, mt)):
                bad = f"pair {key}: bf/tf_adj columns impl {terms} model {mt}"
                break
            if not core.close(row["match_weight"], mw, 1e-9, 1e-9) or not core.close(row["match_probability"], core.b2f(mr["prob"]), 1e-9, 1e-12):
                bad = f"pair {key}: weight/prob impl ({row['match_weight']}, {row['match_probability']}) model ({mw}, {core.b2f(mr['prob'])})"
                break
        if bad:
            problems.append((c, "predict() columns differ from Lean model Score.score: " + bad, False))
            continue
        ctx.traces_validated += 1
    return problems


def gen_cases(ctx):
    rng = ctx.rng
    cases = []
    n = ctx.budget(170, 3000)
    for _ in range(n):
        c = gen_case(rng)
        cases.append(c)
    # thresholds sitting on emitted scores: derive from the oracle weights of the case
    extra = []
    for c in cases[: ctx.budget(60, 800)]:
        ws = []
        for x, y in pairs_of(c):
            _, w = oracle_weight(c, x, y)
            if w is not None and w != math.inf:
                ws.append(w)
        if not ws:
            continue
        d = json.loads(json.dumps(c))
        w = rng.choice(ws)
        kind = rng.choice(["weight", "weight", "prob"])
        if kind == "weight":
            # on / around an emitted score, and the falsy-but-given boundary values 0, 0.0, -0.0 (= probability 0.5)
            d["thr"] = {"kind": "weight", "value": rng.choice([w, w + 0.5, w - 0.5, round(w, 1), 0, 0.0, -0.0])}
        else:
            p = (2.0**w) / (1 + 2.0**w)
            d["thr"] = {"kind": "prob", "value": rng.choice([p, min(0.999999, p * 1.1), p * 0.9, 0.0, 0.5])}
        d["tag"] = "threshold"
        extra.append(d)
    return cases + extra


def impl_fails(case):
    r = run_impl_safe(case)
    if "__error__" in r:
        return True
    return verdict(case, r) is not None


def shrink(case):
    cur = json.loads(json.dumps(case))
    budget = 50
    changed = True
    while changed and budget > 0:
        changed = False
        for k in range(len(cur["rows"]) - 1, -1, -1):
            if budget <= 0 or len(cur["rows"]) <= 2:
                break
            cand = json.loads(json.dumps(cur))
            del cand["rows"][k]
            budget -= 1
            if impl_fails(cand):
                cur, changed = cand, True
        for k in range(len(cur["comparisons"]) - 1, -1, -1):
            if budget <= 0 or len(cur["comparisons"]) <= 1:
                break
            cand = json.loads(json.dumps(cur))
            del cand["comparisons"][k]
            budget -= 1
            if impl_fails(cand):
                cur, changed = cand, True
    return cur


def classify(what: str) -> str:
    for pat, cls in [("is missing", "pair missing"), ("below the threshold", "pair below threshold returned"), ("comparison levels of pair", "wrong comparison level"),
                     ("match_weight of pair", "match_weight differs from formula"), ("match_probability of pair", "match_probability differs"),
                     ("intermediate columns", "intermediate columns do not multiply to score"), ("real code raised", "real code raised")]:
        if pat in what:
            return cls
    return what[:60]


def match_info(case, what):
    tf0 = any(l.get("tf", {}).get("weight") == 0.0 for cc in case["comparisons"] for l in cc["levels"] if "tf" in l)
    u0 = any(l.get("u") == 0 for cc in case["comparisons"] for l in cc["levels"])
    if classify(what) == "real code raised":
        return {"failure": "real code raised", "engine": case["engine"], "has_u_zero": u0}
    return {"failure": classify(what), "tf_weight_zero_present": tf0, "construct": case.get("construct", "dict")}


def run(ctx: core.Ctx):
    ctx.rule = (
        "cases = 2-9 records over tiny string/int domains (NULL rate 0-35%), 1-4 comparisons (exact / levenshtein<=1[,2] / numeric abs-diff) with 2-5 levels, with or "
        "without a null level, m,u random in (0,1] (12% a u=0 level), TF adjustments on exact and fuzzy levels with weight in {0,0.3,0.5,1}, minimum-u in {0,0.01,0.2}, "
        "detection disabled 25%, registered TF lookup tables with missing values 35%, priors in (0,1); built from a settings dict or through CustomComparison/CustomLevel "
        "creators; + the same cases with a weight/probability threshold sitting on, just above, just below an emitted score; duckdb+sqlite. Every retained column of every "
        "pair compared. non-trivial = at least one pair and one comparison; distinct = hash of (rows, model, threshold, engine, construction path)."
    )
    ctx.assumptions = [
        "0 < m <= 1, 0 <= u <= 1, 0 < prior < 1, every comparison ends with an ELSE level (library shape)",
        "floating point: columns compared at relative 1e-9 with the Float model and 1e-7 with the closed-form oracle; rows within 1e-9 of the threshold excepted",
        "level conditions used here (equality, levenshtein, abs difference, IS NULL) are evaluated by the harness itself",
    ]
    from harness.translate import tarith

    errs = tarith.write({"threshold_args_to_match_weight", "prob_to_match_weight", "prob_to_bayes_factor", "bayes_factor_to_prob", "match_weight_to_bayes_factor"})  # the model's threshold conversion is the translated source
    ctx.lean = core.lean_check(PROP, ctx.thorough)
    if errs:
        ctx.lean.ok = False
        ctx.lean.problems += ["T-arith: " + e for e in errs]
    drv = core.Driver()
    if ctx.replay:
        cases = [json.loads(open(ctx.replay).read())["replay"]["case"]]
    else:
        from harness import graphs

        cases = graphs.load_corpus(PROP) + gen_cases(ctx)
    problems = compare(ctx, cases, drv)
    if (not ctx.lean.ok or any(not conc for _, _, conc in problems)) and not ctx.replay:
        ctx.notes.append("proof or correspondence broke: ran the widened failing-input search")
        rng2 = random.Random(ctx.seed + 7919)
        problems += compare(ctx, [gen_case(rng2) for _ in range(1500)], drv)
    concrete = [(c, w) for c, w, conc in problems if conc]
    broken = [(c, w) for c, w, conc in problems if not conc]
    reported = set()
    for c, w in concrete:
        mi = match_info(c, w)
        key = json.dumps(mi, sort_keys=True)
        if key in reported or len(reported) >= 4:
            continue
        reported.add(key)
        small = shrink(c) if not c.get("tag", "").startswith("corpus") else c
        rr = run_impl_safe(small)
        what = (verdict(small, rr) if "rows" in rr else f"real code raised {rr['__error__']}: {rr['text'][:300]}") or w
        ctx.violation("real output violates C02: " + classify(what) + (" [tf_adjustment_weight 0 supplied]" if mi.get("tf_weight_zero_present") else "") + f" [{mi.get('construct', mi.get('engine'))}]",
                      {"case": small, "observed": rr, "detail": what}, kind="concrete", match_info=match_info(small, what))
    if not concrete:
        if broken:
            c, w = broken[0]
            ctx.violation("correspondence Score model <-> predict() no longer checks",
                          {"correspondence": "harness/props/c02.py compare(): " + w, "case": c, "disagreeing_cases": len(broken), "searched_cases": ctx.evaluations, "lean": ctx.lean.as_dict()}, kind="unproved")
        elif not ctx.lean.ok:
            ctx.violation("Lean obligations for C02 no longer check",
                          {"theorems": ctx.lean.as_dict()["undischarged"], "problems": ctx.lean.problems, "build_log_tail": ctx.lean.build_log[-1500:], "searched_cases": ctx.evaluations}, kind="unproved")
