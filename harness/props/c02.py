"""C02 — scores follow the Fellegi-Sunter formula with the model's parameters.

Lean: Model/Score.lean mirrors the CASE statement for gamma, the Bayes-factor and TF-adjustment CASEs,
the product with the prior, log2 / match probability and the threshold; Properties/C02.lean proves
first-true level selection, TF divisor = max, the additive formula over the reals, product/sum
decomposition and threshold exactness.
Tie: real predict() (all retained columns) vs the compiled model at Float on generated data x models
(guards and term frequencies computed by the harness itself); an independent closed-form oracle
(log2 sum) decides the property on the real output.
Input families: 'library' (single-column comparisons in library order) and 'free' (custom comparisons: levels in arbitrary
order, null levels anywhere / several, overlapping and multi-column conditions under SQL three-valued logic); settings built
four ways, retain flags, predict() flags, object reuse; waterfall records of every returned pair checked by the oracle.
SQL level (harness/props/c02_sql.py): the three scoring statements (gamma ladder, Bayes-factor ladder, product / match_probability,
threshold) are regenerated as Rel terms for marker models without TF adjustments (Generated/ScoreSql.lean, tied by rfl to the generic form
Model/ScoreSql.lean), Properties/C02Sql.lean proves first-TRUE-level / assigned factor / B/(1+B) in exact rationals / infinity branch /
threshold-by-weight / refinement of Model/Score at Q under Rel.eval, and the pipeline is evaluated on the TF-free, threshold-free cases against the engine.
"""
from __future__ import annotations

import json
import math
import random

from harness import core

PROP = "C02"
# "an" gives pairs at levenshtein distance exactly 2 (an/anne, an/cy), "" is the empty string (distance = length of the other value)
STR_DOM = ["ann", "anne", "bob", "bobb", "cy", "dee", "an", ""]
B_DOM = ["ann", "anne", "bob", "bobb", "an"]
INT_DOM = [0, 1, 2, 5, -1]
COL_TYPES = {"a": "str", "b": "str", "c": "int"}


def lev(a: str, b: str) -> int:
    if a == b:
        return 0
    prev = list(range(len(b) + 1))
    for i, ca in enumerate(a, 1):
        cur = [i]
        for j, cb in enumerate(b, 1):
            cur.append(min(prev[j] + 1, cur[j - 1] + 1, prev[j - 1] + (ca != cb)))
        prev = cur
    return prev[-1]


# --------------------------------------------------------------------------- level conditions (trees over the columns a, b, c)
# atoms: eq / ne / lev k / absdiff k on one column, xeq (l-column of the left record = r-column of the right record),
#        null (either side missing), bothnull, lnull, rnull;  composites: and / or (n-ary), not.
# A level of the original (single column, library-ordered) family carries no "cond": its condition follows from kind/col.
def level_cond(c, l):
    """Condition tree of a level (None for ELSE)."""
    if l["kind"] == "else":
        return None
    if "cond" in l:
        return l["cond"]
    k = l["kind"]
    if k in ("null", "eq"):
        return {"op": k, "col": c["col"]}
    return {"op": k, "col": c["col"], "k": l["k"]}


def cond_sql(t, top=True):
    op = t["op"]
    if op in ("and", "or"):
        s = f" {op.upper()} ".join("(" + cond_sql(a, False) + ")" for a in t["args"])
        return s
    if op == "not":
        return "NOT (" + cond_sql(t["arg"], False) + ")"
    if op == "xeq":
        return f'"{t["l"]}_l" = "{t["r"]}_r"'
    cl, cr = f'"{t["col"]}_l"', f'"{t["col"]}_r"'
    if op == "null":
        return f"{cl} IS NULL OR {cr} IS NULL"
    if op == "bothnull":
        return f"{cl} IS NULL AND {cr} IS NULL"
    if op == "lnull":
        return f"{cl} IS NULL"
    if op == "rnull":
        return f"{cr} IS NULL"
    if op == "eq":
        return f"{cl} = {cr}"
    if op == "ne":
        return f"{cl} <> {cr}"
    if op == "lev":
        return f"levenshtein({cl}, {cr}) <= {t['k']}"
    if op == "absdiff":
        return f"abs({cl} - {cr}) <= {t['k']}"
    raise ValueError(op)


def cond_cols(t):
    op = t["op"]
    if op in ("and", "or"):
        out = []
        for a in t["args"]:
            out += [c for c in cond_cols(a) if c not in out]
        return out
    if op == "not":
        return cond_cols(t["arg"])
    if op == "xeq":
        return [t["l"], t["r"]]
    return [t["col"]]


def cond_eval(t, x, y):
    """SQL three-valued truth of a condition on the pair (x = left record, y = right record): 0 false, 1 true, 2 unknown."""
    op = t["op"]
    if op == "and":
        vs = [cond_eval(a, x, y) for a in t["args"]]
        return 0 if 0 in vs else (2 if 2 in vs else 1)
    if op == "or":
        vs = [cond_eval(a, x, y) for a in t["args"]]
        return 1 if 1 in vs else (2 if 2 in vs else 0)
    if op == "not":
        return {0: 1, 1: 0, 2: 2}[cond_eval(t["arg"], x, y)]
    if op == "xeq":
        p, q = x[t["l"]], y[t["r"]]
        return 2 if p is None or q is None else int(p == q)
    p, q = x[t["col"]], y[t["col"]]
    if op == "null":
        return int(p is None or q is None)
    if op == "bothnull":
        return int(p is None and q is None)
    if op == "lnull":
        return int(p is None)
    if op == "rnull":
        return int(q is None)
    if p is None or q is None:
        return 2
    if op == "eq":
        return int(p == q)
    if op == "ne":
        return int(p != q)
    if op == "lev":
        return int(lev(p, q) <= t["k"])
    if op == "absdiff":
        return int(abs(p - q) <= t["k"])
    raise ValueError(op)


def is_plain_eq(t, col):
    return t is not None and t["op"] == "eq" and t["col"] == col


def tf_col(c, l):
    return l["tf"].get("col", c["col"])


# --------------------------------------------------------------------------- case generation
def gen_probs(rng, k, allow_zero_u=False):
    xs = [rng.uniform(0.02, 1.0) for _ in range(k)]
    s = sum(xs)
    out = [round(x / s, 6) or 0.000001 for x in xs]
    return out


def boundary_probs(rng, nn):
    """m = 1.0 / u = 1.0 exactly on some level (the closed ends of the (0,1] range of the quantifier)."""
    if rng.random() < 0.08:
        rng.choice(nn)["m"] = 1.0
    if rng.random() < 0.08:
        rng.choice(nn)["u"] = 1.0


def gen_comparison(rng: random.Random, col: str, engine: str):
    kind = {"a": rng.choice(["exact", "lev", "lev2"]), "b": rng.choice(["exact", "lev"]), "c": rng.choice(["num", "numexact"])}[col]
    has_null = rng.random() < 0.85
    levels = []
    if has_null:
        levels.append({"kind": "null"})
    if kind in ("exact", "lev", "lev2", "numexact", "num"):
        levels.append({"kind": "eq"})
    if kind == "lev":
        levels.append({"kind": "lev", "k": 1})
    if kind == "lev2":
        levels.append({"kind": "lev", "k": 1})
        levels.append({"kind": "lev", "k": 2})
    if kind == "num":
        levels.append({"kind": "absdiff", "k": 1})
    levels.append({"kind": "else"})
    nn = [l for l in levels if l["kind"] != "null"]
    ms, us = gen_probs(rng, len(nn)), gen_probs(rng, len(nn))
    for l, m, u in zip(nn, ms, us):
        l["m"], l["u"] = m, u
    boundary_probs(rng, nn)
    tf = col in ("a", "b") and rng.random() < 0.6
    if tf:
        for l in nn:
            if l["kind"] == "eq" or (l["kind"] == "lev" and rng.random() < 0.6):
                l["tf"] = {"weight": rng.choice([0.0, 0.3, 1.0, 1.0, 0.5]), "minU": rng.choice([0.0, 0.0, 0.01, 0.2])}
                if l["kind"] == "lev" and rng.random() < 0.25:
                    l["tf"]["disable_detection"] = True
    if rng.random() < 0.12:
        # infinite Bayes factor: u = 0 on a level that carries no TF adjustment and is not the exact-match level a TF level
        # takes its u from ((0/x)^w * Infinity is undefined - outside the property's quantifier)
        cand = [l for l in nn if "tf" not in l and not (tf and l["kind"] == "eq")]
        if cand:  # on every engine since the repair of K6 (SQLite used to be unable to represent an infinite Bayes factor)
            rng.choice(cand)["u"] = 0.0
    return {"col": col, "levels": levels}


# ---- free-form family: levels in ARBITRARY order (null level(s) anywhere, overlapping conditions, conditions over several columns)
def gen_atom(rng, col):
    if COL_TYPES[col] == "int":
        return rng.choice([{"op": "eq", "col": col}] * 3 + [{"op": "absdiff", "col": col, "k": 1}, {"op": "absdiff", "col": col, "k": 2}, {"op": "ne", "col": col}])
    return rng.choice([{"op": "eq", "col": col}] * 3 + [{"op": "lev", "col": col, "k": 1}] * 2 + [{"op": "lev", "col": col, "k": 2}, {"op": "ne", "col": col}])


def gen_cond(rng, cols):
    r = rng.random()
    if len(cols) == 1 or r < 0.4:
        return gen_atom(rng, rng.choice(cols))
    c1, c2 = rng.sample(cols, 2)
    if r < 0.62:
        return {"op": "and", "args": [gen_atom(rng, c1), gen_atom(rng, c2)]}
    if r < 0.74:
        return {"op": "or", "args": [gen_atom(rng, c1), gen_atom(rng, c2)]}
    if r < 0.84:  # "first name agrees, surname missing": a non-null level whose condition contains a null test
        return {"op": "and", "args": [gen_atom(rng, c1), {"op": rng.choice(["null", "null", "bothnull", "rnull"]), "col": c2}]}
    if r < 0.92 and COL_TYPES[c1] == COL_TYPES[c2] == "str":
        return {"op": "xeq", "l": c1, "r": c2}
    return {"op": "and", "args": [gen_atom(rng, c1), {"op": "not", "arg": gen_atom(rng, c2)}]}


def gen_null_cond(rng, cols):
    r = rng.random()
    if len(cols) == 1 or r < 0.25:
        c1 = rng.choice(cols)
        return {"op": rng.choice(["null"] * 5 + ["bothnull", "lnull", "rnull"]), "col": c1}
    c1, c2 = rng.sample(cols, 2)
    if r < 0.88:  # "something is missing"
        return {"op": "or", "args": [{"op": "null", "col": c} for c in (cols if rng.random() < 0.6 else [c1, c2])]}
    return {"op": "and", "args": [{"op": "null", "col": c1}, {"op": "null", "col": c2}]}


def gen_comparison_free(rng: random.Random, cols: list, engine: str):
    """Custom comparison: 1-4 non-null levels in arbitrary order + ELSE, 0-3 null levels inserted at arbitrary positions."""
    k = rng.randint(1, 4)
    if len(cols) == 1 and rng.random() < 0.6:
        # the library ladder of one column, permuted (fuzzy before exact, wide before narrow)
        col = cols[0]
        ladder = [{"op": "eq", "col": col}] + ([{"op": "absdiff", "col": col, "k": 1}, {"op": "absdiff", "col": col, "k": 2}] if COL_TYPES[col] == "int"
                                                else [{"op": "lev", "col": col, "k": 1}, {"op": "lev", "col": col, "k": 2}])
        conds = rng.sample(ladder, min(k, 3))
    else:
        conds = [gen_cond(rng, cols) for _ in range(k)]
    if len(conds) < 4 and rng.random() < 0.1:
        conds.insert(rng.randint(0, len(conds)), json.loads(json.dumps(rng.choice(conds))))  # a repeated condition: only its first copy can fire
    levels = [{"kind": "cond", "cond": cd} for cd in conds]
    for _ in range(rng.choice([0, 1, 1, 1, 1, 1, 1, 2, 2, 3])):
        levels.insert(rng.randint(0, len(levels)), {"kind": "null", "cond": gen_null_cond(rng, cols)})
    levels.append({"kind": "else"})
    nn = [l for l in levels if l["kind"] != "null"]
    for l, m, u in zip(nn, gen_probs(rng, len(nn)), gen_probs(rng, len(nn))):
        l["m"], l["u"] = m, u
    boundary_probs(rng, nn)
    c = {"col": cols[0], "cols": list(cols), "levels": levels}
    strs = [x for x in cols if COL_TYPES[x] == "str"]
    tfc = None
    if strs and rng.random() < 0.5:
        tfc = rng.choice(strs)
        has_exact = any(is_plain_eq(level_cond(c, l), tfc) for l in levels)
        for l in nn[:-1]:
            if (tfc in cond_cols(l["cond"]) and rng.random() < 0.6) or rng.random() < 0.08:
                l["tf"] = {"col": tfc, "weight": rng.choice([0.0, 0.3, 1.0, 1.0, 0.5]), "minU": rng.choice([0.0, 0.0, 0.01, 0.2])}
                if not has_exact or (not is_plain_eq(l["cond"], tfc) and rng.random() < 0.25):
                    l["tf"]["disable_detection"] = True  # without an exact-match level on the TF column the level must name its own u
    if rng.random() < 0.12:
        cand = [l for l in nn if "tf" not in l and not (tfc and is_plain_eq(level_cond(c, l), tfc))]
        if cand:
            rng.choice(cand)["u"] = 0.0
    return c


def gen_rows(rng, null_rates=(0.0, 0.15, 0.35)):
    n = rng.randint(2, 9)
    null_rate = rng.choice(null_rates)
    rows = []
    for i in range(n):
        rows.append({
            "unique_id": i + 1,
            "a": None if rng.random() < null_rate else rng.choice(STR_DOM),
            "b": None if rng.random() < null_rate else rng.choice(B_DOM),
            "c": None if rng.random() < null_rate else rng.choice(INT_DOM),
        })
    return rows


def gen_case(rng: random.Random, engine=None, family=None):
    engine = engine or rng.choice(["duckdb", "duckdb", "sqlite"])
    family = family or rng.choice(["library", "library", "library", "free", "free"])
    rows = gen_rows(rng) if family != "free" else gen_rows(rng, (0.0, 0.15, 0.35, 0.35, 0.5))
    if family == "free":
        comps = []
        for _ in range(rng.choice([1, 1, 2, 2, 3])):
            cols = rng.sample(["a", "b", "c"], rng.choice([1, 1, 2, 2, 2, 3]))
            comps.append(gen_comparison_free(rng, cols, engine))
        if rng.random() < 0.3:
            comps.insert(rng.randint(0, len(comps)), gen_comparison(rng, rng.choice(["a", "b", "c"]), engine))
    else:
        cols = rng.sample(["a", "b", "c"], rng.randint(1, 3))
        if rng.random() < 0.15:
            cols.append(rng.choice(["a", "b"]))  # 4 comparisons, one column used twice (different output names)
        comps = [gen_comparison(rng, c, engine) for c in cols]
    prior = rng.choice([0.0001, 0.01, 0.3, 0.5, 0.9, round(rng.uniform(0.001, 0.999), 4), round(rng.uniform(0.001, 0.999), 4), 1e-7, 0.999999])
    case = {"engine": engine, "rows": rows, "comparisons": comps, "prior": prior, "thr": None, "shuffle": rng.randrange(1 << 30), "tag": "random", "family": family,
            "construct": rng.choice(["dict", "dict", "dict", "creator", "creator", "dict_of_creators", "creator_of_dicts"])}
    # non-default / default options of Settings and predict(): which columns are retained (the library default retains no
    # intermediate columns), materialisation flags, an earlier predict() with another threshold on the same linker
    r = rng.random()
    case["retain"] = [True, True] if r < 0.75 else ([True, False] if r < 0.87 else ([False, False] if r < 0.95 else [False, True]))
    if rng.random() < 0.2:
        case["predict_flags"] = {"materialise_after_computing_term_frequencies": rng.random() < 0.5, "materialise_blocked_pairs": rng.random() < 0.5}
    if rng.random() < 0.1:
        case["settings_used_before"] = rng.choice(["same_engine", "other_engine"])  # the same settings object already served another Linker
    if rng.random() < 0.08:
        case["predict_before"] = rng.choice([{"threshold_match_probability": 0.5}, {"threshold_match_weight": 3.0}, {}])
    # registered TF lookup for a TF column, possibly with missing values
    tfcols = sorted({tf_col(c, l) for c in comps for l in c["levels"] if "tf" in l})
    if tfcols and rng.random() < 0.35:
        col = rng.choice(tfcols)
        dom = STR_DOM if col == "a" else B_DOM
        vals = [v for v in dom if rng.random() < 0.7]
        case["tf_lookup"] = {col: {v: round(rng.uniform(0.01, 0.6), 4) for v in vals}}
    return case


# --------------------------------------------------------------------------- settings construction
def level_sql(col, l):
    if l["kind"] == "else":
        return "ELSE"
    return cond_sql(level_cond({"col": col}, l))


def level_label(l):
    return l["kind"] + str(l.get("k", ""))


def level_dict(c, l):
    d = {"sql_condition": level_sql(c["col"], l), "label_for_charts": level_label(l)}
    if l["kind"] == "null":
        d["is_null_level"] = True
    else:
        d["m_probability"], d["u_probability"] = l["m"], l["u"]
    if "tf" in l:
        d["tf_adjustment_column"] = tf_col(c, l)
        d["tf_adjustment_weight"] = l["tf"]["weight"]
        d["tf_minimum_u_value"] = l["tf"]["minU"]
        if l["tf"].get("disable_detection"):
            d["disable_tf_exact_match_detection"] = True
    return d


def level_creator(c, l):
    import splink.comparison_level_library as cll

    if l["kind"] == "null":
        return cll.CustomLevel(level_sql(c["col"], l), "null").configure(is_null_level=True)
    x = cll.CustomLevel(level_sql(c["col"], l), level_label(l))
    kw = {"m_probability": l["m"], "u_probability": l["u"]}
    if "tf" in l:
        kw.update(tf_adjustment_column=tf_col(c, l), tf_adjustment_weight=l["tf"]["weight"], tf_minimum_u_value=l["tf"]["minU"])
        if l["tf"].get("disable_detection"):
            kw["disable_tf_exact_match_detection"] = True
    return x.configure(**kw)


def settings_kw(case):
    rmc, ricc = case.get("retain", [True, True])
    return {"link_type": "dedupe_only", "blocking_rules_to_generate_predictions": [], "probability_two_random_records_match": case["prior"],
            "retain_matching_columns": rmc, "retain_intermediate_calculation_columns": ricc}


def settings_dict(case):
    comps = [{"output_column_name": f"{c['col']}{ci}", "comparison_levels": [level_dict(c, l) for l in c["levels"]]} for ci, c in enumerate(case["comparisons"])]
    return {**settings_kw(case), "comparisons": comps}


def creator_comparisons(case, levels_as):
    import splink.comparison_library as cl

    return [cl.CustomComparison(output_column_name=f"{c['col']}{ci}", comparison_levels=[(level_creator if levels_as == "creator" else level_dict)(c, l) for l in c["levels"]])
            for ci, c in enumerate(case["comparisons"])]


def settings_via_creators(case, levels_as="creator"):
    """Same model through the public creator API (CustomComparison / CustomLevel.configure, or CustomComparison over level dicts)."""
    from splink import SettingsCreator

    return SettingsCreator(comparisons=creator_comparisons(case, levels_as), **settings_kw(case))


def build_settings(case):
    k = case.get("construct", "dict")
    if k == "creator":
        return settings_via_creators(case)
    if k == "creator_of_dicts":
        return settings_via_creators(case, "dict")
    if k == "dict_of_creators":  # a settings dict holding comparison creator objects
        return {**settings_kw(case), "comparisons": creator_comparisons(case, "creator")}
    return settings_dict(case)


def run_impl(case: dict) -> dict:
    from splink import Linker

    from harness import impl

    api = impl.make_api(case["engine"], threads=2)
    rows = list(case["rows"])
    random.Random(case.get("shuffle", 0)).shuffle(rows)
    df = impl.typed_frame(rows, {"unique_id": "int", "a": "str", "b": "str", "c": "int"})
    settings = build_settings(case)
    if case.get("settings_used_before"):
        other = case["engine"] if case["settings_used_before"] == "same_engine" else {"duckdb": "sqlite", "sqlite": "duckdb"}[case["engine"]]
        Linker(df, settings, impl.make_api(other, threads=2))  # object reuse: a creator / dict must give the same model again (also for another dialect)
    linker = Linker(df, settings, api)
    for col, table in (case.get("tf_lookup") or {}).items():
        tdf = impl.typed_frame([{col: v, f"tf_{col}": t} for v, t in table.items()], {col: "str", f"tf_{col}": "float"})
        linker.table_management.register_term_frequency_lookup(tdf, col, overwrite=True)
    kw = dict(case.get("predict_flags") or {})
    if case.get("predict_before") is not None:
        linker.inference.predict(**case["predict_before"], **kw)  # an earlier call with other threshold arguments on the same linker
    if case.get("thr"):
        kw["threshold_match_weight" if case["thr"]["kind"] == "weight" else "threshold_match_probability"] = case["thr"]["value"]
    out = linker.inference.predict(**kw).as_record_dict()
    res = {}
    for r in out:
        key = f"{r['unique_id_l']}-{r['unique_id_r']}"
        res[key] = {k: v for k, v in r.items() if k.startswith(("gamma_", "bf_", "tf_", "match_"))}
    ret = {"rows": res}
    if case.get("retain", [True, True]) == [True, True] and out:
        # waterfall records of every returned pair (public chart API; filter_nulls only adds a Vega filter, the data are complete)
        try:
            chart = linker.visualisations.waterfall_chart(out, filter_nulls=False, as_dict=True)
            wf = {}
            for d in chart["data"]["values"]:
                r = out[d["record_number"]]
                wf.setdefault(f"{r['unique_id_l']}-{r['unique_id_r']}", []).append(
                    {k: d.get(k) for k in ("column_name", "log2_bayes_factor", "bayes_factor", "comparison_vector_value", "m_probability", "u_probability", "term_frequency_adjustment")})
            ret["waterfall"] = wf
        except Exception as e:  # a result of the real code, reported by the oracle
            ret["waterfall_error"] = f"{type(e).__name__}: {e}"[:300]
    return ret


run_impl_safe = core.safe(run_impl)


# --------------------------------------------------------------------------- expected inputs for the model
def tf_tables(case):
    out = {}
    for col in ("a", "b"):
        if col in (case.get("tf_lookup") or {}):
            out[col] = dict(case["tf_lookup"][col])
            continue
        vals = [r[col] for r in case["rows"] if r[col] is not None]
        out[col] = {v: vals.count(v) / len(vals) for v in set(vals)} if vals else {}
    return out


def guard(c, l, x, y):
    """Outcome of a level's condition on the pair, as the CASE sees it (1 true / 0 false / 2 unknown); ELSE is taken when reached."""
    if l["kind"] == "else":
        return 1
    return cond_eval(level_cond(c, l), x, y)


def guard_values(l, xv, yv):
    """`guard` for a single-column level given the two values (the form other checks use)."""
    return guard({"col": "v"}, l, {"v": xv}, {"v": yv})


def exact_match_u(c, tfc):
    """u of the first listed level whose whole condition is the plain equality of the TF column (None if there is none)."""
    for l in c["levels"]:
        if is_plain_eq(level_cond(c, l), tfc):
            return l.get("u")
    return None


def model_levels(case):
    comps = []
    tfcol_index = {"a": 0, "b": 1}
    for c in case["comparisons"]:
        nn = [l for l in c["levels"] if l["kind"] != "null"]
        out = []
        counter = len(nn) - 1
        for l in c["levels"]:
            d = {"isNull": l["kind"] == "null", "isElse": l["kind"] == "else", "m": core.f2b(l.get("m", 0.5)), "u": core.f2b(l.get("u", 0.5)), "tf": None}
            if l["kind"] == "null":
                d["cvv"] = -1
            else:
                d["cvv"] = counter
                counter -= 1
            if "tf" in l:
                ue = l["u"] if l["tf"].get("disable_detection") else exact_match_u(c, tf_col(c, l))
                d["tf"] = {"col": tfcol_index[tf_col(c, l)], "weight": core.f2b(l["tf"]["weight"]), "minU": core.f2b(l["tf"]["minU"]), "uExact": core.f2b(ue)}
            out.append(d)
        comps.append(out)
    return comps


def pairs_of(case):
    rows = sorted(case["rows"], key=lambda r: r["unique_id"])
    return [(x, y) for i, x in enumerate(rows) for y in rows[i + 1 :]]


def model_request(case):
    tfs = tf_tables(case)
    pairs = []
    for x, y in pairs_of(case):
        guards = [[guard(c, l, x, y) for l in c["levels"]] for c in case["comparisons"]]

        def tfv(rec, col):
            v = rec[col]
            t = tfs[col].get(v) if v is not None else None
            return None if t is None else core.f2b(t)

        pairs.append({"guards": guards, "tfl": [tfv(x, "a"), tfv(x, "b")], "tfr": [tfv(y, "a"), tfv(y, "b")]})
    thr = None
    if case.get("thr"):
        thr = {"kind": case["thr"]["kind"], "value": core.f2b(case["thr"]["value"])}
    return {"op": "score", "prior": core.f2b(case["prior"]), "comparisons": model_levels(case), "pairs": pairs, "thr": thr}


def fac(x):
    if x is None:
        return None
    return math.inf if x == "inf" else core.b2f(x)


# --------------------------------------------------------------------------- independent oracle (closed form)
def first_true_level(c, x, y):
    """Index of the first LISTED level whose condition is true on the pair (the ELSE level is true for every pair)."""
    for i, l in enumerate(c["levels"]):
        if l["kind"] == "else" or cond_eval(level_cond(c, l), x, y) == 1:
            return i
    return None


def oracle_weight(case, x, y, detail=None):
    """log2(prior odds) + sum over comparisons of log2(m/u) + w*log2(uExact/max(tfl,tfr,minU)) for the first true level."""
    tfs = tf_tables(case)
    w = math.log2(case["prior"] / (1 - case["prior"]))
    gam = []
    infinite = False
    for c in case["comparisons"]:
        i = first_true_level(c, x, y)
        chosen = c["levels"][i]
        if detail is not None:
            detail.append(chosen)
        if chosen["kind"] == "null":
            gam.append(-1)
            continue
        # comparison vector value: the non-null levels are numbered downwards to 0 in listed order
        gam.append(sum(1 for l in c["levels"][i + 1 :] if l["kind"] != "null"))
        if chosen["u"] == 0:
            infinite = True
            continue
        w += math.log2(chosen["m"] / chosen["u"])
        if "tf" in chosen and chosen["tf"]["weight"] != 0 and chosen["kind"] != "else":
            tc = chosen["tf"].get("col", c["col"])
            tl = tfs[tc].get(x[tc])
            tr = tfs[tc].get(y[tc])
            cands = [t for t in (tl, tr) if t is not None]
            if cands:
                if chosen["tf"].get("disable_detection"):
                    exact_u = chosen["u"]
                else:
                    exact_u = next(l["u"] for l in c["levels"] if (level_cond(c, l) or {}).get("op") == "eq" and level_cond(c, l)["col"] == tc)
                div = max(cands + [chosen["tf"]["minU"]])
                w += chosen["tf"]["weight"] * math.log2(exact_u / div)
    return gam, (math.inf if infinite else w)


def waterfall_verdict(case, key, x, y, gam, w, row, recs):
    """The waterfall records of a pair: prior + one bar per comparison (+ its TF bar) add up to the score; each bar shows the assigned level."""
    if not recs or recs[0]["column_name"] != "Prior" or recs[-1]["column_name"] != "Final score":
        return f"waterfall records of pair {key} do not run from 'Prior' to 'Final score': {[r['column_name'] for r in recs or []]}"
    if not core.close(recs[-1]["log2_bayes_factor"], w, 1e-7, 1e-7):
        return f"waterfall 'Final score' of pair {key} is {recs[-1]['log2_bayes_factor']}, Fellegi-Sunter formula gives {w}"
    total = sum(r["log2_bayes_factor"] for r in recs[:-1])
    if not core.close(total, w, 1e-7, 1e-7):
        return f"waterfall bars of pair {key} add up to {total}, the score is {w}"
    chosen = []
    oracle_weight(case, x, y, chosen)
    bars = [r for r in recs[1:-1] if not r["term_frequency_adjustment"]]
    if [r["column_name"] for r in bars] != [f"{c['col']}{ci}" for ci, c in enumerate(case["comparisons"])]:
        return f"waterfall bars of pair {key}: {[r['column_name'] for r in bars]}, one per comparison expected"
    for r, g, l in zip(bars, gam, chosen):
        if r["comparison_vector_value"] != g:
            return f"waterfall bar {r['column_name']} of pair {key} shows level {r['comparison_vector_value']}, first-true level is {g}"
        want = (None, None) if l["kind"] == "null" else (l["m"], l["u"])
        if (r["m_probability"], r["u_probability"]) != want:
            return f"waterfall bar {r['column_name']} of pair {key} shows m,u = {(r['m_probability'], r['u_probability'])}, the assigned level has {want}"
    return None


def verdict(case, r):
    """Property decided on the real output only."""
    thr = case.get("thr")
    rmc, ricc = case.get("retain", [True, True])
    tw = None
    if thr:
        tw = thr["value"] if thr["kind"] == "weight" else (None if thr["value"] == 0 else math.log2(thr["value"] / (1 - thr["value"])))
    if r.get("waterfall_error"):
        return f"waterfall_chart raised {r['waterfall_error']}"
    for x, y in pairs_of(case):
        key = f"{x['unique_id']}-{y['unique_id']}"
        gam, w = oracle_weight(case, x, y)
        row = r["rows"].get(key)
        if tw is not None and w != math.inf and abs(w - tw) <= 1e-9 * max(1, abs(tw)):
            continue  # within rounding of the threshold: excepted by the property
        should = tw is None or w >= tw
        if row is None:
            if should:
                return f"pair {key} with weight {w} is missing (threshold {tw})"
            continue
        if not should:
            return f"pair {key} with weight {w} is below the threshold {tw} but was returned"
        if rmc:
            got_g = [row[f"gamma_{c['col']}{ci}"] for ci, c in enumerate(case["comparisons"])]
            if got_g != gam:
                return f"comparison levels of pair {key}: got {got_g}, first-true levels are {gam}"
        if not core.close(row["match_weight"], w, 1e-7, 1e-7):
            return f"match_weight of pair {key}: got {row['match_weight']}, Fellegi-Sunter formula gives {w}"
        p = 1.0 if w == math.inf else (2.0**w) / (1 + 2.0**w)
        if not core.close(row["match_probability"], p, 1e-7, 1e-9):
            return f"match_probability of pair {key}: got {row['match_probability']}, expected {p}"
        if ricc:
            # retained intermediate columns multiply to the score
            missing = [f"bf_{c['col']}{ci}" for ci, c in enumerate(case["comparisons"]) if f"bf_{c['col']}{ci}" not in row]
            if missing:
                return f"intermediate columns {missing} of pair {key} are not in the output although retain_intermediate_calculation_columns is set"
            prod = case["prior"] / (1 - case["prior"])
            for k, v in row.items():
                if k.startswith("bf_") and v is not None:
                    prod *= v
            if w != math.inf and not core.close(math.log2(prod) if prod > 0 else -math.inf, row["match_weight"], 1e-7, 1e-7):
                return f"intermediate columns of pair {key} multiply to weight {math.log2(prod) if prod > 0 else None}, match_weight is {row['match_weight']}"
        if "waterfall" in r:
            v = waterfall_verdict(case, key, x, y, gam, w, row, r["waterfall"].get(key))
            if v:
                return v
    return None


# --------------------------------------------------------------------------- comparison
def count_shapes(ctx, c, ps, r):
    """Evidence of the input families actually exercised (level order, null-level positions, order-sensitive pairs, options)."""
    ctx.count("family", c.get("family", "library"))
    ctx.count("retain_matching/intermediate", str(c.get("retain", [True, True])))
    ctx.count("predict_flags", json.dumps(c.get("predict_flags"), sort_keys=True) if c.get("predict_flags") else "default")
    ctx.count("predict_called_before", c.get("predict_before") is not None)
    ctx.count("settings_object_used_before", c.get("settings_used_before") or "no")
    ctx.count("prior_extreme", c["prior"] in (1e-7, 0.999999))
    ctx.count("waterfall_checked", isinstance(r, dict) and "waterfall" in r)
    vals = [rr[k] for rr in c["rows"] for k in ("a", "b")]
    ctx.count("data_has_empty_string", "" in vals)
    ctx.count("m_or_u_exactly_1", any(l.get("m") == 1.0 or l.get("u") == 1.0 for cc in c["comparisons"] for l in cc["levels"]))
    lev2 = any(x[col] is not None and y[col] is not None and lev(x[col], y[col]) == 2 for x, y in ps for col in ("a", "b"))
    ctx.count("pair_at_levenshtein_distance_2", lev2)
    pos, multi, order_pairs, true_then_null, null_hits_late, n_null = set(), False, 0, 0, 0, set()
    for cc in c["comparisons"]:
        lv = cc["levels"]
        nulls = [i for i, l in enumerate(lv) if l["kind"] == "null"]
        n_null.add(len(nulls))
        for i in nulls:
            pos.add("first" if i == 0 else ("last_before_else" if i == len(lv) - 2 else "middle"))
        conds = [level_cond(cc, l) for l in lv]
        if any(t is not None and len(cond_cols(t)) > 1 for t in conds):
            multi = True
        for x, y in ps:
            true_at = [i for i, l in enumerate(lv) if l["kind"] != "else" and cond_eval(conds[i], x, y) == 1]
            if len(true_at) >= 2:
                order_pairs += 1  # several listed conditions hold: which level is assigned depends on the listed order
                if lv[true_at[0]]["kind"] != "null" and any(lv[i]["kind"] == "null" for i in true_at[1:]):
                    true_then_null += 1
            if true_at and lv[true_at[0]]["kind"] == "null" and true_at[0] > 0:
                null_hits_late += 1
    for p_ in sorted(pos) or ["no_null_level"]:
        ctx.count("null_level_position", p_)
    ctx.count("null_levels_per_comparison(max)", max(n_null) if n_null else 0)
    ctx.count("multi_column_level_condition", multi)
    ctx.count("case_has_pair_with_several_true_levels", order_pairs > 0)
    ctx.count("case_has_pair_true_level_listed_before_true_null_level", true_then_null > 0)
    ctx.count("case_has_pair_assigned_null_level_not_listed_first", null_hits_late > 0)
    ctx.count("tf_column_differs_from_comparison_column", any("tf" in l and tf_col(cc, l) != cc["col"] for cc in c["comparisons"] for l in cc["levels"]))


def compare(ctx, cases, drv):
    reqs = [model_request(c) for c in cases]
    res = core.pmap(run_impl_safe, cases, chunksize=2)
    mres = drv.pbatch(reqs)
    problems = []
    sql_items = []
    for c, req, r, m in zip(cases, reqs, res, mres):
        ps = pairs_of(c)
        has_tf = any("tf" in l for cc in c["comparisons"] for l in cc["levels"])
        has_inf = any(l.get("u") == 0 for cc in c["comparisons"] for l in cc["levels"])
        keys = ("rows", "comparisons", "prior", "thr", "engine", "construct", "tf_lookup", "retain", "predict_flags", "predict_before", "settings_used_before")
        ctx.case({k: c[k] for k in keys if k in c}, len(ps) >= 1 and len(c["comparisons"]) >= 1,
                 sample={"case": {k: c[k] for k in keys if k in c}, "impl": r.get("rows") if isinstance(r, dict) else None} if len(c["rows"]) <= 2 and len(c["comparisons"]) <= 2 else None)
        ctx.count("engine", c["engine"]); ctx.count("n_comparisons", len(c["comparisons"])); ctx.count("has_tf", has_tf); ctx.count("has_u_zero", has_inf)
        ctx.count("threshold", "none" if not c.get("thr") else c["thr"]["kind"]); ctx.count("construct", c.get("construct", "dict")); ctx.count("tf_lookup_registered", bool(c.get("tf_lookup")))
        ctx.count("tf_weights", sorted({l["tf"]["weight"] for cc in c["comparisons"] for l in cc["levels"] if "tf" in l}).__str__())
        count_shapes(ctx, c, ps, r)
        if core.impl_error(r):
            ctx.count("impl_error", r["__error__"])
            problems.append((c, f"real code raised {r['__error__']}: {r['text'][:300]}", True))
            continue
        if "error" in m:
            if ctx.lean.ok:
                raise core.HarnessError("model driver error: " + m["error"])
            ctx.count("model_unavailable", m["error"][:80])  # translated part not regenerable (a broken obligation already): oracle only
            v_ = verdict(c, r) if not core.impl_error(r) else None
            if v_ is not None:
                problems.append((c, v_, True))
            continue
        v = verdict(c, r)
        if v is not None:
            problems.append((c, v, True))
            continue
        # model vs impl: every column
        bad = None
        for (x, y), mr in zip(ps, m["rows"]):
            key = f"{x['unique_id']}-{y['unique_id']}"
            row = r["rows"].get(key)
            mw = fac(mr["weight"])
            tw = None
            if c.get("thr"):
                tw = c["thr"]["value"] if c["thr"]["kind"] == "weight" else (None if c["thr"]["value"] == 0 else math.log2(c["thr"]["value"] / (1 - c["thr"]["value"])))
            near = tw is not None and mw is not None and mw != math.inf and abs(mw - tw) <= 1e-9 * max(1, abs(tw))
            if near:
                continue
            if (row is not None) != mr["keep"]:
                bad = f"pair {key}: kept by impl={row is not None}, by model={mr['keep']} (model weight {mw}, threshold {tw})"
                break
            if row is None:
                continue
            rmc, ricc = c.get("retain", [True, True])
            gm = [row[f"gamma_{cc['col']}{ci}"] for ci, cc in enumerate(c["comparisons"])] if rmc else mr["gammas"]
            if gm != mr["gammas"]:
                bad = f"pair {key}: gammas impl {gm} model {mr['gammas']}"
                break
            # terms in order: bf_x, [bf_tf_adj_x]
            terms = []
            for ci, cc in enumerate(c["comparisons"]):
                nm = f"{cc['col']}{ci}"
                terms.append(row.get(f"bf_{nm}"))
                if any("tf" in l for l in cc["levels"]):
                    terms.append(row.get(f"bf_tf_adj_{nm}"))
            mt = [fac(t) for t in mr["terms"]] if ricc else terms
            if len(terms) != len(mt) or any(not core.close(a, b, 1e-9) for a, b in zip(terms, mt)):
                bad = f"pair {key}: bf/tf_adj columns impl {terms} model {mt}"
                break
            if not core.close(row["match_weight"], mw, 1e-9, 1e-9) or not core.close(row["match_probability"], core.b2f(mr["prob"]), 1e-9, 1e-12):
                bad = f"pair {key}: weight/prob impl ({row['match_weight']}, {row['match_probability']}) model ({mw}, {core.b2f(mr['prob'])})"
                break
        if bad:
            problems.append((c, "predict() columns differ from Lean model Score.score: " + bad, False))
            continue
        ctx.traces_validated += 1
        sql_items.append((c, r))
    from harness.props import c02_sql

    problems += c02_sql.validate(ctx, sql_items, drv)  # the regenerated scoring SQL under Rel.eval vs the engine (translation validation)
    return problems


def gen_cases(ctx):
    rng = ctx.rng
    cases = []
    n = ctx.budget(250, 4000)
    for _ in range(n):
        c = gen_case(rng)
        cases.append(c)
    # thresholds sitting on emitted scores: derive from the oracle weights of the case
    extra = []
    for c in cases[: ctx.budget(60, 800)]:
        ws = []
        for x, y in pairs_of(c):
            _, w = oracle_weight(c, x, y)
            if w is not None and w != math.inf:
                ws.append(w)
        if not ws:
            continue
        d = json.loads(json.dumps(c))
        w = rng.choice(ws)
        kind = rng.choice(["weight", "weight", "prob"])
        if kind == "weight":
            # on / around an emitted score, and the falsy-but-given boundary values 0, 0.0, -0.0 (= probability 0.5)
            d["thr"] = {"kind": "weight", "value": rng.choice([w, w + 0.5, w - 0.5, round(w, 1), 0, 0.0, -0.0])}
        else:
            p = (2.0**w) / (1 + 2.0**w)
            d["thr"] = {"kind": "prob", "value": rng.choice([p, min(0.999999, p * 1.1), p * 0.9, 0.0, 0.5])}
        d["tag"] = "threshold"
        extra.append(d)
    return cases + extra


def impl_fails(case, same_as=None):
    r = run_impl_safe(case)
    if "__error__" in r:
        return same_as in (None, "real code raised")
    v = verdict(case, r)
    return v is not None and (same_as is None or classify(v) == same_as)


def shrink(case):
    cur = json.loads(json.dumps(case))
    budget = 50
    changed = True
    while changed and budget > 0:
        changed = False
        for k in range(len(cur["rows"]) - 1, -1, -1):
            if budget <= 0 or len(cur["rows"]) <= 2:
                break
            cand = json.loads(json.dumps(cur))
            del cand["rows"][k]
            budget -= 1
            if impl_fails(cand):
                cur, changed = cand, True
        for k in range(len(cur["comparisons"]) - 1, -1, -1):
            if budget <= 0 or len(cur["comparisons"]) <= 1:
                break
            cand = json.loads(json.dumps(cur))
            del cand["comparisons"][k]
            budget -= 1
            if impl_fails(cand):
                cur, changed = cand, True
        # levels other than ELSE (only while the same kind of failure stays: removing the exact-match level of a TF column is an error of its own)
        r0 = run_impl_safe(cur)
        kind0 = "real code raised" if "__error__" in r0 else classify(verdict(cur, r0) or "")
        for ci in range(len(cur["comparisons"])):
            for k in range(len(cur["comparisons"][ci]["levels"]) - 2, -1, -1):
                if budget <= 0 or len(cur["comparisons"][ci]["levels"]) <= 2:
                    break
                cand = json.loads(json.dumps(cur))
                del cand["comparisons"][ci]["levels"][k]
                budget -= 1
                if kind0 != "real code raised" and impl_fails(cand, kind0):
                    cur, changed = cand, True
    return cur


def classify(what: str) -> str:
    for pat, cls in [("is missing", "pair missing"), ("below the threshold", "pair below threshold returned"), ("comparison levels of pair", "wrong comparison level"),
                     ("match_weight of pair", "match_weight differs from formula"), ("match_probability of pair", "match_probability differs"),
                     ("intermediate columns of pair", "intermediate columns do not multiply to score"), ("intermediate columns [", "retained intermediate columns missing"),
                     ("waterfall_chart raised", "waterfall_chart raised"), ("waterfall", "waterfall records differ from the score"), ("real code raised", "real code raised")]:
        if pat in what:
            return cls
    return what[:60]


def match_info(case, what):
    tf0 = any(l.get("tf", {}).get("weight") == 0.0 for cc in case["comparisons"] for l in cc["levels"] if "tf" in l)
    u0 = any(l.get("u") == 0 for cc in case["comparisons"] for l in cc["levels"])
    if classify(what) == "real code raised":
        return {"failure": "real code raised", "engine": case["engine"], "has_u_zero": u0}
    return {"failure": classify(what), "tf_weight_zero_present": tf0, "construct": case.get("construct", "dict")}


def run(ctx: core.Ctx):
    ctx.rule = (
        "cases = 2-9 records over tiny string/int domains (empty string, values at levenshtein distance exactly 1 and 2, negative ints; NULL rate 0-35%). Family 'library' (60%): 1-4 "
        "single-column comparisons (exact / levenshtein<=1[,2] / numeric abs-diff) with 2-5 levels in library order, with or without a leading null level. Family 'free' (40%): 1-4 custom "
        "comparisons over 1-3 columns whose 1-4 non-null levels are listed in ARBITRARY order (permuted ladders, repeated and overlapping conditions, AND/OR/NOT of atoms on several "
        "columns, cross-column equality, <>, conditions containing null tests) with 0-3 null levels (either/both/one side missing, any/all of several columns missing) at arbitrary "
        "positions, TF column possibly different from the comparison's first column. Both: m,u random in (0,1] (8% exactly 1; 12% a u=0 level), TF adjustments on exact and fuzzy "
        "levels with weight in {0,0.3,0.5,1}, minimum-u in {0,0.01,0.2}, detection disabled 25%, registered TF lookup tables with missing values 35%, priors in (0,1); built from a "
        "settings dict, CustomComparison/CustomLevel creators, a dict holding creators, or creators holding level dicts; retain_matching_columns / "
        "retain_intermediate_calculation_columns in all four combinations (75% both), predict() materialisation flags, an earlier predict() with other thresholds on the same linker, the settings object already used by another Linker (same / other dialect); priors incl. 1e-7 and 0.999999; "
        "+ the same cases with a weight/probability threshold sitting on, just above, just below an emitted score; duckdb+sqlite. Every retained column of every pair compared; with "
        "both retain flags the waterfall records of every returned pair are checked against the score. non-trivial = at least one pair and one comparison; distinct = hash of (rows, "
        "model, threshold, engine, construction path, options)."
    )
    ctx.assumptions = [
        "0 < m <= 1, 0 <= u <= 1, 0 < prior < 1, every comparison ends with an ELSE level (library shape); a TF-adjusted level either disables exact-match detection or its comparison lists a plain col_l = col_r level on the TF column",
        "floating point: columns compared at relative 1e-9 with the Float model and 1e-7 with the closed-form oracle; rows within 1e-9 of the threshold excepted",
        "level conditions used here (equality, <>, levenshtein, abs difference, IS NULL, cross-column equality and their AND/OR/NOT under SQL three-valued logic) are evaluated by the harness itself",
    ]
    from harness.translate import tarith

    errs = tarith.write({"threshold_args_to_match_weight", "prob_to_match_weight", "prob_to_bayes_factor", "bayes_factor_to_prob", "match_weight_to_bayes_factor"})  # the model's threshold conversion is the translated source
    from harness.props import c02_sql

    sql_errs = c02_sql.prepare()  # Generated/ScoreSql.lean: the scoring statements comparison_vector_values.py / predict.py emit now, as Rel terms (T-sql); Properties/C02Sql.lean is re-checked against it
    ctx.lean = core.lean_check(PROP, ctx.thorough)
    if errs:
        ctx.lean.ok = False
        ctx.lean.problems += ["T-arith: " + e for e in errs]
    if sql_errs:
        ctx.lean.ok = False
        ctx.lean.problems += ["T-sql: " + e for e in sql_errs]
    drv = core.Driver()
    if ctx.replay:
        cases = [json.loads(open(ctx.replay).read())["replay"]["case"]]
    else:
        from harness import graphs

        cases = graphs.load_corpus(PROP) + gen_cases(ctx)
    problems = compare(ctx, cases, drv)
    if (not ctx.lean.ok or any(not conc for _, _, conc in problems)) and not ctx.replay:
        ctx.notes.append("proof or correspondence broke: ran the widened failing-input search")
        rng2 = random.Random(ctx.seed + 7919)
        problems += compare(ctx, [gen_case(rng2) for _ in range(1500)], drv)
    concrete = [(c, w) for c, w, conc in problems if conc]
    broken = [(c, w) for c, w, conc in problems if not conc]
    reported = set()
    for c, w in concrete:
        mi = match_info(c, w)
        key = json.dumps(mi, sort_keys=True)
        if key in reported or len(reported) >= 4:
            continue
        reported.add(key)
        small = shrink(c) if not c.get("tag", "").startswith("corpus") else c
        rr = run_impl_safe(small)
        what = (verdict(small, rr) if "rows" in rr else f"real code raised {rr['__error__']}: {rr['text'][:300]}") or w
        ctx.violation("real output violates C02: " + classify(what) + (" [tf_adjustment_weight 0 supplied]" if mi.get("tf_weight_zero_present") else "") + f" [{mi.get('construct', mi.get('engine'))}]",
                      {"case": small, "observed": rr, "detail": what}, kind="concrete", match_info=match_info(small, what))
    if not ctx.violations:  # no NEW concrete violation (none at all, or only ones a registered known finding describes)
        if broken:
            c, w = broken[0]
            ctx.violation("correspondence Score model <-> predict() no longer checks",
                          {"correspondence": "harness/props/c02.py compare(): " + w, "case": c, "disagreeing_cases": len(broken), "searched_cases": ctx.evaluations, "lean": ctx.lean.as_dict()}, kind="unproved")
        elif not ctx.lean.ok:
            ctx.violation("Lean obligations for C02 no longer check",
                          {"theorems": ctx.lean.as_dict()["undischarged"], "problems": ctx.lean.problems, "build_log_tail": ctx.lean.build_log[-1500:], "searched_cases": ctx.evaluations}, kind="unproved")
