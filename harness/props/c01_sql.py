"""C01, SQL level: T-sql regeneration of Generated/BlockSql.lean and its translation validation.

`prepare()` regenerates the Lean terms of the per-rule SELECT statements of `__splink__blocked_id_pairs` that
`blocking.py: block_using_rules_sqls` emits now (captured from real runs with marker rules; the rule, the preceding rules,
the match_key literal and the table width are parameters of the generated definitions).
`validate()` evaluates those regenerated terms with the Lean SQL semantics (`Rel.eval`, driver op `block_sql`, control flow of
Model/BlockSql.lean) on the small plain-rule cases of the correspondence run - the concatenated input table as Splink builds it,
the rules given as `Expr` over the joined row - and compares the rows (match_key, id_l, id_r) with what the engine returned for
the real code: this validates the translator + `Rel.eval` (three-valued logic, `||`, string order) against DuckDB/SQLite.  It is
testing, not proof; the proof is `Properties/C01Sql.lean`.
"""
from __future__ import annotations

from harness import blockgen as bg
from harness import core

MAX_RECORDS = 24  # Rel.eval joins are quadratic list scans per rule
MAX_VIEWS = 900
DATA_COLS = ["a", "b", "c", "d", "a1", "b1"]  # a1 / b1 = substr(a, 1, 1) / substr(b, 1, 1): derived columns for the `sub` atom


def prepare() -> list[str]:
    from harness.translate import tsql

    try:
        return tsql.run_isolated("block")
    except Exception as e:  # noqa: BLE001  the capture run itself failed inside the real code or the translator
        return [f"T-sql capture/translation failed in write_block: {type(e).__name__}: {str(e)[:300]}"]


def plain_view(view: dict) -> bool:
    return all(r["kind"] == "plain" and not bg.uses_arr(r["ast"]) for r in view["rules"])


def _row(rec: dict, with_sd: bool) -> list:
    a, b = rec.get("a"), rec.get("b")
    data = [a, b, rec.get("c"), rec.get("d"), None if a is None else a[:1], None if b is None else b[:1]]
    return ([rec["source_dataset"]] if with_sd else []) + [rec["unique_id"]] + data


def _expr(ast, pos: dict, w: int):
    """Rule AST of harness/blockgen.py -> JSON `Expr` over the joined row (l's w columns, then r's)."""
    k = ast[0]
    if k == "eq":
        return ["cmp", "eq", ["col", pos[ast[1]]], ["col", w + pos[ast[2]]]]
    if k == "lt":
        return ["cmp", "lt", ["col", pos[ast[1]]], ["col", w + pos[ast[1]]]]
    if k == "sub":
        return ["cmp", "eq", ["col", pos[ast[1] + "1"]], ["col", w + pos[ast[1] + "1"]]]
    if k == "lit":
        return ["cmp", "eq", ["col", (0 if ast[1] == "l" else w) + pos[ast[2]]], ["lit", ast[3]]]
    if k in ("and", "or"):
        return [k, _expr(ast[1], pos, w), _expr(ast[2], pos, w)]
    if k == "not":
        return ["not", _expr(ast[1], pos, w)]
    raise ValueError(ast)


def request(recs: list[dict], view: dict, with_sd: bool):
    """-> (block_sql request, {identity value -> (source dataset, unique id)})"""
    cols = (["source_dataset"] if with_sd else []) + ["unique_id"] + DATA_COLS
    pos = {c: i for i, c in enumerate(cols)}
    w = len(cols)
    rows = [_row(r, with_sd) for r in recs]
    lt = view["lt"]
    if lt == "two_dataset_link_only":
        # split_df_concat_with_tf_into_two_tables_sqls: left = the rows of the minimum source dataset, right = the others
        lo = min((r["source_dataset"] for r in recs), default=None)
        left = [x for x, r in zip(rows, recs) if r["source_dataset"] == lo]
        right = [x for x, r in zip(rows, recs) if r["source_dataset"] != lo]
    else:
        left = right = rows
    ident = {}
    for r in recs:
        key = f"{r['source_dataset']}-__-{r['unique_id']}" if with_sd else r["unique_id"]
        ident[key] = (r["source_dataset"], r["unique_id"])
    req = {"op": "block_sql", "lt": lt, "w": w, "left": left, "right": right, "rules": [_expr(r["ast"], pos, w) for r in view["rules"]]}
    return req, ident


def validate(ctx: core.Ctx, items, drv: core.Driver):
    """items: (case, view index, view, records of the view, with_sd, engine rows of the view as sorted (mk, id_l, id_r)) for cases whose
    real run succeeded and satisfied the oracle.  Returns [(case, text, False)] for disagreements."""
    items = [it for it in items if plain_view(it[2]) and len(it[3]) <= MAX_RECORDS][:MAX_VIEWS]
    if not items:
        return []
    built = [request(recs, view, with_sd) for _, _, view, recs, with_sd, _ in items]
    out = drv.pbatch([rq for rq, _ in built])
    problems = []
    for (c, vi, view, recs, with_sd, irows), (_, ident), m in zip(items, built, out):
        if "error" in m:
            ctx.count("sql_model_unavailable", m["error"][:80])
            continue
        ctx.count("translation_validation", "block_sql evaluated")
        ctx.count("translation_validation", f"block_sql link type {view['lt']}")
        try:
            rows = sorted((int(mk), ident[a], ident[b]) for mk, a, b in m["rows"])
        except (KeyError, TypeError, ValueError):
            problems.append((c, f"the regenerated blocking SQL evaluated by Rel.eval (Generated/BlockSql.lean) returns identities that are not records of the input (step {vi + 1}): {m['rows'][:4]}", False))
            continue
        if rows != irows:
            extra = [x for x in irows if x not in rows][:3]
            missing = [x for x in rows if x not in irows][:3]
            problems.append((c, f"rows of the regenerated blocking SQL evaluated by Rel.eval (Generated/BlockSql.lean) differ from the engine's result (step {vi + 1}, {view['entry']}, {view['lt']}): engine-only {extra} Rel.eval-only {missing}", False))
        else:
            ctx.count("translation_validation", "block_sql agrees with engine")
    return problems
